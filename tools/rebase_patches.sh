#!/bin/sh
# tools/rebase_patches.sh <old-commit> <new-commit>
# After a fix: commit, re-express every stored patch (mutants/*.patch, seeded/*/patch.diff) that no longer applies to
# <new-commit> but applied to <old-commit>: apply it at <old>, put the fix's own diff on top where it still applies
# (where the patch rewrote the very lines the fix touches, the patch's version of those lines stands), and store the
# diff against <new>. Originals of seeded patches are kept as patch.orig.diff. Scratch worktrees under /var/tmp.
OLD="$1"; NEW="$2"
W="$(mktemp -d /var/tmp/bsv-reb-XXXXXX)"; rmdir "$W"
git -C /repo worktree add --detach -q "$W" "$NEW" || exit 2
trap 'git -C /repo worktree remove --force "$W" 2>/dev/null; rm -rf "$W" /var/tmp/bsv-fix.diff' EXIT
git -C /repo diff "$OLD" "$NEW" > /var/tmp/bsv-fix.diff
for P in /verif/mutants/*.patch /verif/seeded/*/patch.diff; do
  git -C "$W" checkout -q --detach "$NEW"; git -C "$W" reset -q --hard
  git -C "$W" apply --check "$P" 2>/dev/null && continue
  git -C "$W" checkout -q --detach "$OLD"
  if ! git -C "$W" apply "$P" 2>/dev/null; then echo "STALE-BEFORE $P"; git -C "$W" reset -q --hard; continue; fi
  if git -C "$W" apply /var/tmp/bsv-fix.diff 2>/dev/null || git -C "$W" apply -C1 /var/tmp/bsv-fix.diff 2>/dev/null || git -C "$W" apply -C0 --unidiff-zero /var/tmp/bsv-fix.diff 2>/dev/null; then HOW="fix re-applied on top"; else HOW="patch rewrote the fixed lines: its version stands"; fi
  git -C "$W" diff "$NEW" -- . > /var/tmp/bsv-new.diff
  git -C "$W" reset -q --hard
  case "$P" in
    */seeded/*) D="$(dirname "$P")"; [ -f "$D/patch.orig.diff" ] || cp "$P" "$D/patch.orig.diff"
       python3 - "$D/meta.json" "$NEW" "$HOW" <<'PY'
import json, sys
m = json.load(open(sys.argv[1])); m['rebased_onto'] = f'{sys.argv[2]} ({sys.argv[3]}; original kept as patch.orig.diff)'
json.dump(m, open(sys.argv[1], 'w'), indent=1)
PY
    ;;
  esac
  cp /var/tmp/bsv-new.diff "$P"; rm -f /var/tmp/bsv-new.diff
  echo "REBASED $P ($HOW)"
done
