#!/usr/bin/env python3
"""Reverse a unified diff read from stdin (swap +/- lines and file headers, fix hunk headers). Usage:
   git -C /repo show <sha> | python3 tools/revpatch.py > mutants/revert-Fx.patch
   (equivalent to: git -C /repo diff <sha> <sha>^)"""
import re, sys
out = []
started = False
for line in sys.stdin:
    if line.startswith('diff --git'):
        started = True
    if not started:
        continue
    if line.startswith('--- '):
        out.append('+++ ' + line[4:].replace('a/', 'b/', 1)); continue
    if line.startswith('+++ '):
        out.append('--- ' + line[4:].replace('b/', 'a/', 1)); continue
    m = re.match(r'@@ -(\d+)(?:,(\d+))? \+(\d+)(?:,(\d+))? @@(.*)', line, re.S)
    if m:
        a, b, c, d, rest = m.groups()
        out.append(f"@@ -{c}{',' + d if d else ''} +{a}{',' + b if b else ''} @@{rest}"); continue
    if line.startswith('+'):
        out.append('-' + line[1:])
    elif line.startswith('-'):
        out.append('+' + line[1:])
    else:
        out.append(line)
# swap the order of ---/+++ header pairs
res = []
i = 0
while i < len(out):
    if out[i].startswith('+++ ') and i + 1 < len(out) and out[i + 1].startswith('--- '):
        res.extend([out[i + 1], out[i]]); i += 2
    else:
        res.append(out[i]); i += 1
sys.stdout.write(''.join(res))
