#!/usr/bin/env python3
"""Print a markdown table of /verif/seeded/*: property, what it needs, first result, final result."""
import glob, json, os
rows = []
for d in sorted(glob.glob('/verif/seeded/*')):
    m = json.load(open(os.path.join(d, 'meta.json')))
    first = m.get('confirmed', {}).get('checks_quick', {})
    final = m.get('final_checks', {})
    rows.append((os.path.basename(d), m['property'], ' '.join(f'{k}:{v}' for k, v in first.items()), ' '.join(f'{k}:{v}' for k, v in final.items()),
                 m.get('summary', '').replace('\n', ' ')[:150]))
print('| seed | property | first run | final run | change |')
print('|---|---|---|---|---|')
for r in rows:
    print('| ' + ' | '.join(r) + ' |')
