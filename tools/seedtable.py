#!/usr/bin/env python3
"""Print a markdown table of /verif/seeded/*: property, first result, final result (own check, neighbouring checks), status."""
import glob, json, os
rows = []
count = {}
for d in sorted(glob.glob('/verif/seeded/*')):
    m = json.load(open(os.path.join(d, 'meta.json')))
    prop = m['property']
    first = m.get('confirmed', {}).get('checks_quick', {})
    final = m.get('final_checks', {})
    if final.get(prop) == 'DETECTED':
        status = 'detected'
    elif any(v == 'DETECTED' for k, v in final.items() if k != prop):
        status = 'detected by ' + ', '.join(k for k, v in final.items() if k != prop and v == 'DETECTED')
    elif 'status_note' in m:
        status = 'outside / not a violation'
    else:
        status = 'MISSED'
    key = status if not status.startswith('detected by') else 'detected by a neighbouring property'
    count[key] = count.get(key, 0) + 1
    note = m.get('status_note', '') or (('rebased: ' + m['rebased_onto'].split(' (')[0]) if 'rebased_onto' in m else '')
    rows.append((os.path.basename(d), prop, ' '.join(f'{k}:{v}' for k, v in first.items()), ' '.join(f'{k}:{v}' for k, v in final.items()), status,
                 (m.get('summary', '').replace('\n', ' ').replace('|', '/')[:140]), note.replace('|', '/')[:160]))
print('# Seeded changes: final status on the committed machinery\n')
print(f'{len(rows)} independently written changes (each breaks one property, passes the 410 repository tests, needs something specific to show).')
print('"first run" is the quick check of the seed\'s own property at the time the seed arrived; "final run" is `tools/seedrecheck.sh` on the final drivers.\n')
for k in sorted(count):
    print(f'* {k}: {count[k]}')
print('\n| seed | property | first run | final run | status | change | note |')
print('|---|---|---|---|---|---|---|')
for r in rows:
    print('| ' + ' | '.join(r) + ' |')
