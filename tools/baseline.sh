#!/bin/sh
# Run the repository's pinned test suite (guard off) and compare with BASELINE.json: exit 0 iff every stable_pass test passes.
# usage: tools/baseline.sh [repo-dir]
REPO="${1:-/repo}"
OUT="$(mktemp /var/tmp/bsv-junit-XXXXXX.xml)"
cd "$REPO" && PYTHONPATH="$REPO/src" /venv/bin/python -m pytest -ra -q -p no:cacheprovider --timeout=900 --continue-on-collection-errors --junitxml="$OUT" >/dev/null 2>&1
/venv/bin/python - "$OUT" <<'PY'
import json, sys, xml.etree.ElementTree as ET
base = json.load(open('/root/.vp/BASELINE.json'))
want = set(base['stable_pass'])
root = ET.parse(sys.argv[1]).getroot()
passed = set()
for tc in root.iter('testcase'):
    if not any(ch.tag in ('failure', 'error', 'skipped') for ch in tc):
        passed.add(tc.get('classname') + '::' + tc.get('name'))
missing = sorted(want - passed)
print(f'baseline: {len(want & passed)}/{len(want)} stable tests pass; {len(missing)} missing')
for m in missing[:20]:
    print('  MISSING', m)
sys.exit(1 if missing else 0)
PY
RC=$?
rm -f "$OUT"
exit $RC
