#!/bin/sh
# tools/seedrecheck.sh <id> [Cxx ...]  - re-run the quick check(s) against /verif/seeded/<id>/patch.diff on the current
# machinery and record the outcome in seeded/<id>/meta.json under "final_checks" (default check: the seed's property).
ID="$1"; shift
S="/verif/seeded/$ID"
PROP="$(python3 -c "import json; print(json.load(open('$S/meta.json'))['property'])")"
CHECKS="${*:-$PROP}"
OUT="$(/verif/tools/mutant.sh "$S/patch.diff" $CHECKS 2>&1)"
echo "$OUT" | sed "s/^patch.diff/$ID/" | cut -c1-150
python3 - "$S/meta.json" "$OUT" <<'PY'
import json, re, sys
m = json.load(open(sys.argv[1]))
fc = m.setdefault('final_checks', {})
for line in sys.argv[2].splitlines():
    mt = re.match(r'patch\.diff (C\d\d) (DETECTED|MISSED|HARNESS-ERROR)', line)
    if mt:
        fc[mt.group(1)] = mt.group(2)
    mt = re.match(r'patch\.diff baseline=(\w+)', line)
    if mt:
        m['final_baseline'] = mt.group(1)
json.dump(m, open(sys.argv[1], 'w'), indent=1)
PY
