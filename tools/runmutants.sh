#!/bin/sh
# tools/runmutants.sh [pattern]  - run every mutants/<pattern>*.patch against the quick check(s) of the property it targets.
# Targets: Cxx-*.patch -> Cxx ; revert-Fk.patch -> the properties listed for Fk in known_findings.json.
# Output: one line per (patch, check): DETECTED | MISSED | HARNESS-ERROR, plus baseline=pass|FAIL. Results -> notes/mutants-results.txt
cd /verif || exit 2
OUT=notes/mutants-results.txt
PAT="${1:-}"
[ -z "$PAT" ] && : > "$OUT"
for P in mutants/${PAT}*.patch; do
  B="$(basename "$P" .patch)"
  case "$B" in
    revert-F*) F="${B#revert-}"; CH="$(python3 -c "
import json
for e in json.load(open('known_findings.json')):
    if e['id']=='$F': print(' '.join(e.get('properties', [])))
")";;
    C[0-9][0-9]-*) CH="$(echo "$B" | cut -c1-3)";;
    *) CH="";;
  esac
  [ -z "$CH" ] && continue
  tools/mutant.sh "$P" $CH 2>&1 | cut -c1-160 | tee -a "$OUT"
done
