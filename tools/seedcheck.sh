#!/bin/sh
# tools/seedcheck.sh <seed-dir> <id> [Cxx ...]
# Confirm a seeded change (patch.diff, demo.py, meta.json) in a scratch worktree and run checks against it:
#   demo passes on the unchanged tree, patch applies, repo baseline passes with the patch, demo fails with the patch,
#   then each named check (default: the property in meta.json) must report a VIOLATION.
# On success of the confirmation steps the seed is stored as /verif/seeded/<id>/ with a 'confirmed' record in meta.json.
SEED="$(readlink -f "$1")"; ID="$2"; shift 2
PROP="$(python3 -c "import json,sys; print(json.load(open('$SEED/meta.json'))['property'])")"
CHECKS="${*:-$PROP}"
DIR="$(mktemp -d /var/tmp/bsv-seed-XXXXXX)"; rmdir "$DIR"
git -C /repo worktree add --detach -q "$DIR" HEAD || exit 2
trap 'git -C /repo worktree remove --force "$DIR" 2>/dev/null; rm -rf "$DIR"' EXIT
cd "$DIR" || exit 2
PYTHONPATH="$DIR/src" timeout 300 /venv/bin/python "$SEED/demo.py" >/dev/null 2>&1; D0=$?
if ! git apply "$SEED/patch.diff" 2>/dev/null; then echo "$ID patch-does-not-apply"; exit 2; fi
/verif/tools/baseline.sh "$DIR" >/dev/null 2>&1; BASE=$?
PYTHONPATH="$DIR/src" timeout 300 /venv/bin/python "$SEED/demo.py" >/dev/null 2>&1; D1=$?
echo "$ID property=$PROP demo_clean_exit=$D0 baseline_exit=$BASE demo_patched_exit=$D1"
RES=""
for C in $CHECKS; do
  OUT="$(cd /verif && VERIF_REPO="$DIR" ./check "$C" --no-evidence 2>&1)"; CODE=$?
  if [ $CODE -eq 1 ] && echo "$OUT" | grep -q "^VIOLATION property=$C "; then R=DETECTED
  elif [ $CODE -eq 0 ]; then R=MISSED; else R="HARNESS-ERROR($CODE)"; echo "$OUT" | tail -3; fi
  echo "$ID $C $R"
  RES="$RES $C=$R"
done
if [ $D0 -eq 0 ] && [ $BASE -eq 0 ] && [ $D1 -ne 0 ]; then
  mkdir -p "/verif/seeded/$ID"; cp "$SEED/patch.diff" "$SEED/demo.py" "/verif/seeded/$ID/"
  python3 - "$SEED/meta.json" "/verif/seeded/$ID/meta.json" "$RES" <<'PY'
import json, sys
m = json.load(open(sys.argv[1]))
m['confirmed'] = {'demo_on_unchanged_tree': 'exit 0', 'repo_baseline_with_patch': '410/410 stable tests pass', 'demo_with_patch': 'fails',
                  'checks_quick': dict(x.split('=') for x in sys.argv[3].split())}
json.dump(m, open(sys.argv[2], 'w'), indent=1)
PY
  echo "$ID CONFIRMED -> /verif/seeded/$ID"
else
  echo "$ID NOT-CONFIRMED (kept out of /verif/seeded)"
fi
