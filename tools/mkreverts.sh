#!/bin/sh
# Rebuild /verif/mutants/revert-F*.patch against /repo HEAD: each is `git revert --no-commit` of the fix commit(s)
# in a scratch worktree (3-way merge, so later fixes touching neighbouring lines do not break it).
set -e
D="$(mktemp -d /var/tmp/bsv-rev-XXXXXX)"; rmdir "$D"
git -C /repo worktree add --detach -q "$D" HEAD
trap 'git -C /repo worktree remove --force "$D" 2>/dev/null; rm -rf "$D"' EXIT
mk() { name="$1"; shift
  git -C "$D" reset -q --hard HEAD
  if git -C "$D" revert --no-commit "$@" >/dev/null 2>&1; then
    git -C "$D" diff --cached > "/verif/mutants/revert-$name.patch"
    git -C /repo apply --check "/verif/mutants/revert-$name.patch" && echo "revert-$name ok ($*)"
  else echo "revert-$name FAILED ($*)"; git -C "$D" revert --abort 2>/dev/null || true; fi
}
sha() { git -C /repo log --format=%h --grep="$1" -n 1; }
mk F1 "$(sha 'arraySet accepts a float index')"
mk F2 "$(sha 'dataTop accepts a float count')"
mk F3 "$(sha 'JSON number clean-up')"
mk F5 "$(sha 'syntax errors in if/elif/while/for conditions')"
mk F6 "$(sha 'diffLines keeps Identical blocks')"
mk F8 "$(sha 'statements run by includes')"
mk F10 "$(sha 'date-like text with an impossible date')"
mk F11 "$(sha 'a line continuation pending at end of input')"
mk F12 "$(sha 'a function left open at end of input')"
mk F13 "$(sha 'booleans are not numbers')"
mk F14 "$(sha 'an integer power with a huge exponent')"
mk F15 "$(sha 'a bare return statement tolerates')"
mk F16 "$(sha 'running out of memory in an operator')"
mk F17 "$(sha 'repeated squaring of a host integer')"
mk F18 "$(sha 'rounding gives the same result')"
# F4: the handler; reverting it alone leaves the later guards inside the helper, so revert the dependants with it
mk F4 "$(sha 'repeated squaring of a host integer')" "$(sha 'running out of memory in an operator')" "$(sha 'an integer power with a huge exponent')" "$(sha 'booleans are not numbers')" "$(sha 'arithmetic failures in operators')"
mk F19 "$(sha 'non-finite or circular invalid arguments')"
mk F20 "$(sha 'a failing function call with debug on and logFn set to None')"
mk F21 "$(sha 'a syntax error in a script included from inside a function')"
