#!/usr/bin/env python3
"""tools/mkmutant.py <name> <file-relative-to-repo> <old> <new> [<file> <old> <new> ...]
Create /verif/mutants/<name>.patch by substituting text in a scratch copy of the file(s) (never touches /repo)."""
import difflib, sys, os
name = sys.argv[1]
rest = sys.argv[2:]
out = []
files = {}
for i in range(0, len(rest), 3):
    rel, old, new = rest[i:i+3]
    old = old.encode().decode('unicode_escape'); new = new.encode().decode('unicode_escape')
    src = files.get(rel) or open(os.path.join('/repo', rel)).read()
    if src.count(old) != 1:
        sys.exit(f'{rel}: pattern occurs {src.count(old)} times: {old!r}')
    files[rel] = src.replace(old, new)
for rel, new in files.items():
    old = open(os.path.join('/repo', rel)).read()
    out.extend(difflib.unified_diff(old.splitlines(True), new.splitlines(True), 'a/' + rel, 'b/' + rel))
path = f'/verif/mutants/{name}.patch'
open(path, 'w').write(''.join(out))
print(path)
