#!/bin/sh
# tools/benign.sh <patch-file> [Cxx ...]
# A benign patch changes bare-script-py in a way under which every property still holds (rewording, refactoring, a
# repaired finding, a new library function). Apply it to a scratch worktree (outside /repo and /verif) and run the named
# quick checks (default: all 20) against it: every check must stay silent (exit 0, no VIOLATION line).
# Prints "<patch> <Cxx> SILENT|ALARM|HARNESS-ERROR"; exit 0 iff all are silent.
PATCH="$(readlink -f "$1")"; shift
CHECKS="${*:-C01 C02 C03 C04 C05 C06 C07 C08 C09 C10 C11 C12 C13 C14 C15 C16 C17 C18 C19 C20}"
DIR="$(mktemp -d /var/tmp/bsv-ben-XXXXXX)"; rmdir "$DIR"
git -C /repo worktree add --detach -q "$DIR" HEAD || exit 2
trap 'git -C /repo worktree remove --force "$DIR" 2>/dev/null; rm -rf "$DIR"' EXIT
if ! git -C "$DIR" apply "$PATCH"; then echo "$(basename "$PATCH") PATCH-DOES-NOT-APPLY"; exit 2; fi
RC=0
for C in $CHECKS; do
  OUT="$(cd /verif && VERIF_REPO="$DIR" ./check "$C" --no-evidence 2>&1)"; CODE=$?
  if [ $CODE -eq 0 ] && ! echo "$OUT" | grep -q '^VIOLATION'; then echo "$(basename "$PATCH") $C SILENT $(echo "$OUT" | grep -c '^KNOWN-FINDING') known-finding line(s)"
  elif [ $CODE -eq 1 ]; then echo "$(basename "$PATCH") $C ALARM $(echo "$OUT" | grep '^VIOLATION' | head -2 | tr '\n' ' ')"; RC=1
  else echo "$(basename "$PATCH") $C HARNESS-ERROR exit=$CODE"; echo "$OUT" | tail -4; RC=2; fi
done
exit $RC
