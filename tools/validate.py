#!/opt/veriftools/pyvenv/bin/python
"""Validate MANIFEST.json and every evidence file against the harness schemas (run with python3-vt)."""
import glob, json, sys
import jsonschema
ok = True
def check(path, schema_path):
    global ok
    schema = json.load(open(schema_path))
    try:
        jsonschema.validate(json.load(open(path)), schema)
        print('valid  ', path)
    except Exception as exc:  # noqa
        ok = False
        print('INVALID', path, str(exc).splitlines()[0])
check('/verif/MANIFEST.json', '/root/.vp/MANIFEST.schema.json')
man = json.load(open('/verif/MANIFEST.json'))
for c in man['checks']:
    import os
    if os.path.exists(c['evidence_file']):
        check(c['evidence_file'], '/root/.vp/EVIDENCE.schema.json')
        ev = json.load(open(c['evidence_file']))
        if ev['level'] != c['level_claimed']['category']:
            ok = False; print('LEVEL MISMATCH', c['property_id'])
    else:
        print('missing', c['evidence_file'])
props = [json.loads(l)['id'] for l in open('/verif/properties.jsonl')]
claimed = [c['property_id'] for c in man['checks']]
na = [n['property_id'] for n in man.get('not_applicable', [])]
for p in props:
    if (p in claimed) == (p in na):
        ok = False; print('property neither/both claimed and not_applicable:', p)
sys.exit(0 if ok else 1)
