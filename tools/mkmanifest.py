#!/usr/bin/env python3
"""Generate /verif/MANIFEST.json from the table below (one place to edit). A property whose driver module
mc/props/<id>.py does not exist yet is listed under not_applicable with the reason 'not built yet'."""
import json
import os

V = '/verif'

CHECKS = {
    'C01': ('model_checking', '4/C01', 'stateless path exploration (iterative deviation bounding over environment answers) of generated structured programs run by the real parser+interpreter, every complete execution compared with an independent big-step reference',
            'Every program of the enumerated families is run on every path with at most k non-default environment answers (conditions, iterated arrays); result, log sequence, final globals and the sequence of decision points must equal the big-step reference. Bounded exhaustive: chains to depth 3/4, all programs of <= n nodes.',
            'trusted: ref/bigstep.py (structured semantics written from the language documentation), the program printer; host functions cc()/pk() own all nondeterminism'),
    'C02': ('model_checking', '4/C02', 'exhaustive enumeration of operator chains, expression trees and token strings, each parsed by the real parser and compared with a reference precedence-climbing parser',
            'Every enumerated text is a validated trace: the tree (or the rejection) of parse_expression must equal that of the reference lexer + precedence-climbing parser.',
            'trusted: ref/expr.py lexer and precedence table written from the language documentation'),
    'C03': ('model_checking', '4/C03', 'exhaustive operator x operand-type matrix plus path exploration of effect-logging expression trees against a reference evaluator',
            'All operator/operand pairs over a pool covering the nine types, and every small tree over effectful leaves on every leaf valuation: value, evaluation order and laziness must equal the reference evaluator; alias table checked against direct library calls.',
            'trusted: ref/expr.py evaluator; UNSPECIFIED corners (division by zero, overflow) are skipped and counted'),
    'C04': ('model_checking', '4/C04', 'exhaustive product of calling conventions and explicit-state BFS over live globals with scoping events, against a reference environment model',
            'Every (parameters, arguments, call path) combination and every reachable state of the scoping event system is compared with the reference environment model.',
            'trusted: the reference environment model in the driver'),
    'C05': ('exploration', '4/C05', 'exhaustive enumeration of operator/operand and library-function/argument combinations with an exception-containment invariant',
            'Invariant over an exhaustively enumerated adversarial input space: only BareScript values or the two documented exception classes come out; failed calls yield the documented failure value, log once in debug mode and execution continues.',
            'trusted: the failure-value table written from the $return doc comments'),
    'C06': ('exploration', '4/C06', 'exhaustive enumeration of keyword-line sequences, token-soup lines, single-token mutations and fault columns against a reference block automaton and position oracle',
            'Totality, rejection of open blocks, and position correctness of diagnostics are checked on every enumerated text.',
            'trusted: ref/blocks.py push-down automaton; the independent logical-line joiner'),
    'C07': ('model_checking', '4/C07', 'exhaustive enumeration of nesting shapes, static label-scope checker on the real lowering plus path exploration for the dynamic half',
            'Every nesting chain to depth 4 in three scopes and multi-function scripts: schema-valid, every jump resolves to a label defined once in the same scope, every label is targeted, lint is label-clean, no path raises Unknown jump label.',
            'trusted: the independent label checker; validate_script for schema validity'),
    'C08': ('model_checking', '4/C08', 'exhaustive enumeration of jump-level statement lists executed by the real interpreter on every path, against a reference program-counter machine',
            'Every statement list up to the length bound over the 12-statement alphabet (plus function variants) is executed on every bounded path; result, logs, x, statementCount, decision sequence and model immutability are compared with the reference machine.',
            'trusted: ref/jumpvm.py'),
    'C09': ('model_checking', '4/C09', 'exhaustive sweep of every limit L in 1..N+2 for every enumerated program, against a reference statement counter',
            'For every program and every limit: abort exactly when statement L+1 would start, prefix behaviour below N, identical behaviour at and above N; counts include functions, callbacks, includes and data helpers.',
            'trusted: ref/jumpvm.py counting rule'),
    'C10': ('model_checking', '4/C10', 'explicit-state BFS over layout rewrites of source texts with the real parser as observation',
            'Every text reachable by at most d layout rewrites from each corpus program must parse to the identical model; all chunkings of small programs; statelessness over ordered pairs of texts.',
            'trusted: the token-gap computation of the generator / quote scanner'),
    'C11': ('exploration', '4/C11', 'exhaustive pairs and triples over a value pool closed under nesting; every small array/table for the consumers',
            'Preorder laws on every pair and triple of the pool, agreement with the reference order, and every consumer (operators, systemCompare, arraySort, mathMin/Max, arrayIndexOf/LastIndexOf, dataSort) checked against the order on exhaustively enumerated arrays and tables.',
            'trusted: ref/values.py compare (30 lines); TZ fixed to UTC'),
    'C12': ('exploration', '4/C12', 'exhaustive int/float spelling differential over every library function and argument tuple',
            'For every function and every argument tuple of the pool (plus all 2^k spellings of valid base tuples) the int-spelled and float-spelled calls must agree on result, failure and post-call argument state.',
            'no reference model: implementation against itself under the spelling change'),
    'C13': ('exploration', '4/C13', 'exhaustive enumeration of structured families of doubles and of short strings for the parsers',
            'Round trip through every stringification path and back for every enumerated double; parser results against a strict decimal grammar for every short string.',
            'trusted: Python float()/repr as correctly rounded conversions; the strict grammar'),
    'C14': ('exploration', '4/C14', 'exhaustive enumeration of JSON values over an adversarial string alphabet with an independent JSON lexer and injectivity check',
            'Every enumerated value: output is valid JSON that json.loads and jsonParse map back to the value; keys sorted; integral numbers without fraction; distinct values never share a text.',
            'trusted: Python json.loads as the standard JSON parser; the independent lexer'),
    'C15': ('model_checking', '4/C15', 'explicit-state BFS to fixpoint over live aliased containers with every array*/object* call as an event, against list/dict reference models; exhaustive string-function tuples',
            'Every reachable state of the container pool under every event; result, post-state and alias graph must equal the reference; string functions over all short strings.',
            'trusted: ref/lib.py models written from the $doc comments'),
    'C16': ('model_checking', '4/C16', 'exhaustive calendar grids and instant sweeps per time-zone configuration against integer civil-calendar arithmetic',
            'Every grid point of datetimeNew, every getter, every arithmetic pair and every ISO round trip in each of the eight zones is compared with ref/civil.py.',
            'trusted: ref/civil.py days-from-civil arithmetic; the OS tz database for offsets'),
    'C17': ('model_checking', '4/C17', 'exhaustive enumeration of include trees over a virtual file system with fault answers, against reference resolution and include semantics',
            'Every include tree to the bound with every edge form and every fault placement: fetch sequence, logs, globals, error type/message.',
            'trusted: ref/urls.py'),
    'C18': ('model_checking', '4/C18', 'exhaustive programs and jump-level models; purity and exactness of label warnings by an independent pass; justification by path exploration of the edited program',
            'Lint never raises or mutates; label warnings are exact per scope; acting on each unused/pointless warning leaves every explored path unchanged.',
            'trusted: the independent label pass; Engine A for the differential'),
    'C19': ('model_checking', '4/C19', 'exhaustive enumeration of small tables and operations against reference relational operators; CSV round trip over typed tables',
            'Every table up to the bound and every operation variant compared with ref/data.py; every typed CSV table round-trips.',
            'trusted: ref/data.py, the reference CSV writer'),
    'C20': ('model_checking', '4/C20', 'exhaustive enumeration of line-list pairs run through the shipped diff.bare by the real interpreter, reconstruction invariant',
            'Every ordered pair of line lists up to the bound in three input forms: block types, non-empty lines, left/right reconstruction, no edits for equal inputs; shipped scripts parse, validate and lint clean.',
            'trusted: the reconstruction invariant itself'),
}

TITLES = {}
for line in open(os.path.join(V, 'properties.jsonl'), encoding='utf-8'):
    p = json.loads(line)
    TITLES[p['id']] = p['title']

BUILT = set(open(os.path.join(V, 'tools', 'built.txt'), encoding='utf-8').read().split())
checks = []
na = []
for pid in sorted(TITLES):
    level, ref, technique, text, note = CHECKS[pid]
    if pid not in BUILT or not os.path.exists(os.path.join(V, 'mc', 'props', pid + '.py')):
        na.append({'property_id': pid, 'reason': 'driver not built yet in this session (planned: ' + technique + '); see DESIGN.md section ' + ref})
        continue
    checks.append({
        'property_id': pid,
        'quick_cmd': f'./check {pid} --tier quick',
        'thorough_cmd': f'./check {pid} --tier thorough',
        'evidence_file': f'/verif/evidence/{pid}.json',
        'replay_cmd_template': f'./check {pid} --replay {{path}}',
        'engine': 'mc',
        'level_claimed': {'category': level, 'text': text, 'design_ref': 'DESIGN.md ' + ref},
        'level_note': note,
        'technique': 'model checking: ' + technique,
    })

manifest = {
    'version': 1,
    'setup_cmd': 'cd /verif && /venv/bin/python -m mc.selftest',
    'hooks': {
        'guard': 'BARE_SCRIPT_VERIF',
        'enable': 'no source hooks are needed: every observation is available through the public API (options, logFn, fetchFn, urlFn, return values, exceptions); checks import the working tree from $VERIF_REPO/src (default /repo/src)',
        'baseline_off_cmd': 'cd /repo && /venv/bin/python -m pytest -ra -q -p no:cacheprovider --timeout=900 --continue-on-collection-errors',
        'source_commits': [],
        'add_only': True,
    },
    'engines': [
        {'name': 'mc', 'path': '/verif/mc', 'serves_properties': [c['property_id'] for c in checks],
         'kind_free_text': 'hand-written bounded exhaustive explorers for Python: Engine A stateless path explorer (iterative deviation bounding over environment answers), Engine B explicit-state BFS over live objects with canonical alias-aware hashing, Engine C exhaustive enumerators with deterministic sharding; independent reference models under mc/ref'},
    ],
    'checks': checks,
    'not_applicable': na,
    'notes': 'Every check decides its property by exhaustive enumeration within stated bounds against an independent reference model or invariant; VERIF_SEED only rotates scheduling order and which explored cases are copied into samples. Known findings: /verif/known_findings.json. Fix commits in /repo start with "fix:".',
}
with open(os.path.join(V, 'MANIFEST.json'), 'w', encoding='utf-8') as fh:
    json.dump(manifest, fh, indent=1)
    fh.write('\n')
print('claimed:', [c['property_id'] for c in checks])
print('not_applicable:', [n['property_id'] for n in na])
