#!/bin/sh
# tools/mutant.sh <patch-file> <Cxx> [Cxx...]
# Apply a patch to a scratch worktree of /repo (outside /repo and /verif), run the repository's test suite there
# (the mutant must still pass the baseline), run the named quick checks against it, remove the worktree.
# Prints one line per check: "<patch> <Cxx> DETECTED|MISSED|HARNESS-ERROR"; exit 0 iff baseline passes and all are detected.
PATCH="$(readlink -f "$1")"; shift
DIR="$(mktemp -d /var/tmp/bsv-mut-XXXXXX)"
rmdir "$DIR"
git -C /repo worktree add --detach -q "$DIR" HEAD || exit 2
cleanup() { git -C /repo worktree remove --force "$DIR" 2>/dev/null; rm -rf "$DIR"; }
trap cleanup EXIT
# carry over uncommitted hook changes? No: mutants are relative to HEAD of /repo.
if ! git -C "$DIR" apply "$PATCH"; then echo "$(basename "$PATCH") PATCH-DOES-NOT-APPLY"; exit 2; fi
RC=0
if /verif/tools/baseline.sh "$DIR" >/dev/null; then BASE=pass; else BASE=FAIL; RC=3; fi
echo "$(basename "$PATCH") baseline=$BASE"
for C in "$@"; do
  OUT="$(cd /verif && VERIF_REPO="$DIR" ${VERIF_TIER:+VERIF_TIER=$VERIF_TIER} ./check "$C" --no-evidence 2>&1)"
  CODE=$?
  if [ $CODE -eq 1 ] && echo "$OUT" | grep -q "^VIOLATION property=$C "; then
    echo "$(basename "$PATCH") $C DETECTED $(echo "$OUT" | grep -c '^VIOLATION') replay(s): $(echo "$OUT" | grep '^VIOLATION' | head -1)"
  elif [ $CODE -eq 0 ]; then
    echo "$(basename "$PATCH") $C MISSED"; RC=1
  else
    echo "$(basename "$PATCH") $C HARNESS-ERROR exit=$CODE"; echo "$OUT" | tail -5; RC=2
  fi
done
exit $RC
