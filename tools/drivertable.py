#!/usr/bin/env python3
"""Print, from evidence/Cxx.json, one markdown row per property: its families with their case counts and the totals."""
import json, sys
ids = sys.argv[1:] or [f'C{i:02d}' for i in range(1, 21)]
print('| id | families: cases (quick tier) | cases | executions | states / transitions |')
print('|----|------------------------------|-------|------------|----------------------|')
for pid in ids:
    d = json.load(open(f'/verif/evidence/{pid}.json'))
    c = d['coverage']
    fams = ', '.join(f"{f['name']} {f['cases']:,}".replace(',', ' ') for f in c['families'])
    st = sum(f.get('states', 0) for f in c['families']); tr = sum(f.get('transitions', 0) for f in c['families'])
    print(f"| {pid} | {fams} | {c['cases_enumerated']:,} | {c['evaluations']:,} | {st:,} / {tr:,} |".replace(',', ' '))
