import itertools
from bare_script import parse_expression, BareScriptParserError
ops=['**','*','/','%','+','-','<=','<','>=','>','==','!=','&&','||']
prec={'**':7,'*':6,'/':6,'%':6,'+':5,'-':5,'<=':4,'<':4,'>=':4,'>':4,'==':3,'!=':3,'&&':2,'||':1}
def ref(operands, oplist):
    # precedence climbing, left assoc
    pos=[0]
    def parse(minp):
        left=operands[pos[0]]
        while pos[0] < len(oplist) and prec[oplist[pos[0]]]>=minp:
            op=oplist[pos[0]]; pos[0]+=1
            right=parse(prec[op]+1)
            left={'binary':{'op':op,'left':left,'right':right}}
        return left
    return parse(1)
bad=0;n=0
for k in range(1,5):
    for chain in itertools.product(ops, repeat=k):
        names=[chr(97+i) for i in range(k+1)]
        text=names[0]+''.join(f' {o} {v}' for o,v in zip(chain,names[1:]))
        got=parse_expression(text)
        exp=ref([{'variable':v} for v in names], list(chain))
        n+=1
        if got!=exp:
            bad+=1
            if bad<6: print(text, got, exp)
print(n,bad)
