import time, os, sys
from bare_script import *
from bare_script.value import *
src = '''
function ff(a, b):
    i = 0
    while cc():
        i = i + 1
        if cc():
            continue
        elif cc():
            break
        endif
        systemLog('x' + i)
    endwhile
    for v, ix in arrayNew(1,2):
        systemLog(v)
    endfor
    return i
endfunction
return ff(1,2)
'''
tape=[True,False,False,True,True,False]
def mk():
    t=list(tape)
    return lambda a,o: (t.pop(0) if t else False)
N=2000
t0=time.perf_counter()
for _ in range(N): s=parse_script(src)
t1=time.perf_counter()
for _ in range(N):
    logs=[]
    execute_script(s, {'globals':{"cc":mk()}, 'logFn':logs.append, 'maxStatements':1000})
t2=time.perf_counter()
for _ in range(200): validate_script(s)
t3=time.perf_counter()
for _ in range(N): lint_script(s)
t4=time.perf_counter()
print('parse us', (t1-t0)/N*1e6, 'exec us', (t2-t1)/N*1e6, 'validate us', (t3-t2)/200*1e6, 'lint us', (t4-t3)/N*1e6, logs)
t0=time.perf_counter()
for _ in range(20000): parse_expression('a + b * c ** d - e')
print('parse_expr us', (time.perf_counter()-t0)/20000*1e6)
t0=time.perf_counter()
for _ in range(20000):
    try: parse_script('x = 1 + @')
    except BareScriptParserError: pass
print('parse fail us', (time.perf_counter()-t0)/20000*1e6)
print(os.cpu_count(), sys.version)
print(os.path.exists('/usr/share/zoneinfo/America/New_York'), os.path.exists('/usr/share/zoneinfo'))
import time as T
for tz in ['America/New_York','Australia/Lord_Howe','<+1030>-10:30<+11>-11,M10.1.0,M4.1.0', 'Asia/Kathmandu']:
    os.environ['TZ']=tz; T.tzset()
    import datetime
    print(tz, value_string(datetime.datetime(2024,1,15,12,0,0)), value_string(datetime.datetime(2024,7,15,12,0,0)))
try:
    import zoneinfo; print(len(zoneinfo.available_timezones()))
except Exception as e: print('zoneinfo', e)
