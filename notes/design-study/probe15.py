from bare_script import *
def run(src, g=None, **opt):
    logs=[]; o={'logFn':logs.append,'globals':dict(g or {}), **opt}
    try: return execute_script(parse_script(src), o), logs
    except Exception as e: return type(e).__name__, str(e)[:80], logs
for np_, last in [(0,False),(1,False),(1,True),(2,False),(2,True),(3,True)]:
    params=', '.join(['p%d'%i for i in range(np_)])+('...' if last else '')
    for na in (0,1,2,4):
        args=', '.join(str(10+i) for i in range(na))
        src=f"function ff({params}):\n    return arrayNew({', '.join('p%d'%i for i in range(np_))})\nendfunction\nreturn ff({args})"
        print(np_,last,na, run(src)[0])
# via partial, indexOf callback, sort comparator
print(run("function ff(a, b, c...):\n return arrayNew(a,b,c)\nendfunction\ngg = systemPartial(ff, 1)\nreturn gg(2,3,4)"))
print(run("function ff(a, b):\n systemLog('ff ' + a + ' ' + b)\n return a > 1\nendfunction\nreturn arrayIndexOf(arrayNew(1,2,3), ff)"))
# order & laziness
g={'tt': lambda a,o: (o['logFn']('t%s'%a[0]), a[1])[1]}
for e in ["tt(1,0) && tt(2,1)", "tt(1,1) && tt(2,0) || tt(3,5)", "tt(1,0) || tt(2,0) || tt(3,'x')", "if(tt(1,0), tt(2,1), tt(3,2))", "if(tt(1,1), tt(2,1))", "tt(1,1) + tt(2,2) * tt(3,3)", "arrayNew(tt(1,1), tt(2,2))", "tt(1, tt(2, 5))", "!tt(1,0) == tt(2,true)"]:
    print(e, run('return '+e, g))
# shadowing
print(run("function mathAbs(x):\n return 'mine'\nendfunction\nreturn mathAbs(0-1)"))
print(run("return mathAbs(0-1)", {'mathAbs': lambda a,o: 'host'}))
o={'globals':{'mathAbs': 'hostvalue', 'x': 1}}
execute_script(parse_script("x = 2\nfunction ff():\n x = 5\n y = 6\n return x\nendfunction\nz = ff()"), o)
print({k:v for k,v in o['globals'].items() if k in ('mathAbs','x','y','z')})
print(evaluate_expression(parse_expression('abs(0-2)'), {'globals': {'abs': lambda a,o: 'g'}}), evaluate_expression(parse_expression('abs(0-2)'), {'globals':{}}, {'abs': lambda a,o: 'l'}), evaluate_expression(parse_expression('abs(0-2)')))
