import itertools
from bare_script import parse_script, BareScriptParserError
kinds = {
 'assign': lambda ind, e: f"{ind}xx = {e}",
 'expr':   lambda ind, e: f"{ind}{e}",
 'return': lambda ind, e: f"{ind}return {e}",
 'jumpif': lambda ind, e: f"{ind}jumpif ({e}) lbl",
}
bad=0;n=0
for kind,mk in kinds.items():
    for ind in ('', '  ', '\t', '        '):
        for L in range(0, 130):
            chain=' + '.join(['aa']*L)
            for fault in ('@', '$ zz', ')'):
                for tail in ('', ' + bb', '   '):
                    e = (chain+' + ' if L else '') + fault + tail if kind!='expr' or L else fault+tail
                    line=mk(ind,e)
                    for pre in ([], ['# c','', 'zz = 1']):
                        text='\n'.join(pre+[line])
                        n+=1
                        try:
                            parse_script(text, 3); bad+=1; print('ACCEPT', repr(line[:60])); continue
                        except BareScriptParserError as ex_: ex=ex_
                        exp_col_lo = line.index(fault[0], len(ind)+ (0 if kind=='expr' else 3))
                        ok = ex.line==line and ex.line_number==3+len(pre) and 1<=ex.column_number<=len(line)+1
                        # caret char
                        msg=str(ex).split('\n'); caret=msg[2].index('^')
                        if ex.column_number<=len(line): ok = ok and msg[1][caret]==line[ex.column_number-1]
                        ok = ok and line[ex.column_number-1:].lstrip().startswith(fault[0]) 
                        if not ok:
                            bad+=1
                            if bad<8: print(kind, repr(ind), L, repr(fault), repr(tail), ex.line_number, ex.column_number, repr(line[max(0,ex.column_number-5):ex.column_number+5]), msg[1][max(0,caret-3):caret+3])
print(n,bad)
