# crude C15 probe on array functions with float indices vs simple reference
import itertools, copy
from bare_script.library import SCRIPT_FUNCTIONS as F
from bare_script.value import ValueArgsError
def call(name, args):
    try: return ('ok', F[name](args, {'globals':{}}))
    except ValueArgsError as e: return ('fail', e.return_value)
    except Exception as e: return ('fail', None)
U='UNSPEC'
def isint(x): return isinstance(x,(int,float)) and not isinstance(x,bool) and int(x)==x
def ref(name, a):
    # returns (status, result, newarray)
    def fail(v=None): return ('fail', v)
    if name=='arrayGet':
        if len(a)!=2 or not isinstance(a[0],list) or not isint(a[1]) or not 0<=a[1]<len(a[0]): return fail()
        return ('ok', a[0][int(a[1])])
    if name=='arraySet':
        if len(a)!=3 or not isinstance(a[0],list) or not isint(a[1]) or not 0<=a[1]<len(a[0]): return fail()
        a[0][int(a[1])]=a[2]; return ('ok', a[2])
    if name=='arrayDelete':
        if len(a)!=2 or not isinstance(a[0],list) or not isint(a[1]) or not 0<=a[1]<len(a[0]): return fail()
        del a[0][int(a[1])]; return ('ok', None)
    if name=='arraySlice':
        if not 1<=len(a)<=3 or not isinstance(a[0],list): return fail()
        s = a[1] if len(a)>1 else 0; e = a[2] if len(a)>2 else None
        if s is None: return fail()   # start not nullable? has default 0 -> passing null explicitly?
        if e is None: e=len(a[0])
        if not isint(s) or not isint(e) or s<0 or e<0 or s>len(a[0]) or e>len(a[0]): return fail()
        return ('ok', a[0][int(s):int(e)])
    if name=='arrayIndexOf':
        if not 2<=len(a)<=3 or not isinstance(a[0],list): return fail(-1)
        i = a[2] if len(a)>2 else 0
        if i is None: return fail(-1)
        if not isint(i) or i<0: return fail(-1)
        if i>=len(a[0]): return ('ok' if False else 'fail', -1)
        for k in range(int(i), len(a[0])):
            if a[0][k]==a[1] and type(a[0][k])==type(a[1]) or (isint(a[0][k]) and isint(a[1]) and a[0][k]==a[1]): return ('ok',k)
        return ('ok',-1)
    if name=='arrayNewSize':
        n = a[0] if len(a)>0 else 0; v = a[1] if len(a)>1 else 0
        if len(a)>2 or n is None or not isint(n) or n<0: return fail()
        return ('ok',[v]*int(n))
vals=[None, True, 0.0, 1.0, 2.0, 3.0, -1.0, 1.5, 'x', 5.0]
arrs=[[],[7.0],[7.0,8.0],[7.0,8.0,9.0]]
bad=0;n=0
for name in ['arrayGet','arraySet','arrayDelete','arraySlice','arrayIndexOf','arrayNewSize']:
    for ar in range(0,4):
        pools = [arrs+[None,'x'] if name!='arrayNewSize' else vals]+[vals]*(ar-1) if ar>0 else []
        for args in itertools.product(*pools):
            a1=copy.deepcopy(list(args)); a2=copy.deepcopy(list(args))
            r=call(name,a1); e=ref(name,a2); n+=1
            if e is None: continue
            if r!=tuple(e) or (a1[:1]!=a2[:1]):
                bad+=1
                if bad<25: print(name,args,r,e,a1[:1],a2[:1])
print(n,bad)
