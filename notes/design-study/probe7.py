import itertools, datetime, re, math, os, time
from bare_script.library import SCRIPT_FUNCTIONS as F
from bare_script.value import *
def days_from_civil(y,m,d):
    y -= m<=2
    era = (y if y>=0 else y-399)//400
    yoe = y-era*400
    doy = (153*(m+(-3 if m>2 else 9))+2)//5 + d-1
    doe = yoe*365+yoe//4-yoe//100+doy
    return era*146097+doe-719468
def ref_new(y,mo,d,h=0,mi=0,s=0,ms=0):
    # month normalise
    y2 = y + (mo-1)//12; mo2 = (mo-1)%12+1
    days = days_from_civil(y2,mo2,1) + (d-1)
    total_ms = ((days*24+h)*60+mi)*60000 + s*1000 + ms
    epoch = datetime.datetime(1970,1,1)
    try:
        return epoch + datetime.timedelta(milliseconds=total_ms)
    except OverflowError:
        return None
bad=0; n=0
def impl(*a):
    try: return F['datetimeNew'](list(a), None)
    except Exception as e: return None
for y in (100,1900,2000,2023,2024,8999,9000):
    for mo in range(-30,41):
        for d in list(range(-400,800,7))+[-10000,-9999,9999,10000,0,1,28,29,30,31,32]:
            r=impl(float(y),float(mo),float(d)); e=ref_new(y,mo,d); n+=1
            if r!=e:
                bad+=1
                if bad<10: print('DN', y,mo,d,r,e)
bs=[-5000,-1441,-1440,-61,-60,-25,-24,-1,0,1,23,24,59,60,61,999,1000,1001,5000]
for h,mi,s,ms in itertools.product(bs,repeat=4):
    r=impl(2024,2,29,h,mi,s,ms); e=ref_new(2024,2,29,h,mi,s,ms); n+=1
    if r!=e:
        bad+=1
        if bad<10: print('DT', h,mi,s,ms,r,e)
print('datetimeNew n',n,'bad',bad)
for tzname in ['UTC','America/New_York','Europe/London','Asia/Kolkata','Asia/Kathmandu','Australia/Lord_Howe','Pacific/Chatham','Etc/GMT+12']:
    os.environ['TZ']=tzname; time.tzset()
    bad=0;n=0;gaps=0
    for year in (1970, 2023,2024, 2038, 1900, 101, 8999):
        d=datetime.datetime(year,1,1,0,0,0,123000)
        end=datetime.datetime(year+1,1,1)
        while d<end:
            n+=1
            # exists?
            try:
                ts=time.mktime(d.timetuple()); back=datetime.datetime.fromtimestamp(ts).replace(microsecond=d.microsecond)
                exists = back==d
            except Exception as ex:
                exists=None
            try:
                s=value_string(d); p=value_parse_datetime(s)
            except Exception as ex:
                p=('exc',ex); s=None
            if p!=d:
                if exists is False: gaps+=1
                else:
                    bad+=1
                    if bad<4: print(tzname,'RT',d,s,p,exists)
            d+=datetime.timedelta(minutes=30)
    print(tzname,'n',n,'bad',bad,'gaps',gaps)
