import traceback, datetime
from bare_script import *
from bare_script.value import value_json, value_string, value_parse_datetime
def run(src, **opt):
    logs=[]
    o={'logFn':logs.append, 'globals':{}, **opt}
    try:
        r=execute_script(parse_script(src), o)
        return ('ok', r, logs, o.get('statementCount'))
    except Exception as e:
        return ('exc', type(e).__name__, str(e)[:100], logs[:10], o.get('statementCount'))
print('F7 while+continue:', run('''
i = 0
while i < 3:
    i = i + 1
    if i == 3:
        continue
    endif
    systemLog(i)
endwhile
systemLog('done ' + i)
''', maxStatements=200))
print('F1 arraySet:', run('a = arrayNew(1,2,3)\nreturn arraySet(a, 1, 5)', debug=True))
print('F2 dataTop:', run("d = arrayNew(objectNew('a',1), objectNew('a',2))\nreturn dataTop(d, 1)", debug=True))
print('F3 json:', value_json("etc., x"), value_json({'a':'1.0}'}), value_json(["x.0]"]), value_json("a.\nb", 2), value_json({"k.0":1}))
for e in ['1/0','1%0','0**-1','10**1000','(0-8)**0.5', '2**0.5', "numberParseInt('1'+stringRepeat('0',400))*1.5"]:
    print('F4', e, run('return '+e))
for s in ['if 1 +:\nendif', 'a=1\nwhile (:\nendwhile', 'for x in @:\nendfor', 'if 1:\nelif $:\nendif', 'x = 1 +', 'return 1 +', 'jumpif (1 +) foo', '1 +']:
    try:
        parse_script(s); print('F5 accepted', repr(s))
    except BareScriptParserError as e:
        print('F5', repr(s), e.error, e.line_number, e.column_number, repr(e.line))
print('F12:', parse_script('function f():\n  a = 1\n'))
print('F11:', parse_script('a = 1\nb = 2 + \\'))
print('F11b:', parse_script('a = 1\nb = 2 + \\\n'))
print('F10:')
print(run("return dataParseCSV('a,b', '2024-02-30,1', '2024-03-01,2')", debug=True))
try: print(value_parse_datetime('2024-02-30'))
except Exception as e: print('  exc', type(e), e)
try: print(value_parse_datetime('2024-02-30T25:00:00Z'))
except Exception as e: print('  exc', type(e), e)
# F8 include count
files={'inc.bare':'i=0\nwhile i<10:\n i=i+1\nendwhile\n'}
o={'globals':{}, 'fetchFn': lambda r: files.get(r['url']), 'maxStatements': 5}
try:
    print('F8', execute_script(parse_script("include 'inc.bare'\nx=1\n"), o), o['statementCount'])
except Exception as e: print('F8 exc', e, o['statementCount'])
