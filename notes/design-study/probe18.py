# crude C07 probe: label well-formedness over nesting chains to depth 3
import itertools, time
from bare_script import parse_script, validate_script, lint_script
KINDS=['if','ifelse','ifelif','ifelifelse','while','for','forix']
def emit(chain, depth, inloop, deco):
    # returns list of lines for chain[depth:]
    ind='    '*depth
    if depth==len(chain):
        out=[ind+"systemLog('leaf')"]
        if inloop and deco in ('break','continue'): out.append(ind+deco)
        return out
    (k,slot)=chain[depth]
    inner=lambda il: emit(chain, depth+1, il, deco)
    leaf=[ind+"    systemLog('x')"]
    if k=='while': return [ind+'while cc():']+inner(True)+[ind+'endwhile']
    if k=='for': return [ind+'for vv in pk():']+inner(True)+[ind+'endfor']
    if k=='forix': return [ind+'for vv, ix in pk():']+inner(True)+[ind+'endfor']
    heads={'if':['if cc():'],'ifelse':['if cc():','else:'],'ifelif':['if cc():','elif cc():'],'ifelifelse':['if cc():','elif cc():','else:']}[k]
    out=[]
    for i,h in enumerate(heads):
        out.append(ind+h); out += inner(inloop) if i==slot else leaf
    return out+[ind+'endif']
slots={'if':1,'ifelse':2,'ifelif':2,'ifelifelse':3,'while':1,'for':1,'forix':1}
opts=[(k,s) for k in KINDS for s in range(slots[k])]
def scopes(model):
    yield 'global', model['statements']
    for s in model['statements']:
        if 'function' in s: yield s['function']['name'], s['function']['statements']
bad=0;n=0;t0=time.time()
for d in (1,2,3):
    for chain in itertools.product(opts, repeat=d):
        for deco in ('none','break','continue'):
            body=emit(chain,0,False,deco)
            for scope in ('g','f','gf'):
                if scope=='g': lines=body
                elif scope=='f': lines=['function ff():']+['    '+l for l in body]+['endfunction','ff()']
                else: lines=body+['function ff():']+['    '+l for l in body]+['endfunction']+body
                n+=1
                m=parse_script('\n'.join(lines))
                ok=True
                for nm,st in scopes(m):
                    labs=[s['label'] for s in st if 'label' in s]; jmps=[s['jump']['label'] for s in st if 'jump' in s]
                    if len(set(labs))!=len(labs) or set(jmps)-set(labs) or set(labs)-set(jmps): ok=False
                if any('abel' in w for w in lint_script(m)): ok=False
                if n%50==0: validate_script(m)
                if not ok:
                    bad+=1
                    if bad<4: print('\n'.join(lines)); print(m)
print(n,bad,time.time()-t0)
