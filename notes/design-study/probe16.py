import itertools, copy, math, statistics, functools, datetime
from bare_script.library import SCRIPT_FUNCTIONS as F
from bare_script.value import value_compare
def call(name, *args):
    try: return F[name](list(args), {'globals':{}})
    except Exception as e: return ('EXC', type(e).__name__, str(e)[:60])
cells=[None, 'ABSENT', 1.0, 2.0, 'x']
rowsets=[]
def rows(n):
    for combo in itertools.product(cells, repeat=2*n):
        t=[]
        for i in range(n):
            r={}
            if combo[2*i]!='ABSENT': r['a']=combo[2*i]
            if combo[2*i+1]!='ABSENT': r['b']=combo[2*i+1]
            t.append(r)
        yield t
def key(v): return ('n',) if v is None else (type(v).__name__ if not isinstance(v,float) else 'num', v)
bad={}
def flag(k, *info):
    bad.setdefault(k, []).append(info)
n=0
for nr in (0,1,2,3):
    for t in rows(nr):
        n+=1
        # filter
        r=call('dataFilter', copy.deepcopy(t), 'a == 1')
        e=[x for x in t if x.get('a')==1.0 and isinstance(x.get('a'),float)]
        if r!=e: flag('filter', t, r, e)
        # sort by a asc, b desc
        r=call('dataSort', copy.deepcopy(t), [['a'], ['b', True]])
        def cmp(x,y):
            c=value_compare(x.get('a'), y.get('a'))
            if c: return c
            return value_compare(y.get('b'), x.get('b'))
        e=sorted(copy.deepcopy(t), key=functools.cmp_to_key(cmp))
        if r!=e: flag('sort', t, r, e)
        # top 1 by category a (int count: pinned tree fails with float)
        r=call('dataTop', copy.deepcopy(t), 1, ['a'])
        seen=[]; e=[]
        for x in t:
            k=key(x.get('a'))
            if k not in seen: seen.append(k); e.append(x)
        if r!=e: flag('top', t, r, e)
        # aggregate count/sum of b by a, numeric b only
        if all(not isinstance(x.get('b'), str) for x in t):
            r=call('dataAggregate', copy.deepcopy(t), {'categories':['a'], 'measures':[{'field':'b','function':'sum','name':'s'},{'field':'b','function':'count','name':'c'},{'field':'b','function':'average','name':'m'}]})
            groups=[]; 
            for x in t:
                k=key(x.get('a'))
                for g in groups:
                    if g[0]==k: g[2].append(x.get('b')); break
                else: groups.append([k, x.get('a'), [x.get('b')]])
            e=[]
            for k,av,vals in groups:
                vs=[v for v in vals if v is not None]
                e.append({'a':av, 's': sum(vs) if vs else None, 'c': len(vs) if vs else None, 'm': (sum(vs)/len(vs)) if vs else None})
            if r!=e: flag('aggregate', t, r, e)
        # calculated field
        r=call('dataCalculatedField', copy.deepcopy(t), 'c', 'a + b')
        # join with itself on a
        if nr<=2:
            r=call('dataJoin', copy.deepcopy(t), copy.deepcopy(t), 'a')
            e=[]
            for x in t:
                ms=[y for y in t if key(y.get('a'))==key(x.get('a'))]
                for y in ms:
                    j=dict(x)
                    names={}
                    # right names: fields of right rows; collide with left names -> suffix 2
                    leftn=[f for row in t for f in row]; 
                    for f,v in y.items():
                        j[(f+'2') if f in leftn else f]=v
                    e.append(j)
            if r!=e: flag('join', t, r, e)
print(n, {k:len(v) for k,v in bad.items()})
for k,v in bad.items(): print(k, v[0])
# CSV
print(call('dataParseCSV', 'n,b,d,s', '1,true,2024-01-02,abc', '2.5,false,2024-01-02T03:04:05Z,"x,y"', 'null,,null,"q""r"', ',null,,'))
print(call('dataParseCSV', 'a,b', '2024-02-30,1'))
print(call('dataParseCSV', 'a', '1', 'x'))
