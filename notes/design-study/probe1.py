import importlib.resources, os
from bare_script import parse_script, lint_script, validate_script
import bare_script
d = os.path.join(os.path.dirname(bare_script.__file__), 'include')
for f in sorted(os.listdir(d)):
    if f.endswith('.bare'):
        t = open(os.path.join(d,f)).read()
        try:
            s = parse_script(t)
            validate_script(s)
            print(f, 'OK', lint_script(s))
        except Exception as e:
            print(f, 'ERR', type(e), e)
