import itertools, copy, datetime, re, math
from bare_script import *
from bare_script.library import SCRIPT_FUNCTIONS
from bare_script.value import value_json, value_type
def run(src, g=None, **opt):
    logs=[]
    o={'logFn':logs.append, 'globals':g or {}, **opt}
    try:
        r=execute_script(parse_script(src), o)
        return ('ok', r, logs)
    except (BareScriptRuntimeError, BareScriptParserError) as e:
        return ('bs', type(e).__name__, str(e)[:80])
    except BaseException as e:
        return ('HOST', type(e).__name__, str(e)[:80])
tests = [
 "return '' + arrayNew(1e308*10)",
 "a = arrayNew()\narrayPush(a, a)\nreturn '' + a",
 "a = arrayNew()\narrayPush(a, a)\nreturn a == a",
 "a = arrayNew()\narrayPush(a, a)\nreturn a < arrayNew(a)",
 "return datetimeNew(9999,12,31) + 86400000",
 "return datetimeNew(2000,1,1) + 1e30",
 "return datetimeNew(2000,1,1) + 1e308*10",
 "return '' + datetimeNew(9999,12,31,23,59,59)",
 "return '' + datetimeNew(100,1,1)",
 "return datetimeNew(100,1,1) - datetimeNew(9999,1,1)",
 "return 1e308*10 - 1e308*10",
 "return -(1e308*10)",
 "return 2 ** 1024",
 "return (0-2) ** 0.5",
 "return 0 ** 0",
 "return 1e308 * 1e308 % 2",
 "return numberParseInt('9'+stringRepeat('9',400)) + 0.5",
 "return numberParseInt('9'+stringRepeat('9',400)) / 3",
 "return numberParseInt('9'+stringRepeat('9',400)) < 1e308*10",
 "return '' + numberParseInt('9'+stringRepeat('9',5000))",
 "return stringNew(numberParseInt('9'+stringRepeat('9',5000)))",
 "x = objectNew('a', 1e308*10)\nreturn jsonStringify(x)",
 "return true + 1",
 "return true * 2",
 "return -true",
 "return true < 2",
 "return 5 % 3.5",
 "return (0-5) % 3",
 "return 7 / 2",
]
for t in tests: print(repr(t), '->', run(t))
print(run("return ff(1)", {'ff': lambda a,o: (1,2)}))
print(run("return if(1)"), run("return if()"))
