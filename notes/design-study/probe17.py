# crude C08 probe: jump-level lists of length <=4 (+ one function variant) vs a tiny reference VM
import itertools, copy, time
from bare_script import execute_script, BareScriptRuntimeError
def log(k): return {'expr': {'expr': {'function': {'name': 'systemLog', 'args': [{'string': k}]}}}}
P = {
 'la': log('a'), 'lb': log('b'),
 'inc': {'expr': {'name': 'x', 'expr': {'binary': {'op': '+', 'left': {'variable': 'x'}, 'right': {'number': 1}}}}},
 'jA': {'jump': {'label': 'A'}}, 'jB': {'jump': {'label': 'B'}},
 'cA': {'jump': {'label': 'A', 'expr': {'function': {'name': 'cc', 'args': []}}}},
 'cB': {'jump': {'label': 'B', 'expr': {'function': {'name': 'cc', 'args': []}}}},
 'LA': {'label': 'A'}, 'LB': {'label': 'B'},
 'ret': {'return': {}}, 'retx': {'return': {'expr': {'variable': 'x'}}},
 'call': {'expr': {'expr': {'function': {'name': 'ff', 'args': []}}}},
}
names=list(P)
class Stop(Exception): pass
def ref(stmts, tape, limit):
    st={'n':0,'logs':[],'g':{'x':0},'tape':list(tape),'asked':0}
    def cc():
        st['asked']+=1
        return st['tape'].pop(0) if st['tape'] else False
    def run(lst, local):
        pc=0
        while pc<len(lst):
            s=lst[pc]; k=next(iter(s))
            st['n']+=1
            if st['n']>limit: raise Stop(f'Exceeded maximum script statements ({limit})')
            if k=='expr':
                e=s['expr']['expr']
                if 'function' in e:
                    fn=e['function']['name']
                    if fn=='systemLog': st['logs'].append(e['function']['args'][0]['string'])
                    elif fn=='ff':
                        if 'ff' not in st['g']: raise Stop('Undefined function "ff"')
                        run(st['g']['ff'], {})
                else:
                    env = local if local is not None else st['g']
                    cur = (local.get('x') if local is not None and 'x' in local else st['g'].get('x'))
                    env['x'] = (cur + 1) if cur is not None else None
            elif k=='jump':
                if 'expr' not in s['jump'] or cc():
                    lab=s['jump']['label']
                    ix=next((i for i,t in enumerate(lst) if t.get('label')==lab), -1)
                    if ix<0: raise Stop(f'Unknown jump label "{lab}"')
                    pc=ix
            elif k=='return':
                if 'expr' in s['return']:
                    return (local.get('x') if local is not None and 'x' in local else st['g'].get('x'))
                return None
            elif k=='function':
                st['g']['ff']=s['function']['statements']
            pc+=1
        return None
    try: r=('ok', run(stmts, None))
    except Stop as e: r=('err', str(e))
    return r, st['logs'], st['g'].get('x'), st['n'], st['asked']
def impl(stmts, tape, limit):
    t=list(tape); asked=[0]
    def cc(a,o):
        asked[0]+=1
        return t.pop(0) if t else False
    logs=[]; o={'globals':{'x':0,'cc':cc}, 'logFn':logs.append, 'maxStatements':limit}
    m={'statements':stmts}; before=copy.deepcopy(m)
    try: r=('ok', execute_script(m,o))
    except BareScriptRuntimeError as e: r=('err', str(e))
    assert m==before, 'model mutated'
    return r, logs, o['globals'].get('x'), o['statementCount'], asked[0]
bad=0;n=0;t0=time.time()
fbodies=[[ ]]+[[a] for a in names if a!='call']+[[a,b] for a in names for b in names if 'call' not in (a,b)]
def check(lst):
    global bad,n
    stmts=[copy.deepcopy(P[k]) if isinstance(k,str) else k for k in lst]
    for tape in ([],[True],[True,True],[False,True],[True,False,True]):
        n+=1
        a=impl(stmts,tape,30); b=ref(stmts,tape,30)
        # null+1 -> ref None; impl None as well
        if a!=b:
            bad+=1
            if bad<6: print(lst,tape,a,b)
for L in range(0,5):
    for lst in itertools.product(names, repeat=L): check(list(lst))
for fb in fbodies[::7]:
    f={'function':{'name':'ff','statements':[copy.deepcopy(P[k]) for k in fb]}}
    for pos in range(3):
        for rest in itertools.product(names, repeat=2):
            l=list(rest); l.insert(pos if pos<=2 else 2, f); check(l)
print(n,bad,time.time()-t0)
