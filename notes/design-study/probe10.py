from bare_script import *
src='''
function ff(x):
    systemLog('ff')
    return x > 1
endfunction
d = arrayNew(objectNew('a',1), objectNew('a',2), objectNew('a',3))
r1 = dataFilter(d, 'ff(a)')
c1 = 0
r2 = dataFilter(d, 'ff(a)', objectNew('zz', 1))
return arrayLength(r1) + arrayLength(r2)
'''
for L in (0, 20, 14, 12):
    logs=[]; o={'globals':{}, 'logFn':logs.append, 'maxStatements':L}
    try: print(L, execute_script(parse_script(src), o), o['statementCount'], len(logs))
    except Exception as e: print(L, 'EXC', e, o['statementCount'], len(logs))
# includes repeated
files={'inc.bare':"systemLog('i1')\nsystemLog('i2')\nsystemLog('i3')\n"}
src2="include 'inc.bare'\ninclude 'inc.bare'\nsystemLog('m')\ninclude 'inc.bare'\n"
for L in (0,4,5,6,12):
    logs=[]; o={'globals':{}, 'logFn':logs.append, 'maxStatements':L, 'fetchFn':lambda r: files.get(r['url'])}
    try: print(L, execute_script(parse_script(src2), o), o['statementCount'], logs)
    except Exception as e: print(L, 'EXC', e, o['statementCount'], logs)
