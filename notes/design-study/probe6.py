import itertools, datetime, re, math, struct, os, time
from bare_script.value import *
from bare_script import parse_expression
# C11 crude
tz = datetime.timezone
pool = [None, True, False, 0, 0.0, -0.0, 1, 1.0, -1, 2**53, 2**53+1, float(2**53), 1e300, 10**400, 0.5, '', 'a', 'b', 'ab', 'A', '1',
  datetime.date(2024,1,1), datetime.datetime(2024,1,1), datetime.datetime(2024,1,1,0,0,0,1000), datetime.datetime(2024,1,1,tzinfo=tz.utc), datetime.datetime(2024,1,1,5,tzinfo=tz(datetime.timedelta(hours=5))),
  [], [1], [1.0], [None], [[]], [1,2], [1,'a'], ['a'], [[1],[2]], {}, {'a':1}, {'a':1.0}, {'a':None}, {'b':1}, {'a':1,'b':2}, {'a':{}}, {'a':[]}, len, max, re.compile('a'), re.compile('b')]
n=len(pool)
M=[[value_compare(a,b) for b in pool] for a in pool]
bad=0
for i in range(n):
    if M[i][i]!=0: print('refl', pool[i]); bad+=1
    for j in range(n):
        if M[i][j] != -M[j][i]: print('antisym', pool[i], pool[j], M[i][j], M[j][i]); bad+=1
        for k in range(n):
            if M[i][j]<=0 and M[j][k]<=0 and not M[i][k]<=0: print('trans', pool[i],pool[j],pool[k]); bad+=1
print('C11 bad', bad)
# C13 crude
import random
random.seed(1)
bad=0
def chk(x):
    global bad
    s=value_string(x)
    y=value_parse_number(s)
    if y is None or y!=x or math.copysign(1,y)!=math.copysign(1,x):
        bad+=1; print('rt', repr(x), s, y)
    if x>=0 and not (x==0 and math.copysign(1,x)<0):
        try:
            e=parse_expression(s)
            if e!={'number':x}: bad+=1; print('lit', repr(x), s, e)
        except Exception as ex:
            bad+=1; print('litexc', repr(x), s, ex)
    if x==int(x) and abs(x)<1e16 and not re.fullmatch(r'-?\d+', s): bad+=1; print('int', x, s)
for _ in range(200000):
    b=random.getrandbits(64)
    x=struct.unpack('<d', struct.pack('<Q', b))[0]
    if math.isnan(x) or math.isinf(x): continue
    chk(x)
for e in range(-324,309):
    for m in (1,1.5,9.999,2.5e-1):
        try: x=float(f'{m}e{e}')
        except: continue
        if x==0 or math.isinf(x): continue
        chk(x); chk(-x)
for x in [0.0,-0.0,2.0**53,2.0**53+2,1e15,1e15+1,1e16,1e16+2,1e21,1e22,123456789012345678.0, 5e-324, 1.7976931348623157e308, 0.1, 100.0, 1e-7, 0.00001, 0.0001]:
    chk(x)
print('C13 bad', bad)
for t in ['', ' ', '1', ' 1 ', '1_0', 'inf', '-inf', 'nan', 'Infinity', '1e5', '1e', '0x10', '1.', '.5', '+.5e1', '1,5', '١٢', '1e400', '-1e400', '1\n']:
    print(repr(t), value_parse_number(t), value_parse_integer(t), value_parse_integer(t,16))
