from bare_script import *
from bare_script.options import url_file_relative as u
for f,url in [('a.bare','b.bare'),('dir/a.bare','b.bare'),('dir/a.bare','../b.bare'),('dir/a.bare','./b.bare'),('dir/a.bare','sub/b.bare'),('/abs/a.bare','b.bare'),('dir/a.bare','/abs/b.bare'),
   ('http://h/p/a.bare','b.bare'),('http://h/p/a.bare','../b.bare'),('http://h/p/a.bare','/abs/b.bare'),('http://h/a.bare','https://x/b.bare'),('dir/a.bare','http://h/b.bare'),('http://h','b.bare'),('a.bare',''),(':bare-include:/','x.bare'), ('dir/a.bare','HTTP://h/b.bare'), ('dir/a.bare', 'c:b.bare')]:
    print(repr(f), repr(url), '->', repr(u(f,url)))
files = {
 'main/m.bare': None,
 'main/lib/a.bare': "systemLog('a1')\ninclude 'sub/b.bare'\nsystemLog('a2')\ninclude 'c.bare'\nreturn 5\nsystemLog('a3')",
 'main/lib/sub/b.bare': "systemLog('b')\nbv = 1\nreturn\nsystemLog('b2')",
 'main/lib/c.bare': "systemLog('c')",
}
fetched=[]
def fetch(r):
    fetched.append(r['url']); return files.get(r['url'])
logs=[]
from functools import partial
o={'globals':{}, 'fetchFn':fetch, 'logFn':logs.append, 'urlFn': partial(u,'main/m.bare')}
print(execute_script(parse_script("include 'lib/a.bare'\nsystemLog('m')\ninclude 'lib/c.bare'\nreturn bv"), o), fetched, logs)
for src in ["include 'nope.bare'", "include <sys.bare>", "include 'lib/bad.bare'"]:
    files['main/lib/bad.bare']="x = 1 +"
    o={'globals':{}, 'fetchFn':fetch, 'logFn':logs.append, 'urlFn': partial(u,'main/m.bare'), 'systemPrefix': 'SYS/'}
    try: print(execute_script(parse_script(src), o))
    except Exception as e: print(type(e).__name__, str(e))
print(parse_script("include 'a.bare'\n# c\ninclude <b.bare>\n\ninclude 'it\\'s.bare'"))
