# crude C12 probe: int vs float spelling across library
import itertools, copy, datetime, re, math, sys
from bare_script.library import SCRIPT_FUNCTIONS
from bare_script.value import value_json, value_type, ValueArgsError
skip = {'datetimeNow','datetimeToday','mathRandom','systemFetch','systemLog','systemLogDebug','schemaTypeModel'}
def tofloat(v):
    if isinstance(v, bool): return v
    if isinstance(v, int): return float(v)
    if isinstance(v, list): return [tofloat(x) for x in v]
    if isinstance(v, dict): return {k: tofloat(x) for k,x in v.items()}
    return v
def norm(v, d=0):
    if isinstance(v, bool) or v is None or isinstance(v,str): return v
    if isinstance(v, (int,float)):
        if isinstance(v,float) and (math.isnan(v)): return 'nan'
        if isinstance(v,float) and math.isinf(v): return 'inf' if v>0 else '-inf'
        return float(v) if abs(v) < 1e300 else repr(v)
    if isinstance(v, list): return [norm(x,d+1) for x in v] if d<6 else '...'
    if isinstance(v, dict): return {str(k): norm(x,d+1) for k,x in v.items()} if d<6 else '...'
    if isinstance(v, datetime.date): return ('dt', v.isoformat())
    if callable(v): return '<fn>'
    return ('other', type(v).__name__, str(v)[:40])
def call(fn, args):
    o={'globals':{}}
    try:
        r = fn(args, o)
        return ('ok', norm(r))
    except ValueArgsError as e:
        return ('argerr', norm(e.return_value))
    except Exception as e:
        return ('exc', type(e).__name__)
pool = [None, True, 0, 1, 2, -1, 3, 'a', 'ab', [1,2,3], [], {'a':1}, [{'a':1,'b':2},{'a':2,'b':1}], datetime.datetime(2024,1,2,3,4,5,6000), [['a',1]], ['a']]
diffs = {}
n=0
for name, fn in sorted(SCRIPT_FUNCTIONS.items()):
    if name in skip: continue
    for ar in range(0,4):
        for args in itertools.product(pool, repeat=ar):
            a1 = copy.deepcopy(list(args)); a2 = tofloat(copy.deepcopy(list(args)))
            r1 = call(fn, a1); r2 = call(fn, a2)
            n+=1
            k1 = (r1[0] if r1[0]=='ok' else 'fail', r1[1] if r1[0]!='exc' else None, norm(a1))
            k2 = (r2[0] if r2[0]=='ok' else 'fail', r2[1] if r2[0]!='exc' else None, norm(a2))
            if k1 != k2:
                diffs.setdefault(name, []).append((args, r1, r2))
print('calls', n)
for name, ds in diffs.items():
    print(name, len(ds), ds[0])
