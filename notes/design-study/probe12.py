import itertools, time
from bare_script import *
from bare_script.bare import _fetch_include, _FETCH_INCLUDE_PREFIX
script = parse_script("include <diff.bare>\nreturn diffLines(L, R)\n")
def run(L,R):
    o={'globals':{'L':L,'R':R}, 'fetchFn':_fetch_include, 'systemPrefix':_FETCH_INCLUDE_PREFIX, 'maxStatements':100000}
    return execute_script(script, o), o['statementCount']
lists=[list(t) for n in range(0,5) for t in itertools.product('abc', repeat=n)]
bad=0;n=0;t0=time.time();maxst=0
for L in lists:
    for R in lists:
        d,st=run(list(L),list(R)); n+=1; maxst=max(maxst,st)
        left=[x for b in d if b['type'] in ('Identical','Remove') for x in b['lines']]
        right=[x for b in d if b['type'] in ('Identical','Add') for x in b['lines']]
        ok = left==L and right==R and all(b['lines'] and b['type'] in ('Identical','Add','Remove') for b in d) and (L!=R or all(b['type']=='Identical' for b in d))
        if not ok:
            bad+=1
            if bad<5: print(L,R,d)
print(n,bad,time.time()-t0,maxst)
print(run('a\nb','a\r\nc'))
