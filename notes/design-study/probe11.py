from bare_script import *
def run(src, **opt):
    logs=[]; o={'logFn':logs.append,'globals':{}, 'debug':True, **opt}
    try: return execute_script(parse_script(src), o), logs[:2]
    except Exception as e: return type(e).__name__, str(e)[:80]
for s in ["return true + 1","return true * 3","return true - false","return -true","return true / 2", "return true % 2", "return true ** 2",
          "return arrayGet(arrayNew(5,6,7), true)", "return mathAbs(true)", "return stringRepeat('a', true)", "return datetimeNew(2024, true, 1)",
          "return mathMax(true, 0)", "return stringIndexOf('', '')", "return stringIndexOf('abc', '')", "return stringSplit('abc','')", "return stringLastIndexOf('','')",
          "return arraySlice(arrayNew(1,2,3), 2, 1)", "return arrayNewSize(2.5)", "return stringFromCharCode(1114112)", "return arrayDelete(arrayNew(1,2), 0)",
          "a = arrayNew(1,2)\nreturn arrayIndexOf(a, 2, 2)", "return arrayIndexOf(arrayNew(), 1)", "return objectGet(null, 'a', 5)", "return objectGet(objectNew('a',null), 'a', 5)",
          "return numberToFixed(1.005, 2)", "return mathRound(2.5)", "return mathRound(0-2.5)", "return systemCompare(1)", "return arrayPush()", "return arrayNew(1,2) + 1", "return null + 'a'",
          "return datetimeNew(2024,1,1) + 1.5", "return 1 + datetimeNew(2024,1,1)", "return datetimeNew(2024,1,1) - 1", "return 'a' * 2", "return !null", "return -'a'", "return --1", "return 2 ** 3 ** 2", "return 1 - 2 - 3", "return 2 ** -1"]:
    print(repr(s), '->', run(s))
