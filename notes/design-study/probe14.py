import os, re, time
import bare_script
from bare_script import parse_script, BareScriptParserError
d=os.path.join(os.path.dirname(bare_script.__file__),'include')
def gaps(line):
    # whitespace runs outside string literals (single/double quotes with backslash escapes), not leading/trailing
    out=[]; i=0; n=len(line); q=None
    if re.match(r'^\s*(#.*)?$', line): return out
    while i<n:
        c=line[i]
        if q:
            if c=='\\': i+=2; continue
            if c==q: q=None
        elif c in '\'"': q=c
        elif c=='[':   # bracket name
            j=line.find(']',i); i = j if j>0 else i
        elif c=='<' and re.match(r'^\s*include\s', line): break
        elif c in ' \t' and i>0 and line[:i].strip() and line[i:].strip():
            j=i
            while j<n and line[j] in ' \t': j+=1
            out.append((i,j)); i=j; continue
        i+=1
    return out
tot=0;bad=0;t0=time.time()
for f in sorted(os.listdir(d)):
    if not f.endswith('.bare'): continue
    text=open(os.path.join(d,f)).read()
    base=parse_script(text)
    lines=text.split('\n')
    def chk(t,what):
        global tot,bad
        tot+=1
        try: m=parse_script(t)
        except BareScriptParserError as e: m=('err',e.error,e.line_number)
        if m!=base:
            bad+=1
            if bad<8: print(f,what)
    chk(text.replace('\n','\r\n'),'crlf')
    for i in range(0,len(lines)+1, 7):
        chk(['\n'.join(lines[:i]),'\n'.join(lines[i:])],('chunk',i))
        chk('\n'.join(lines[:i]+['   # c \\']+lines[i:]),('comment',i))
        chk('\n'.join(lines[:i]+['']+lines[i:]),('blank',i))
    for i,l in enumerate(lines):
        if i%5: continue
        for (a,b) in gaps(l):
            nl=lines[:i]+[l[:a]+' \\  ', '\t'+l[b:]]+lines[i+1:]
            chk('\n'.join(nl),('cont',i,a,l))
print(tot,bad,time.time()-t0)
