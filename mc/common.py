"""Shared plumbing: locating the implementation under test, canonical values, JSON-able rendering."""

import datetime
import fractions
import math
import os
import re
import sys

VERIF_DIR = os.path.dirname(os.path.dirname(os.path.abspath(__file__)))
REPO_DIR = os.environ.get('VERIF_REPO', '/repo')


_IMPL = []


def load_impl():
    """Put $VERIF_REPO/src first on sys.path and import the working tree's bare_script."""
    if _IMPL:
        return _IMPL[0]
    src = os.path.join(REPO_DIR, 'src')
    if sys.path[0] != src:
        sys.path.insert(0, src)
    import bare_script  # pylint: disable=import-outside-toplevel
    got = os.path.realpath(bare_script.__file__)
    if not got.startswith(os.path.realpath(src) + os.sep):
        raise HarnessError(f'bare_script imported from {got}, expected under {src}')
    _IMPL.append(bare_script)
    return bare_script


class HarnessError(Exception):
    """The harness itself is wrong (exit 2) - never reported as a VIOLATION."""


REGEX_TYPE = type(re.compile(''))


def canon(value, _memo=None, fn_tags=None):
    """Canonical, hashable, structural form of a BareScript value (DESIGN 2.5).

    1 and 1.0 coincide, True is distinct from 1; containers are numbered in first-visit order so that the
    alias graph (sharing, cycles) is part of the form.
    """
    if _memo is None:
        _memo = {}
    if value is None:
        return None
    if isinstance(value, bool):
        return value
    if isinstance(value, str):
        return value
    if isinstance(value, int):
        return ('n', value, 1)
    if isinstance(value, float):
        if math.isnan(value):
            return ('n', 'nan', 1)
        if math.isinf(value):
            return ('n', 'inf' if value > 0 else '-inf', 1)
        if value == 0:
            return ('n', 0, -1 if math.copysign(1.0, value) < 0 else 1)
        if value == int(value):
            return ('n', int(value), 1)
        return ('n', fractions.Fraction(value), 1)
    if isinstance(value, datetime.datetime):
        if value.tzinfo is not None:
            return ('d', 'aware', value.astimezone(datetime.timezone.utc).replace(tzinfo=None).isoformat())
        return ('d', value.isoformat())
    if isinstance(value, datetime.date):
        return ('d', 'date', value.isoformat())
    if isinstance(value, (list, dict)):
        key = id(value)
        if key in _memo:
            return ('ref', _memo[key])
        num = len(_memo)
        _memo[key] = num
        if isinstance(value, list):
            return ('a', num, tuple(canon(v, _memo, fn_tags) for v in value))
        items = []
        for k in sorted(value, key=lambda k: (str(type(k)), str(k))):
            items.append((k if isinstance(k, str) else ('host-key', type(k).__name__, repr(k)), canon(value[k], _memo, fn_tags)))
        return ('o', num, tuple(items))
    if isinstance(value, REGEX_TYPE):
        return ('r', value.pattern, value.flags)
    if callable(value):
        if fn_tags is not None:
            tag = fn_tags.get(id(value))
            if tag is not None:
                return ('f', tag)
        name = script_function_name(value)
        if name is not None:
            return ('f', 'script:' + name)
        return ('f', getattr(value, '__name__', None) or type(value).__name__)
    return ('host', type(value).__name__, repr(value)[:80])


def _is_function_model(x):
    return isinstance(x, dict) and isinstance(x.get('name'), str) and isinstance(x.get('statements'), list)


def script_function_name(value):
    """The name of the script function a callable stands for, however the implementation represents script functions:
    a functools.partial over the function model (the pinned tree), an object or bound method that holds the model in
    an attribute, or a closure over it. None for any other callable."""
    seen = []
    args = getattr(value, 'args', None)
    if isinstance(args, tuple):
        seen.extend(args)
    holder = getattr(value, '__self__', None)
    for obj in (value, holder):
        if obj is None or isinstance(obj, type(sys)):
            continue
        d = getattr(obj, '__dict__', None)
        if isinstance(d, dict):
            seen.extend(d.values())
        for slot in getattr(type(obj), '__slots__', ()) or ():
            if isinstance(slot, str) and hasattr(obj, slot):
                seen.append(getattr(obj, slot))
    for cell in getattr(value, '__closure__', None) or ():
        try:
            seen.append(cell.cell_contents)
        except ValueError:
            pass
    seen.extend(getattr(value, '__defaults__', None) or ())
    for x in seen:
        if _is_function_model(x):
            return x['name']
    return None


def canon_flat(value, fn_tags=None):
    """Canonical form without alias numbering (pure structural equality) - for results of pure functions."""
    return _strip(canon(value, None, fn_tags))


def _strip(c):
    if isinstance(c, tuple) and c:
        if c[0] == 'a':
            return ('a', tuple(_strip(x) for x in c[2]))
        if c[0] == 'o':
            return ('o', tuple((k, _strip(v)) for k, v in c[2]))
        if c[0] == 'n' and c[1] == 0:
            return c
    return c


def has_host(c):
    """True if a canonical form contains a non-BareScript ('host') component."""
    if isinstance(c, tuple) and c:
        if c[0] == 'host':
            return True
        if c[0] in ('a', 'o'):
            return any(has_host(x) for x in c[1:])
        if c[0] not in ('n', 'd', 'r', 'f', 'ref'):
            return any(has_host(x) for x in c)
    return False


def show(value, depth=0):
    """Render any (canonical or raw) value as JSON-able data for evidence / replay files."""
    if value is None or isinstance(value, (bool, int, str)):
        return value
    if isinstance(value, float):
        if math.isnan(value) or math.isinf(value):
            return repr(value)
        return value
    if isinstance(value, fractions.Fraction):
        return float(value)
    if depth > 12:
        return '...'
    if isinstance(value, (list, tuple)):
        return [show(v, depth + 1) for v in value]
    if isinstance(value, dict):
        return {str(k): show(v, depth + 1) for k, v in value.items()}
    if isinstance(value, (set, frozenset)):
        return sorted((show(v, depth + 1) for v in value), key=repr)
    return repr(value)[:200]


def exc_obs(exc):
    """Observation of an escaping exception: class name and message."""
    return ('raise', type(exc).__name__, str(exc))


# ---------------------------------------------------------------------------------------------------------------------
# Runtime error messages. The properties fix two messages ("Unknown jump label", "Exceeded maximum script statements");
# every other BareScriptRuntimeError wording (undefined function, failed include, ...) is the implementation's business,
# so results are compared by kind and by the name the reference blames, never by exact text.

_WORD = re.compile(r'[A-Za-z_][A-Za-z0-9_]*')
_QUOTED = re.compile(r'"([^"]*)"')
MSG_BUDGET = 'Exceeded maximum script statements'
MSG_LABEL = 'Unknown jump label'


def runtime_kind(msg):
    msg = str(msg)
    if MSG_LABEL in msg:
        return 'unknown-label'
    if msg.startswith(MSG_BUDGET):
        return 'budget'
    return 'other'


def blamed_name(msg):
    """The name a runtime error message blames: the first double-quoted text, else the last identifier."""
    msg = str(msg)
    q = _QUOTED.findall(msg)
    if q:
        return q[0]
    words = _WORD.findall(msg)
    return words[-1] if words else ''


def budget_names_limit(msg, limit):
    """A budget error may mention numbers; if it does, the limit must be one of them."""
    nums = re.findall(r'\d+', str(msg))
    return not nums or str(limit) in nums


def same_result(impl_res, ref_res):
    """Implementation result vs reference result: equal, or both the same kind of BareScriptRuntimeError blaming the
    same name (budget errors: the same text up to the implementation's way of writing the limit)."""
    if impl_res == ref_res:
        return True
    if not (isinstance(impl_res, tuple) and isinstance(ref_res, tuple) and impl_res and ref_res and impl_res[0] == ref_res[0] == 'raise'):
        return False
    if len(impl_res) == 2 and len(ref_res) == 2:
        mi, mr = impl_res[1], ref_res[1]
    elif len(impl_res) >= 3 and len(ref_res) >= 3 and impl_res[1] == ref_res[1] == 'BareScriptRuntimeError':
        mi, mr = impl_res[2], ref_res[2]
        if impl_res[3:] != ref_res[3:]:
            return False
    else:
        return False
    ki, kr = runtime_kind(mi), runtime_kind(mr)
    if ki != kr:
        return False
    if ki == 'budget':
        return re.findall(r'\d+', str(mi)) == re.findall(r'\d+', str(mr)) or not re.findall(r'\d+', str(mi))
    name = blamed_name(mr)
    return name == '' or name in _WORD.findall(str(mi)) or name in _QUOTED.findall(str(mi))


_FAIL_WORDS = re.compile(r'fail|error|rais|except', re.I)


def is_failure_line(line, name=None):
    """A debug-mode report of a failed call: a runtime diagnostic line ("BareScript: ...") that speaks of a failure /
    error (and names the function when `name` is given). The wording itself is not part of any property."""
    if not isinstance(line, str) or not line.startswith('BareScript:') or not _FAIL_WORDS.search(line):
        return False
    return name is None or name in _WORD.findall(line) or name in _QUOTED.findall(line)


# ---------------------------------------------------------------------------------------------------------------------
# Non-termination. Every run the drivers start has a positive statement limit (or a horizon), so a run that keeps the
# CPU for many seconds is not slow, it is not terminating - the one thing the statement budget exists to prevent.
# The watchdog counts the process's own CPU time (ITIMER_VIRTUAL), so machine load cannot trip it.

import contextlib  # noqa: E402  pylint: disable=wrong-import-position
import signal  # noqa: E402  pylint: disable=wrong-import-position

WATCHDOG_CPU_S = float(os.environ.get('VERIF_WATCHDOG_CPU_S', '10'))


_HANGS = []


class ImplHang(BaseException):
    """Raised inside the code under test when it has used WATCHDOG_CPU_S of CPU time in one bounded run."""


@contextlib.contextmanager
def cpu_watchdog(seconds=None):
    # once one run of this process has been cut, further hanging runs are cut after a tenth of the time
    seconds = (WATCHDOG_CPU_S / (10.0 if _HANGS else 1.0)) if seconds is None else seconds

    def on_alarm(signum, frame):  # pylint: disable=unused-argument
        _HANGS.append(1)
        raise ImplHang()
    try:
        old = signal.signal(signal.SIGVTALRM, on_alarm)
    except ValueError:          # not in the main thread: no watchdog
        yield
        return
    signal.setitimer(signal.ITIMER_VIRTUAL, seconds)
    try:
        yield
    finally:
        signal.setitimer(signal.ITIMER_VIRTUAL, 0)
        signal.signal(signal.SIGVTALRM, old)


HANG = ('hang', f'the run did not end within {WATCHDOG_CPU_S:g} CPU-seconds although a statement limit was in force')
