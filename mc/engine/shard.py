"""Engine C plumbing: families of exhaustively enumerated cases, deterministic sharding, per-shard accumulators.

A *family* is a finite, explicitly described set of cases, split into shards (by the index of the first one or two
enumeration choices - never by hashing). Each shard is run by a worker process (fork) and returns an accumulator
dictionary; the runner merges them in shard order so the output does not depend on scheduling.
"""

import hashlib
import json

from ..common import show

MAX_VIOLATIONS_PER_SHARD = 8
MAX_SAMPLES_PER_SHARD = 2
MAX_OUTCOMES_PER_SHARD = 256


class Family:
    """name: family id; func(arg) -> Acc.result(); shards: list of picklable args; bound: human text of the bound;
    expected: closed-form number of cases the family should enumerate (None if no closed form is known)."""

    def __init__(self, name, func, shards, bound, expected=None, note=None):
        self.name = name
        self.func = func
        self.shards = list(shards)
        self.bound = bound
        self.expected = expected
        self.note = note


class Acc:
    """Per-shard accumulator."""

    def __init__(self, family):
        self.family = family
        self.cases = 0            # cases enumerated (programs, texts, pairs, calls, ...)
        self.evals = 0            # executions of the implementation
        self.states = 0           # model checking: distinct states visited
        self.transitions = 0      # model checking: transitions taken
        self.traces = 0           # model checking: complete executions compared with the reference
        self.nontrivial = 0       # distinct cases that are non-trivial by the family's rule
        self.unspecified = 0      # comparisons skipped because the documentation leaves the corner open
        self.pruned = 0           # events/cases disabled by a size bound
        self.outcomes = set()     # small digests of distinct observed outcomes (vacuity guard)
        self.violations = []      # violations not attributed to a finding id (capped list, exact count in nviol)
        self.nviol = 0
        self.known_violations = []  # violations the family attributes to a finding id (separate cap, so they never crowd out others)
        self.nknown = 0
        self.samples = []
        self.capped = False
        self.extra = {}

    def outcome(self, obj):
        if len(self.outcomes) < MAX_OUTCOMES_PER_SHARD:
            self.outcomes.add(digest(obj))

    def sample(self, obj):
        if len(self.samples) < MAX_SAMPLES_PER_SHARD:
            self.samples.append(show(obj))

    def violation(self, case, expected, actual, diff, known=None):
        """case must be JSON-able and sufficient for props.<id>.replay(family, case)."""
        if known is not None:
            self.nknown += 1
            target = self.known_violations
        else:
            self.nviol += 1
            target = self.violations
        if len(target) < MAX_VIOLATIONS_PER_SHARD:
            target.append({
                'family': self.family,
                'case': show(case),
                'expected': show(expected),
                'actual': show(actual),
                'first_difference': diff,
                'known': known,
            })

    def count(self, key, inc=1):
        self.extra[key] = self.extra.get(key, 0) + inc

    def result(self):
        return {
            'family': self.family, 'cases': self.cases, 'evals': self.evals, 'states': self.states,
            'transitions': self.transitions, 'traces': self.traces, 'nontrivial': self.nontrivial,
            'unspecified': self.unspecified, 'pruned': self.pruned, 'outcomes': sorted(self.outcomes),
            'violations': self.violations, 'nviol': self.nviol, 'known_violations': self.known_violations, 'nknown': self.nknown, 'samples': self.samples, 'capped': self.capped,
            'extra': self.extra,
        }


def digest(obj):
    return hashlib.sha1(repr(obj).encode('utf-8', 'backslashreplace')).hexdigest()[:10]


def case_id(obj):
    return hashlib.sha1(json.dumps(show(obj), sort_keys=True, default=repr).encode('utf-8', 'backslashreplace')).hexdigest()[:12]


def split(seq, n):
    """Split a list into n contiguous shards (deterministic); empty shards are dropped."""
    seq = list(seq)
    k, m = divmod(len(seq), n)
    out = []
    start = 0
    for i in range(n):
        end = start + k + (1 if i < m else 0)
        if end > start:
            out.append(seq[start:end])
        start = end
    return out
