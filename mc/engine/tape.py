"""Engine A: stateless path explorer over environment answers (iterative deviation bounding).

A *tape* is a list of choices. Host functions ask the tape for a decision (kind, domain); a prefix is replayed
(a recorded choice outside the domain asked for at that point is a hard error: replay divergence) and every later
point gets the default answer 0. explore() runs a pair (implementation, reference) on the same prefix, compares
them, and branches on every alternative at every point after the prefix while the number of non-default answers
stays within the bound.
"""

from ..common import HarnessError


class Tape:
    def __init__(self, prefix):
        self.prefix = list(prefix)
        self.points = []     # (kind, domain, choice)
        self.error = None    # set when a replayed prefix does not fit the decisions asked (the exception itself may be swallowed by the code under test)

    def ask(self, kind, domain):
        pos = len(self.points)
        if pos < len(self.prefix):
            choice = self.prefix[pos]
            if not 0 <= choice < domain:
                self.error = f'point {pos}: recorded choice {choice} outside domain {domain} of {kind}'
                raise ReplayDivergence(f'point {pos}: recorded choice {choice} outside domain {domain} of {kind}')
        else:
            choice = 0
        self.points.append((kind, domain, choice))
        return choice

    def choices(self):
        return [p[2] for p in self.points]


class ReplayDivergence(Exception):
    pass


def deviations(choices):
    return sum(1 for c in choices if c != 0)


def explore(run_pair, bound, max_len, on_run, max_runs=None):
    """run_pair(prefix) -> (points_of_impl, verdict) where verdict tells on_run what happened.

    on_run(prefix, points, verdict) -> bool: True to expand below this node, False to stop (e.g. after a violation).
    Returns (runs, decisions, capped)."""
    stack = [[]]
    runs = 0
    decisions = 0
    capped = False
    while stack:
        prefix = stack.pop()
        points, verdict = run_pair(prefix)
        runs += 1
        if len(points) < len(prefix):
            # the implementation consumed fewer decisions than the prefix that was derived from its own earlier run
            raise HarnessError(f'replay divergence: prefix {prefix} but only {len(points)} points asked')
        decisions += len(points) - len(prefix) + (1 if prefix else 0)
        if not on_run(prefix, points, verdict):
            continue
        if max_runs is not None and runs >= max_runs:
            capped = True
            break
        d = deviations(prefix)
        if d + 1 > bound:
            continue
        children = []
        for i in range(len(prefix), min(len(points), max_len)):
            base = [p[2] for p in points[:i]]
            for alt in range(1, points[i][1]):
                children.append(base + [alt])
        # depth-first, simplest-first: push in reverse so that the earliest point / smallest alternative pops first
        stack.extend(reversed(children))
    return runs, decisions, capped
