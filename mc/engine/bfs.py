"""Engine B: explicit-state, level-synchronous breadth-first search over REAL live objects (DESIGN 2.2).

The engine itself knows nothing about BareScript. A *model* (supplied by the property driver) provides

    model.seeds()              -> [(label, desc)]   initial state + non-initial seed states
    model.key(desc)            -> str               canonical, alias-aware key of the state `desc` describes
    model.expand(desc, acc, n) -> [(event_index, key, desc')]   (n = state number, to be put into violation cases)
                                  rebuilds the live state from `desc`, executes EVERY event of the alphabet on it
                                  (real code vs reference, all comparisons reported on `acc`), and returns the
                                  validated successors that differ from the state and lie inside the size bound
    model.event_text(i)        -> str               for the history shown with a violation

A state is held as (a) its canonical key (a string; exact, no hashing) for de-duplication and (b) a JSON-able
*description* from which the live objects are rebuilt (live objects cannot cross process boundaries, and every event
needs a pristine copy anyway). States are merged only on equal keys; what the key must contain for that to be sound is
the model's business (for containers: values, alias graph, key insertion order - see `pool_key`).

Search: multi-source BFS from all seeds at once, level by level, until the frontier is empty = FIXPOINT: every state
reachable by a history of any length (inside the bound) has been expanded with every event. Each level's frontier is
split over `jobs` forked children (os.fork; results come back pickled through a scratch directory); successors are
merged in (source state, event) order, so numbering, counts and the first violation do not depend on scheduling or on
the number of children. The search stops after the first level that produced a violation (the state space of a broken
implementation is not worth closing) or when `deadline` passes; in both cases `fixpoint` is False.
"""

import os
import pickle
import shutil
import sys
import tempfile
import time
import traceback

from ..common import HarnessError, canon
from .shard import MAX_OUTCOMES_PER_SHARD, MAX_SAMPLES_PER_SHARD, MAX_VIOLATIONS_PER_SHARD, Acc

SUM_KEYS = ('cases', 'evals', 'states', 'transitions', 'traces', 'nontrivial', 'unspecified', 'pruned')


# ---------------------------------------------------------------------------------------------------------------
# Descriptions of container pools: {'vars': {name: enc}, 'heap': [['a', [enc...]] | ['o', [[key, enc]...]]]}
# enc = scalar (None / bool / number / str) or ['r', heap index]. JSON-able; preserves aliasing and key order.
# ---------------------------------------------------------------------------------------------------------------

def encode_pool(pool):
    ids = {}
    heap = []

    def enc(v):
        if isinstance(v, (list, dict)):
            n = ids.get(id(v))
            if n is None:
                n = len(heap)
                ids[id(v)] = n
                heap.append(None)
                if isinstance(v, list):
                    heap[n] = ['a', [enc(x) for x in v]]
                else:
                    heap[n] = ['o', [[k, enc(x)] for k, x in v.items()]]
            return ['r', n]
        if v is None or isinstance(v, (bool, int, float, str)):
            return v
        raise HarnessError(f'encode_pool: value of type {type(v).__name__} cannot be part of a state')

    return {'vars': {name: enc(pool[name]) for name in sorted(pool)}, 'heap': heap}


def decode_pool(desc):
    heap = desc['heap']
    objs = [[] if h[0] == 'a' else {} for h in heap]

    def dec(e):
        return objs[e[1]] if isinstance(e, list) else e

    for obj, (kind, items) in zip(objs, heap):
        if kind == 'a':
            obj.extend(dec(e) for e in items)
        else:
            for k, e in items:
                obj[k] = dec(e)
    return {name: dec(e) for name, e in desc['vars'].items()}


def pool_key(pool):
    """Key of a pool {name: value}: common.canon (values + alias graph, containers numbered in first-visit order from
    the sorted names) plus the insertion order of the keys of every object, which Python dicts also carry and
    objectKeys can observe. Two pools with the same key are indistinguishable by any sequence of list/dict operations."""
    orders = []
    seen = set()

    def walk(v):
        if isinstance(v, (list, dict)):
            if id(v) in seen:
                return
            seen.add(id(v))
            if isinstance(v, list):
                for x in v:
                    walk(x)
            else:
                orders.append(tuple(v))
                for k in sorted(v):
                    walk(v[k])

    for name in sorted(pool):
        walk(pool[name])
    return repr((canon(pool), tuple(orders)))


def pool_stats(pool):
    """(max array length, set of object keys, set of scalar canon values, total cells, max depth, has_cycle, containers)."""
    maxlen = 0
    keys = set()
    scalars = set()
    cells = 0
    ncont = 0
    cyc = False
    depth_of = {}
    onpath = set()

    def walk(v):
        nonlocal maxlen, cells, ncont, cyc
        if not isinstance(v, (list, dict)):
            scalars.add(canon(v))
            return 0
        if id(v) in onpath:
            cyc = True
            return 0
        if id(v) in depth_of:
            return depth_of[id(v)]
        onpath.add(id(v))
        ncont += 1
        if isinstance(v, list):
            maxlen = max(maxlen, len(v))
            cells += len(v)
            d = 1 + max([walk(x) for x in v] or [0])
        else:
            keys.update(v)
            cells += len(v)
            d = 1 + max([walk(x) for x in v.values()] or [0])
        onpath.discard(id(v))
        depth_of[id(v)] = d
        return d

    depth = max([walk(pool[name]) for name in sorted(pool)] or [0])
    return {'maxlen': maxlen, 'keys': keys, 'scalars': scalars, 'cells': cells, 'depth': depth, 'cycle': cyc, 'containers': ncont}


# ---------------------------------------------------------------------------------------------------------------
# Fork map
# ---------------------------------------------------------------------------------------------------------------

def fork_map(func, chunks, jobs):
    """[func(c) for c in chunks] with each chunk evaluated in a forked child (at most `jobs` at a time).
    Children inherit everything by fork and return their result pickled through a scratch directory."""
    if jobs <= 1 or len(chunks) <= 1:
        return [func(c) for c in chunks]
    tmp = tempfile.mkdtemp(prefix='bsv-bfs-', dir='/var/tmp')
    try:
        pids = {}
        results = [None] * len(chunks)
        pending = list(range(len(chunks)))
        parent = os.getpid()

        def reap():
            pid, status = os.wait()
            i = pids.pop(pid)
            path = os.path.join(tmp, f'{i}.pkl')
            if status != 0 or not os.path.exists(path):
                raise HarnessError(f'bfs child for chunk {i} died (status {status})')
            with open(path, 'rb') as fh:
                ok, val = pickle.load(fh)
            os.unlink(path)
            if not ok:
                raise HarnessError('exception inside a bfs child:\n' + val)
            results[i] = val

        try:
            while pending or pids:
                while pending and len(pids) < jobs:
                    i = pending.pop(0)
                    pid = os.fork()
                    if pid == 0:
                        code = 1
                        try:
                            try:
                                out = (True, func(chunks[i]))
                            except BaseException:  # pylint: disable=broad-exception-caught
                                out = (False, traceback.format_exc())
                            with open(os.path.join(tmp, f'{i}.tmp'), 'wb') as fh:
                                pickle.dump(out, fh, protocol=pickle.HIGHEST_PROTOCOL)
                            os.rename(os.path.join(tmp, f'{i}.tmp'), os.path.join(tmp, f'{i}.pkl'))
                            code = 0
                        finally:
                            os._exit(code)  # never return into the parent's stack / atexit handlers
                    pids[pid] = i
                reap()
        finally:
            for pid in list(pids):
                try:
                    os.kill(pid, 9)
                    os.waitpid(pid, 0)
                except OSError:
                    pass
        assert os.getpid() == parent
        return results
    finally:
        shutil.rmtree(tmp, ignore_errors=True)


def merge_result(acc, res):
    """Add a child's Acc.result() to the parent's accumulator."""
    for k in SUM_KEYS:
        setattr(acc, k, getattr(acc, k) + res[k])
    for o in res['outcomes']:
        if len(acc.outcomes) < MAX_OUTCOMES_PER_SHARD:
            acc.outcomes.add(o)
    acc.nviol += res['nviol']
    acc.nknown += res['nknown']
    for v in res['violations']:
        if len(acc.violations) < MAX_VIOLATIONS_PER_SHARD:
            acc.violations.append(v)
    for v in res['known_violations']:
        if len(acc.known_violations) < MAX_VIOLATIONS_PER_SHARD:
            acc.known_violations.append(v)
    for s in res['samples']:
        if len(acc.samples) < MAX_SAMPLES_PER_SHARD:
            acc.samples.append(s)
    for k, v in res['extra'].items():
        acc.extra[k] = acc.extra.get(k, 0) + v
    acc.capped = acc.capped or res['capped']


# ---------------------------------------------------------------------------------------------------------------
# The search
# ---------------------------------------------------------------------------------------------------------------

def default_jobs():
    return max(1, int(os.environ.get('VERIF_BFS_JOBS', os.environ.get('VERIF_JOBS', str(os.cpu_count() or 1)))))


def explore(model, acc, jobs=None, deadline=None, max_states=None, min_fork=8):
    """Multi-source BFS to fixpoint. Fills acc (states, and whatever model.expand reports) and returns a report dict:
    {'fixpoint': bool, 'levels': [states first seen at depth d], 'seeds': [...], 'stopped': reason or None}."""
    jobs = default_jobs() if jobs is None else jobs
    family = acc.family
    index = {}          # key -> state number
    parent = []         # state number -> (parent state number or -1, event index or seed number)
    descs = {}          # state number -> description (dropped once expanded)
    seeds = []
    frontier = []
    for sn, (label, desc) in enumerate(model.seeds()):
        key = model.key(desc)
        new = key not in index
        if new:
            index[key] = len(parent)
            descs[len(parent)] = desc
            frontier.append(len(parent))
            parent.append((-1, sn))
        seeds.append({'label': label, 'state': index[key], 'new': new})
    labels = [s['label'] for s in seeds]

    def history(n):
        steps = []
        while parent[n][0] >= 0:
            steps.append(model.event_text(parent[n][1]))
            n = parent[n][0]
        return {'seed': labels[parent[n][1]], 'events': steps[::-1]}

    def work(chunk):
        # runs in a forked child: `index` is the parent's table as of the fork = every state known so far, so a
        # successor already known is dropped here instead of being shipped back
        sub = Acc(family)
        out = []
        mine = set()
        for n in chunk:
            for ev, key, desc in model.expand(descs[n], sub, n):
                if key not in index and key not in mine:
                    mine.add(key)
                    out.append((n, ev, key, desc))
        return sub.result(), out

    levels = []
    stopped = None
    expanded = 0
    while frontier:
        levels.append(len(frontier))
        if deadline is not None and time.time() > deadline:
            stopped = f'time cap before expanding depth {len(levels) - 1}'
            break
        if max_states is not None and len(parent) > max_states:
            stopped = f'state cap {max_states} before expanding depth {len(levels) - 1}'
            break
        if len(frontier) < min_fork or jobs <= 1:
            chunks = [frontier]
        else:
            n = min(jobs * 4, len(frontier))
            chunks = [frontier[i::n] for i in range(n)]
        t_level = time.time()
        results = fork_map(work, chunks, jobs)
        expanded += len(frontier)
        if os.environ.get('VERIF_BFS_PROGRESS'):
            print(f'bfs {family}: depth {len(levels) - 1}: {len(frontier)} states expanded in {time.time() - t_level:.1f}s, {len(parent)} known', file=sys.stderr, flush=True)
        succ = []
        viol_before = acc.nviol + acc.nknown
        found = {'violations': [], 'known_violations': []}
        for res, out in results:
            for which, lst in found.items():
                lst.extend(res[which])
                res[which] = []
            merge_result(acc, res)
            succ.extend(out)
        for which, lst in found.items():
            # simplest first, independent of how the level was split: by (state number, order of detection)
            lst.sort(key=lambda v: v['case'].get('state_number', 0) if isinstance(v.get('case'), dict) else 0)
            target = getattr(acc, which)
            for v in lst:
                if isinstance(v.get('case'), dict) and 'state_number' in v['case']:
                    v['case']['history'] = history(v['case'].pop('state_number'))
                if len(target) < MAX_VIOLATIONS_PER_SHARD:
                    target.append(v)
        for n in frontier:
            del descs[n]
        succ.sort(key=lambda t: (t[0], t[1]))
        frontier = []
        for src, ev, key, desc in succ:
            if key not in index:
                index[key] = len(parent)
                descs[len(parent)] = desc
                frontier.append(len(parent))
                parent.append((src, ev))
        if acc.nviol + acc.nknown > viol_before:
            stopped = f'violation at depth {len(levels) - 1}'
            break
    acc.states += len(parent)
    if stopped is not None and not stopped.startswith('violation'):
        acc.capped = True
    return {'fixpoint': stopped is None, 'levels': levels, 'seeds': seeds, 'stopped': stopped, 'states': len(parent),
            'expanded': expanded, 'jobs': jobs}
