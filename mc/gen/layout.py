"""Layout states and layout rewrites of BareScript source texts (C10). Shares no code with bare_script.

A *line* is a physical source line kept in structured form, so that the places where whitespace may change are known
exactly:

    (aux, indent, toks, gaps, pre, cont, trail, eol, cut, text)

    aux    True for a blank or comment line (toks = () or (comment text,)); such a line is never broken
    indent leading whitespace
    toks   the tokens of the line; gaps[i] is the whitespace run between toks[i] and toks[i+1]; it is '' at a position where
           the grammar allows optional blanks and the source has none (`else:` = else | :, `ff(x)` = ff | ( | x | ), see
           lexemes()); a line is only ever broken, and blanks are only ever inserted, at a gap
    pre    whitespace between the last token and the continuation backslash (cont only)
    cont   the line ends with a continuation backslash
    trail  trailing whitespace (after the backslash when cont)
    eol    '\n', '\r\n' or '' (no line end characters: last line of the text, or a chunk boundary without line end)
    cut    a chunk boundary follows this line (the text is then passed to the parser as a list of strings)
    text   the rendered line without eol (cached)

A *state* is (lines, aslist). `render(state)` gives what is passed to parse_script: a str, or a tuple of chunk strings.
"""

import re

SP = '\u00b7'    # marker in corpus sources: one breakable space between two tokens (or indentation / trailing space)
TB = '\u2192'    # marker: one breakable tab
FF = '\u21a1'    # marker: one breakable form feed (\\x0c)
VT = '\u21a7'    # marker: one breakable vertical tab (\\x0b)
MARKS = SP + TB + FF + VT
BLANKS = ' \t\x0b\x0c'   # what the scanner accepts as whitespace between tokens


def mk(aux, indent, toks, gaps, pre, cont, trail, eol, cut):
    parts = [indent]
    for i, tok in enumerate(toks):
        if i:
            parts.append(gaps[i - 1])
        parts.append(tok)
    if cont:
        parts.append(pre)
        parts.append('\\')
    parts.append(trail)
    return (aux, indent, tuple(toks), tuple(gaps), pre, cont, trail, eol, cut, ''.join(parts))


def _ws(marks):
    return marks.replace(SP, ' ').replace(TB, '\t').replace(FF, '\x0c').replace(VT, '\x0b')


_MARK_RUN = re.compile('[' + MARKS + ']+')


def corpus_line(src, eol):
    """Build a line from the corpus notation (SP/TB mark every breakable whitespace character; plain spaces are inside tokens)."""
    m = _MARK_RUN.match(src)
    indent = _ws(m.group(0)) if m else ''
    rest = src[len(m.group(0)):] if m else src
    m = re.search('[' + MARKS + ']+$', rest)
    trail = _ws(m.group(0)) if m else ''
    if m:
        rest = rest[:m.start()]
    if rest == '' or rest[0] == '#':
        if any(c in rest for c in MARKS):
            raise ValueError('marker inside a comment: ' + src)
        return mk(True, indent, (rest,) if rest else (), (), '', False, trail, eol, False)
    toks, gaps = [], []
    pos = 0
    for m in _MARK_RUN.finditer(rest):
        toks.append(rest[pos:m.start()])
        gaps.append(_ws(m.group(0)))
        pos = m.end()
    toks.append(rest[pos:])
    cont = False
    pre = ''
    if toks[-1] == '\\':
        cont = True
        toks.pop()
        pre = gaps.pop() if gaps else ''
        if not toks:
            raise ValueError('continuation without a token: ' + src)
    if any(t == '' for t in toks):
        raise ValueError('empty token: ' + src)
    toks, gaps = split_lexemes(toks, gaps)
    return mk(False, indent, toks, gaps, pre, cont, trail, eol, False)


def corpus_state(lines, eol='\n', final=True):
    """lines: corpus-notation strings. eol: '\n', '\r\n' or 'mixed' (alternating). final: the last line has a line end."""
    out = []
    for i, src in enumerate(lines):
        e = eol if eol != 'mixed' else ('\r\n' if i % 2 == 0 else '\n')
        if i == len(lines) - 1 and not final:
            e = ''
        out.append(corpus_line(src, e))
    return (tuple(out), False)


# ---- quote scanner (shipped scripts; also cross-checked against the corpus notation) ------------------------------------

_INCLUDE_SYS = re.compile(r'^include(\s+)(<[^>]*>)$')


_LEX = re.compile(r'\.\.\.|\d+(?:\.\d*)?(?:e[+-]\d+)?|[A-Za-z_]\w*|\*\*|<=|>=|==|!=|&&|\|\||[*/%+\-<>=!(),:]')


def _literal_end(text, i):
    """Index just after the '...' / "..." literal or [bracket name] starting at text[i], or None."""
    ch = text[i]
    close = ']' if ch == '[' else ch
    j = i + 1
    n = len(text)
    while j < n and text[j] != close:
        if text[j] == '\\' and j + 1 < n and (text[j + 1] == close or (ch != '[' and text[j + 1] == '\\')):
            j += 2
        else:
            j += 1
    return None if j >= n else j + 1


def lexemes(token, header):
    """Split one whitespace-free token into the pieces between which the grammar allows optional blanks (zero there now):
    `else:` -> else | :   `ff(x,y)` -> ff | ( | x | , | y | )   `args...):` -> args | ... | ) | :
    Never split: inside literals and [names]; after a sign or `!` (`-1`, `!x`, `a` | `-b`); between the name and the `(` of a
    function header (header=True). Anything unexpected: the token stays whole."""
    raw = []
    i = 0
    while i < len(token):
        if token[i] in '\'"[':
            j = _literal_end(token, i)
            if j is None:
                return [token]
        else:
            m = _LEX.match(token, i)
            if m is None:
                return [token]
            j = m.end()
        raw.append(token[i:j])
        i = j
    out = []
    stick = False
    for k, lx in enumerate(raw):
        glue = stick or (header and lx == '(' and k > 0 and raw[k - 1][0].isalpha())
        if out and glue:
            out[-1] += lx
        else:
            out.append(lx)
        stick = lx in ('+', '-', '!')
    return out


def split_lexemes(toks, gaps):
    """Expand whitespace-separated tokens into lexemes; the gap between two lexemes of one token is '' (an optional-blank
    position). include lines are left alone (their target is not an expression)."""
    if not toks or toks[0] == 'include':
        return list(toks), list(gaps)
    header = toks[0] == 'function' or (len(toks) > 1 and toks[0] == 'async' and toks[1] == 'function')
    out_t, out_g = [], []
    for k, tok in enumerate(toks):
        if k:
            out_g.append(gaps[k - 1])
        parts = lexemes(tok, header)
        for q, part in enumerate(parts):
            if q:
                out_g.append('')
            out_t.append(part)
    return out_t, out_g


def scan_tokens(core):
    """Split the code part of a line (no indentation, no continuation, no trailing whitespace) into tokens and the whitespace
    runs between them, never looking inside '...' / "..." literals, [bracket names] or an include <...> target.
    Returns (toks, gaps) or None when the scanner is not sure (then the line is treated as one token: never broken)."""
    m = _INCLUDE_SYS.match(core)
    if m:
        return (['include', m.group(2)], [m.group(1)])
    toks, gaps = [], []
    start = 0
    i = 0
    n = len(core)
    while i < n:
        ch = core[i]
        if ch in '\'"':
            j = i + 1
            while j < n and core[j] != ch:
                if core[j] == '\\' and j + 1 < n and core[j + 1] in ('\\', ch):
                    j += 2
                else:
                    j += 1
            if j >= n:
                return None
            i = j + 1
        elif ch == '[':
            j = i + 1
            while j < n and core[j] != ']':
                if core[j] == '\\' and j + 1 < n and core[j + 1] == ']':
                    j += 2
                else:
                    j += 1
            if j >= n:
                return None
            i = j + 1
        elif ch in BLANKS:
            j = i
            while j < n and core[j] in BLANKS:
                j += 1
            toks.append(core[start:i])
            gaps.append(core[i:j])
            start = j
            i = j
        elif ch == '#' or ch == '\\':
            return None     # not expected outside literals in a valid script: do not guess
        else:
            i += 1
    toks.append(core[start:])
    if any(t == '' for t in toks):
        return None
    return (toks, gaps)


_LEAD = re.compile(r'^[ \t\x0b\x0c]*')
_TRAILWS = re.compile(r'[ \t\x0b\x0c]*$')
_CONT = re.compile(r'\\([ \t\x0b\x0c]*)$')


def scan_line(text, eol):
    indent = _LEAD.match(text).group(0)
    rest = text[len(indent):]
    if rest == '':
        return mk(True, indent, (), (), '', False, '', eol, False)
    if rest[0] == '#':
        trail = _TRAILWS.search(rest).group(0)
        return mk(True, indent, (rest[:len(rest) - len(trail)],), (), '', False, trail, eol, False)
    m = _CONT.search(rest)
    if m:
        cont = True
        trail = m.group(1)
        core = rest[:m.start()]
        pre = _TRAILWS.search(core).group(0)
        core = core[:len(core) - len(pre)]
    else:
        cont = False
        pre = ''
        trail = _TRAILWS.search(rest).group(0)
        core = rest[:len(rest) - len(trail)]
    if core == '':
        raise ValueError('a line that is only a continuation backslash is not supported by the scanner')
    sc = scan_tokens(core)
    if sc is None:
        return mk(False, indent, (core,), (), pre, cont, trail, eol, False)
    toks, gaps = split_lexemes(sc[0], sc[1])
    return mk(False, indent, toks, gaps, pre, cont, trail, eol, False)


def scan_state(text):
    """Structured state of an arbitrary script text (line ends LF or CRLF)."""
    lines = []
    pos = 0
    for m in re.finditer(r'\r?\n', text):
        lines.append(scan_line(text[pos:m.start()], m.group(0)))
        pos = m.end()
    if pos < len(text):
        lines.append(scan_line(text[pos:], ''))
    return (tuple(lines), False)


# ---- rendering ----------------------------------------------------------------------------------------------------------

def render(state):
    """What is passed to parse_script: a str, or a tuple of chunk strings (given to the parser as a list)."""
    lines, aslist = state
    if not aslist:
        return ''.join([ln[9] + ln[7] for ln in lines])
    chunks = []
    cur = []
    for ln in lines:
        cur.append(ln[9])
        cur.append(ln[7])
        if ln[8]:
            chunks.append(''.join(cur))
            cur = []
    chunks.append(''.join(cur))
    return tuple(chunks)


def physical_lines(state):
    return len(state[0])


_WORDCH = re.compile(r'\w')
_OPCH = '*/%+-<>=!&|'
_LEAD_KEYWORDS = ('return', 'include', 'if', 'elif', 'while', 'for', 'function')


def gap_is_optional(lex, k):
    """May the whitespace between lex[k] and lex[k+1] of one logical line be removed? Decided from the statement kind and the
    two neighbours only (conservative: 'no' keeps the text as written)."""
    left, right = lex[k], lex[k + 1]
    if _WORDCH.match(left[-1]) and _WORDCH.match(right[0]):
        return False                                   # two words / numbers would fuse
    if left[-1] in _OPCH and right[0] in _OPCH:
        return False                                   # two operators would fuse, or a sign follows
    first = 1 if lex[0] == 'async' else 0
    if k == first and left in _LEAD_KEYWORDS:
        return False                                   # keyword \s+ ...
    if lex[0] == 'for' and left == 'in' and k in (2, 4):
        return False                                   # for v [, i] in \s+ values
    if lex[0].startswith('jump') and k == len(lex) - 2:
        return False                                   # jumpif (...) \s+ label
    return True


def canonical_text(state, spaced=False):
    """spaced=True: the same logical lines with exactly one blank at every gap (also at the optional-blank positions).
    Default - the sequence of logical lines of a state in the tightest layout: comment and blank lines dropped, the parts of a
    continued line joined, every optional whitespace run removed (gap_is_optional), every other run kept as written (one space
    at a join), no indentation, no trailing whitespace, LF between lines, one str. This is the reference text: the property
    says the model depends on nothing else."""
    out = []
    lex, gaps = [], []
    for ln in state[0]:
        if ln[0]:
            continue
        if lex:
            gaps.append(' ')
        lex.extend(ln[2])
        gaps.extend(ln[3])
        if not ln[5]:
            parts = [lex[0]]
            for k in range(len(lex) - 1):
                parts.append(' ' if spaced else '' if gap_is_optional(lex, k) else (gaps[k] or ' '))
                parts.append(lex[k + 1])
            out.append(''.join(parts))
            lex, gaps = [], []
    if lex:
        raise ValueError('continuation pending at the end of the text')
    return '\n'.join(out)


# ---- rewrites -----------------------------------------------------------------------------------------------------------

OPT_BLANKS = [' ', '\t']       # what is inserted at an optional-blank position
EMPTY_GAP_BREAKS = (2, 4)       # break styles used at an optional-blank position: tight, blank only after
INDENTS = ['', ' ', '  ', '   ', '\t']     # 1, 2, 3 blanks and a tab: column shifts that are not multiples of a tab width
TRAILS = ['  ', '\t']
INSERTS = [('', ''), ('', '# comment'), ('    ', '# comment'), ('', '# tail \\')]
CONT_INDENT = '    '
# How a line is broken at a whitespace gap: (keep the gap's whitespace before the backslash, indentation of the rest,
# whitespace after the backslash). The parser joins the parts with one space, so the whitespace may be consumed entirely.
BREAKS = [
    (True, CONT_INDENT, ''),      # 0  tok<gap>\ / ....tok
    (True, CONT_INDENT, '  '),    # 1  tok<gap>\.. / ....tok
    (False, '', ''),              # 2  tok\ / tok           (tight: the break consumes the whitespace)
    (True, '', ''),               # 3  tok<gap>\ / tok      (blank only before)
    (False, CONT_INDENT, ''),     # 4  tok\ / ....tok       (blank only after)
]


def rewrites(state):
    """Every applicable rewrite descriptor of the state, in a fixed order (simplest first)."""
    lines, aslist = state
    n = len(lines)
    out = []
    if any(ln[7] == '\n' for ln in lines):
        out.append(['crlf'])
    if any(ln[7] == '\r\n' for ln in lines):
        out.append(['lf'])
    for i, ln in enumerate(lines):
        if ln[7]:
            out.append(['eol', i])
    if not aslist:
        out.append(['wrap'])
    for i in range(n - 1):
        ln = lines[i]
        if not ln[8]:
            out.append(['cut', i, 1])
        if ln[7]:
            out.append(['cut', i, 0])
    for p in range(n + 1):
        for k in range(len(INSERTS)):
            out.append(['ins', p, k])
    for i, ln in enumerate(lines):
        if ln[2]:
            for k, ind in enumerate(INDENTS):
                if ln[1] != ind:
                    out.append(['ind', i, k])
    for i, ln in enumerate(lines):
        for k, tr in enumerate(TRAILS):
            if ln[6] != tr:
                out.append(['trail', i, k])
    for i, ln in enumerate(lines):
        if not ln[0]:
            for g in optional_gaps(state, i):
                if ln[3][g]:
                    out.append(['tight', i, g])
                else:
                    for k in range(len(OPT_BLANKS)):
                        out.append(['opt', i, g, k])
    for i, ln in enumerate(lines):
        if not ln[0]:
            for g, ws in enumerate(ln[3]):
                # at an optional-blank position (no whitespace now) a break has nothing to keep before the backslash
                for v in (range(len(BREAKS)) if ws else EMPTY_GAP_BREAKS):
                    out.append(['brk', i, g, v])
    return out


def _style(lines, p):
    """Line end characters for a line inserted before position p."""
    if p < len(lines) and lines[p][7]:
        return lines[p][7]
    if p > 0 and lines[p - 1][7]:
        return lines[p - 1][7]
    return '\n'


def apply(state, desc):
    """Apply one rewrite descriptor; returns the new state (or None when it does not apply)."""
    lines, aslist = state
    kind = desc[0]
    n = len(lines)
    if kind == 'crlf' or kind == 'lf':
        src, dst = ('\n', '\r\n') if kind == 'crlf' else ('\r\n', '\n')
        if not any(ln[7] == src for ln in lines):
            return None
        return (tuple(mk(*ln[:7], dst, ln[8]) if ln[7] == src else ln for ln in lines), aslist)
    if kind == 'wrap':
        if aslist:
            return None
        return (lines, True)
    i = desc[1]
    if kind == 'ins':
        if not 0 <= i <= n:
            return None
        indent, text = INSERTS[desc[2]]
        new = list(lines)
        if i == n and n and not lines[-1][7]:
            new[-1] = mk(*lines[-1][:7], '\n', False)
            eol = ''
        elif i == n and n == 0:
            eol = ''
        else:
            eol = _style(lines, i)
        new.insert(i, mk(True, indent, (text,) if text else (), (), '', False, '', eol, False))
        return (tuple(new), aslist)
    if not 0 <= i < n:
        return None
    ln = lines[i]
    new = list(lines)
    if kind == 'eol':
        if not ln[7]:
            return None
        new[i] = mk(*ln[:7], '\r\n' if ln[7] == '\n' else '\n', ln[8])
        return (tuple(new), aslist)
    if kind == 'cut':
        if i >= n - 1:
            return None
        if desc[2]:
            if ln[8]:
                return None
            new[i] = mk(*ln[:7], ln[7], True)
        else:
            if not ln[7]:
                return None
            new[i] = mk(*ln[:7], '', True)
        return (tuple(new), True)
    if kind == 'ind':
        if not ln[2] or ln[1] == INDENTS[desc[2]]:
            return None
        new[i] = mk(ln[0], INDENTS[desc[2]], *ln[2:9])
        return (tuple(new), aslist)
    if kind == 'trail':
        if ln[6] == TRAILS[desc[2]]:
            return None
        new[i] = mk(*ln[:6], TRAILS[desc[2]], ln[7], ln[8])
        return (tuple(new), aslist)
    if kind == 'opt':
        g = desc[2]
        if ln[0] or not 0 <= g < len(ln[3]) or ln[3][g]:
            return None
        gaps = list(ln[3])
        gaps[g] = OPT_BLANKS[desc[3]]
        new[i] = mk(ln[0], ln[1], ln[2], gaps, *ln[4:9])
        return (tuple(new), aslist)
    if kind == 'tight':
        g = desc[2]
        if g not in optional_gaps(state, i) or not ln[3][g]:
            return None
        gaps = list(ln[3])
        gaps[g] = ''
        new[i] = mk(ln[0], ln[1], ln[2], gaps, *ln[4:9])
        return (tuple(new), aslist)
    if kind == 'brk':
        g = desc[2]
        if ln[0] or not 0 <= g < len(ln[3]):
            return None
        keep, indent, after = BREAKS[desc[3]]
        left = mk(False, ln[1], ln[2][:g + 1], ln[3][:g], ln[3][g] if keep else '', True, after, ln[7] or '\n', False)
        right = mk(False, indent, ln[2][g + 1:], ln[3][g + 1:], ln[4], ln[5], ln[6], ln[7], ln[8])
        new[i:i + 1] = [left, right]
        return (tuple(new), aslist)
    raise ValueError('unknown rewrite ' + repr(desc))


def apply_path(state, path):
    for desc in path:
        state = apply(state, desc)
        if state is None:
            return None
    return state


def break_gaps(state, i, subset, variant_of=lambda k: 0):
    """Break line i at every gap index of `subset` (ascending) at once; variant_of(k) selects the BREAKS entry of the k-th break."""
    lines, aslist = state
    ln = lines[i]
    parts = []
    start = 0
    indent = ln[1]
    for k, g in enumerate(sorted(subset)):
        keep, nxt, after = BREAKS[variant_of(k)]
        parts.append(mk(False, indent, ln[2][start:g + 1], ln[3][start:g], ln[3][g] if keep else '', True, after, ln[7] or '\n', False))
        indent = nxt
        start = g + 1
    parts.append(mk(False, indent, ln[2][start:], ln[3][start:], ln[4], ln[5], ln[6], ln[7], ln[8]))
    new = list(lines)
    new[i:i + 1] = parts
    return (tuple(new), aslist)


def optional_gaps(state, i):
    """Gap indices of line i where whitespace is optional: the positions that have none now, and the whitespace runs
    gap_is_optional() allows to remove. Lines that belong to a continued logical line only offer the former (the statement
    kind of a part is not known from the part alone)."""
    lines = state[0]
    ln = lines[i]
    if ln[0]:
        return []
    empty = [g for g, ws in enumerate(ln[3]) if not ws]
    prev = next((lines[j] for j in range(i - 1, -1, -1) if not lines[j][0]), None)
    if ln[5] or (prev is not None and prev[5]):
        return empty
    return [g for g in range(len(ln[3])) if not ln[3][g] or gap_is_optional(ln[2], g)]


def assign_optional(state, i, chosen, blank_of=lambda k: ' '):
    """Line i with a blank at the optional gaps listed in `chosen` and no whitespace at all its other optional gaps."""
    lines, aslist = state
    ln = lines[i]
    gaps = list(ln[3])
    k = 0
    for g in optional_gaps(state, i):
        if g in chosen:
            gaps[g] = blank_of(k)
            k += 1
        else:
            gaps[g] = ''
    new = list(lines)
    new[i] = mk(ln[0], ln[1], ln[2], gaps, *ln[4:9])
    return (tuple(new), aslist)


def fill_gaps(state, i, subset, blank_of=lambda k: ' '):
    """Insert a blank at every (empty) gap index of `subset` of line i at once."""
    lines, aslist = state
    ln = lines[i]
    gaps = list(ln[3])
    for k, g in enumerate(sorted(subset)):
        if gaps[g]:
            raise ValueError('not an optional-blank position')
        gaps[g] = blank_of(k)
    new = list(lines)
    new[i] = mk(ln[0], ln[1], ln[2], gaps, *ln[4:9])
    return (tuple(new), aslist)


def chunking(state, assignment):
    """assignment[i] in {0: no cut, 1: cut keeping the line end, 2: cut dropping the line end} for every inner line boundary."""
    lines, _ = state
    new = list(lines)
    for i, a in enumerate(assignment):
        ln = lines[i]
        if a == 1:
            new[i] = mk(*ln[:7], ln[7], True)
        elif a == 2:
            new[i] = mk(*ln[:7], '', True)
    return (tuple(new), True)


# ---- corpus -------------------------------------------------------------------------------------------------------------

def _p(name, text, **kw):
    lines = text.strip('\n').split('\n')
    return (name, lines, kw)


HAND = [
    _p('assign', '''
a·=·1
b·=·a·+·2·*·3
c·=·(·a·-·b·)·/·4·%·5·**·2
'''),
    _p('logic', '''
t·=·a·<=·b·&&·c·!=·d·||·!·e
u·=·a·==·b·!=·c
v·=·x·-1
w·=·-·x·>=·-2.5e+3·+·10.
'''),
    _p('calls', '''
ff(·1·,·'two'·,·gg(·)·)
systemLog·(·"a, b)"·)
hh(x,y)
'''),
    _p('function', '''
function·add2(·a·,·b·)·:
····return·a·+·b
endfunction
r·=·add2(·1·,·2·)
'''),
    _p('function-rest', '''
function·many(·first·,·rest·...·)·:
····return·arrayLength(·rest·)
endfunction
function·only(args...):
endfunction
'''),
    _p('function-async', '''
async·function·fetchIt(·url·)·:
····data·=·systemFetch(·url·)
····return·data
endfunction
'''),
    _p('function-noargs', '''
function·noArgs()·:
····return
endfunction
noArgs()
'''),
    _p('if-elif-else', '''
if·x·>·1·:
····y·=·1
elif·x·==·'a:b'·:
····y·=·2
else·:
····y·=·3
endif
'''),
    _p('if-tab', '''
if·flag:
→z·=·0
endif
'''),
    _p('if-nested', '''
if·a·:
····if·b·:
········c·=·1
····else:
········c·=·2
····endif
endif
'''),
    _p('elif-chain', '''
if·k·==·1·:
····r·=·'one'
elif·k·==·2·:
····r·=·'two'
elif·k·==·3·:
····r·=·'three'
endif
'''),
    _p('while', '''
i·=·0
while·i·<·3·:
····i·=·i·+·1
endwhile
'''),
    _p('while-break-continue', '''
while·true·:
····if·aa·:
········break
····endif
····continue
endwhile
'''),
    _p('for', '''
for·v·in·arr·:
····systemLog(·v·)
endfor
'''),
    _p('for-index', '''
for·v·,·ix·in·arrayNew(·1·,·2·)·:
····if·ix·:
········continue
····endif
····break
endfor
'''),
    _p('for-colon-string', '''
for·ch·in·stringSplit(·'a:b'·,·':'·)·:
····nn·=·ch
endfor
'''),
    _p('return-top', '''
x·=·1
return·x·+·2
'''),
    _p('return-bare', '''
return
'''),
    _p('labels', '''
i·=·0
top·:
i·=·i·+·1
jumpif·(·i·<·3·)·top
jump·done
i·=·99
done:
'''),
    _p('jumpif-tight', '''
jumpif(i)·lbl
lbl:
jumpif·(·ff(·')'·)·&&·(·a·)·)·out
out·:
'''),
    _p('includes', '''
include·'lib.bare'
include·<args.bare>
include·'a b/it\\'s #1.bare'
x·=·1
include·<my dir/x y.bare>
'''),
    _p('include-one', '''
include·<unittest.bare>
unittestRunTest(·'tt'·)
'''),
    _p('strings', '''
s·=·'# not a comment'
t·=·"say \\"hi\\" # and 'x'"
u·=·'back\\\\slash \\' quote'
ff(·'#'·,·"#"·)
w·=·'ends with \\\\'
'''),
    _p('string-cond', '''
if·s·==·'x : # y'·:
····s·=·"a \\\\ b"
endif
'''),
    _p('brackets', '''
x·=·[a b]·+·[c\\]d]·*·[ e f ]
[my var]
ff(·[x y]·,·1·)
'''),
    _p('numbers', '''
n·=·1.5e+3·+·-2·-·+3·*·0.5
m·=·n·-·-·1
'''),
    _p('continued', '''
total·=·1·+·\\
········2·+·\\
····3
ff(·'a'·,·\\··
····'b'·)
'''),
    _p('continued-comment-inside', '''
val·=·gg(·\\
····# inside comment

····1·,·\\
····2·)
'''),
    _p('continued-if', '''
if·a·&&·\\
···b·:
····c·=·1
endif
'''),
    _p('continued-return', '''
function·msg()·:
····return·'done'·+·\\
········"!"
endfunction
'''),
    _p('crlf-native', '''
a·=·1
if·a·:
····b·=·'x'
endif
''', eol='\r\n'),
    _p('mixed-eol', '''
a·=·1
# note
b·=·ff(·a·,·\\
····2·)
return·b
''', eol='mixed'),
    _p('no-final-newline', '''
a·=·1
b·=·a·+·1
''', final=False),
    _p('comments', '''
# header

a·=·1
····# indented
b·=·2
#
'''),
    _p('function-loop-label', '''
function·loopy(·n·)·:
····for·k·in·arrayNew(·n·)·:
········jumpif·(·k·)·skip
········skip:
····endfor
endfunction
'''),
    _p('keyword-prefixes', '''
iffy·=·1
format·=·2
returned·=·iffy·+·format
jumper·=·3
includeX·=·4
whiley
endiffy·=·5
'''),
    _p('deep-groups', '''
r·=·ff(·gg(·hh(·1·)·,·(·2·)·)·,·!·(·a·||·b·)·)
'''),
    _p('function-while-return', '''
function·find(·arr·,·x·)·:
····ix·=·0
····while·ix·<·arrayLength(·arr·)·:
········if·arrayGet(·arr·,·ix·)·==·x·:
············return·ix
········endif
········ix·=·ix·+·1
····endwhile
····return·-1
endfunction
'''),
    _p('two-functions', '''
function·one()·:
····return·1
endfunction
async·function·two(·a·)·:
····return·one()·+·a
endfunction
'''),
    _p('odd-whitespace', '''
··a·=·1··
→b·=·2→
c··=→a·→+··b
'''),
    _p('single', '''
x·=·1
'''),
    _p('unary-chains', '''
q·=·!·!·a·&&·-·-·b
p·=·-·(·1·)
'''),
    _p('function-continued-body', '''
function·build(·a·)·:
····return·objectNew(·\\
········'k'·,·a·,·\\
········'#'·,·"it's"·\\
····)
endfunction
'''),
]

# whitespace other than blank and tab between tokens; characters that str.splitlines() takes for line boundaries but the
# documented splitter (LF / CRLF) does not, inside literals, names, include targets and comments
HAND += [
    _p('formfeed-gaps', '''
a↡=↡1↡+·2
if↡a↧:
↡b·=↧ff(↡a↡,↧'x y'↡)↧
endif↡
'''),
    _p('vtab-gaps', '''
function↧gg(↧p↡,↧q↡...↧)↧:
↧return↧p
endfunction
for↡v↧,↡i↧in↡gg(↡1↧)↡:
endfor
'''),
    _p('linebreak-chars-1', '''
s·=·'a\rb'
t·=·"x\x0by\x0cz"
ff(·'\x0c'·,·[n\x0bm]·)
return·s
'''),
    _p('linebreak-chars-2', '''
s·=·'a\x1cb\x1dc'
include·'p\x1eq'
u·=·"\x85"·+·'\x85\x85'
# c\x85d\x0ce
return·u
'''),
    _p('linebreak-chars-3', '''
s·=·'a\u2028b'
if·s·==·"\u2029"·:
····jump·end
endif
end:
'''),
    _p('linebreak-chars-continued', '''
msg·=·'l1\x0cl2'·+·\\
····"l3\u2028l4"·+·\\
····'l5\rl6'
'''),
    _p('cr-in-string-crlf', '''
s·=·'a\rb'
t·=·'\r'
include·<d\rir/x.bare>
''', eol='\r\n'),
]

# literals whose content a layout change must never touch: a real tab, several blanks, a trailing blank, '#', a backslash at the
# end - in assignments, call arguments and conditions, behind wide gaps (a break narrows them) and on continuation lines
HAND += [
    _p('tab-literals', '''
s·=·'a\tb'
ff(··'x\ty'·,→"\t"·)
if·s·==·'p\t\tq'·:
···t·=·'in\tdent'
endif
'''),
    _p('blank-literals', '''
s·=·'a   b '
u·=·' # '·+·'end\\\\'
while·ff(·'  '·,··"q \t"·)·:
→break
endwhile
'''),
    _p('tab-literal-continued', '''
msg·=·'one\ttwo'·+·\\
·'three\t'·+·\\
→'\tfour  '
return·gg(·msg·,·\\
···"\t#\t"·)
'''),
]

# generator-built: every statement wrapper x every expression template
_EXPRS = [
    ("ff(·a·,·'b c'·)·+·1", 'call'),
    ("!·x·||·y·<·-2·&&·[z w]·!=·\"#\"", 'ops'),
]
_WRAPPERS = [
    ('assign', ['res·=·{e}']),
    ('return', ['return·{e}']),
    ('if', ['if·{e}·:', '····aa·=·1', 'endif']),
    ('elif', ['if·bb·:', 'elif·{e}·:', '····aa·=·1', 'endif']),
    ('while', ['while·{e}·:', '····break', 'endwhile']),
    ('for', ['for·it·in·arrayNew(·{e}·)·:', 'endfor']),
    ('jumpif', ['jumpif·(·{e}·)·end', 'end:']),
    ('exprstmt', ['gg(·{e}·)']),
]


def corpus():
    """[(name, state)] - deterministic."""
    out = []
    for name, lines, kw in HAND:
        out.append((name, corpus_state(lines, **kw)))
    for wname, tmpl in _WRAPPERS:
        for etext, ename in _EXPRS:
            out.append((f'gen-{wname}-{ename}', corpus_state([t.replace('{e}', etext) for t in tmpl])))
    return out


# Texts for the statelessness family: valid and invalid scripts (str or list input)
INVALID_SCRIPTS = [
    'a = 1 +',
    'if x:\n    a = 1\n',
    'endif',
    'a = 1\nendwhile\n',
    'while x:\n  y = 1\nendfor\n',
    'function ff():\n  function gg():\n  endfunction\nendfunction\n',
    'function ff():\n  return 1\n',
    'break',
    'continue\n',
    'if a:\nelse:\nelse:\nendif',
    'if a:\nelse:\nelif b:\nendif',
    'x = (1 + 2',
    "s = 'unterminated",
    'a = 1\nb = 2 + \\',
    'ff(1 2)',
    'for x in :\nendfor',
    'jumpif (a +) lbl',
    'return 1 +',
    'a = 1\n\n   b = = 2\n',
    'endfunction',
    'for v in arr:\n  if v:\n endfor',
    'x = 1 + \\\n   # c\n',
]
INVALID_CHUNKED = [
    ['a = 1', 'b = (', 'c = 3'],
    ['if a:\n', 'b = 1\n'],
]

VALID_EXPRS = [
    '1', ' 1 + 2 * 3 ', 'a && b || c', "ff(1, 'x', gg())", '[a b] - 1', '-x ** 2', '!(a == b)', '"q\\"uote"', "'it\\'s'",
    '((1))', 'a <= b >= c', '1.5e+3 % 7', 'a - -1', 'ff ( )', 'x != null', "stringNew('#') + \"\\\\\"", 'aa(bb(cc(1)))', '1 / 2 / 3',
    'true', '  spaced  ',
]
INVALID_EXPRS = [
    '', ' ', '1 +', '+', '(1', '1)', 'ff(1,', 'ff(1 2)', "'abc", '"abc', '[abc', '1 2', 'a b', '* 3', 'ff(,)', '1e5', '&& a', 'a ||', '()', '#',
]

# Near-duplicates: texts that differ only inside a literal / a name / an include target / a comment (amount or kind of
# whitespace, letter case, quote style). A parser that keeps results keyed on a normalised text would confuse them.
NEAR_SCRIPTS = [
    "x = 'a  b'\n", "x = 'a b'\n", "x = 'a\tb'\n", "x = 'A b'\n", 'x = "a b"\n', "x = 'a\\\"b'\n", 'x = "a\\"b"\n',
    "y = 1\n# note one\n", "y = 1\n# note two\n", "y = 1\n# y = 2\n", "y = 1\ny = 2\n",
    "s = '# c1'\n", "s = '# c2'\n",
    "include 'a  b.bare'\n", "include 'a b.bare'\n", "include <a  b.bare>\n", "include <a b.bare>\n", "include <A b.bare>\n",
    "z = [p  q]\n", "z = [p q]\n", "z = [P q]\n",
    "if x == 'a  b':\n    r = 1\nendif\n", "if x == 'a b':\n    r = 1\nendif\n",
    "return 'x'  \n", "return 'x '\n", "return ' x'\n",
]
NEAR_CHUNKED = [
    ["x = 'a  b'"], ["x = 'a b'"], ["y = 1", "# y = 2"], ["y = 1", "y = 2"],
]
NEAR_EXPRS = [
    "'a  b'", "'a b'", "'a\tb'", "'A b'", '"a b"', "'a\\\"b'", '"a\\"b"', "[p  q]", "[p q]", "[P q]",
    "ff('a  b', 1)", "ff('a b', 1)", "ff ( 'a b' , 1 )", "FF('a b', 1)", "abc", "Abc", "' x'", "'x '", "'x'",
]


def normalised(text):
    """A deliberately lossy normal form (letter case, all whitespace, quote style, comment lines removed) - only used to
    count how many enumerated pairs are near-duplicates."""
    if isinstance(text, list):
        text = '\n'.join(text)
    lines = [ln for ln in text.split('\n') if not ln.strip().startswith('#')]
    return ''.join(''.join(lines).split()).lower().replace('"', "'")
