"""A-chain family: every nesting chain of the seven block constructs, with loop decorations, leaf variants,
two condition styles and three scopes (DESIGN 4/C01). A spec is JSON-able; build(spec) gives the AST body."""

import itertools

CONSTRUCTS = [('if', 0), ('ifelse', 0), ('ifelse', 1), ('ifelif', 0), ('ifelif', 1),
              ('ifelifelse', 0), ('ifelifelse', 1), ('ifelifelse', 2), ('while', 0), ('for', 0), ('fori', 0)]
LOOPS = ('while', 'for', 'fori')
STYLES = ('tape', 'counter')
SCOPES = ('global', 'func', 'inner')

CC = ('call', 'cc', [])


def build(spec):
    levels = [tuple(x) for x in spec['levels']]
    decos = spec['decos']
    leaf = spec['leaf']
    style = spec['style']
    scope = spec['scope']
    ctr = itertools.count(1)

    def log():
        return ('expr', ('call', 'systemLog', [('str', f'k{next(ctr)}')]))

    def leaf_body(d):
        out = [log()]
        if leaf == 1:
            out.append(('break',))
        elif leaf == 2:
            out.append(('continue',))
        elif leaf == 3:
            out.append(('return', ('str', f'r{d}')))
        return out

    def guards(deco):
        out = []
        if deco in (1, 3):
            out.append(('if', [(CC, [('break',)])], None))
        if deco in (2, 3):
            out.append(('if', [(CC, [('continue',)])], None))
        return out

    def inner(d):
        """Content of the chosen slot of level d-1 (or the whole program for d == 0)."""
        if scope == 'inner' and d == 1:
            return [('func', 'ff', [], False, level(1)), ('assign', 'rr', ('call', 'ff', []))]
        return level(d)

    def level(d):
        if d == len(levels):
            return leaf_body(d)
        ctype, slot = levels[d]
        pre = [log()]
        if ctype in ('if', 'ifelse', 'ifelif', 'ifelifelse'):
            nconds = 2 if ctype in ('ifelif', 'ifelifelse') else 1
            has_else = ctype in ('ifelse', 'ifelifelse')
            pairs = []
            for j in range(nconds):
                if j == slot:
                    pairs.append((('not', CC), [log()] + inner(d + 1) + [log()]))
                else:
                    pairs.append((CC, [log()]))
            else_body = None
            if has_else:
                else_body = ([log()] + inner(d + 1) + [log()]) if slot == nconds else [log()]
            stmt = ('if', pairs, else_body)
        elif ctype == 'while':
            if style == 'tape':
                stmt = ('while', CC, guards(decos[d]) + [log()] + inner(d + 1) + [log()])
            else:
                n = f'n{d}'
                pre.append(('assign', n, ('num', 0)))
                stmt = ('while', ('bin', '<', ('var', n), ('num', 2)),
                        [('assign', n, ('bin', '+', ('var', n), ('num', 1)))] + guards(decos[d]) + [log()] + inner(d + 1) + [log()])
        else:
            v = f'v{d}'
            i = f'i{d}' if ctype == 'fori' else None
            arr = ('call', 'pk', []) if style == 'tape' else ('call', 'arrayNew', [('num', 10), ('num', 20)])
            head = [('expr', ('call', 'systemLog', [('bin', '+', ('str', v + '='), ('var', v))]))]
            if i:
                head.append(('expr', ('call', 'systemLog', [('bin', '+', ('str', i + '='), ('var', i))])))
            stmt = ('for', v, i, arr, head + guards(decos[d]) + [log()] + inner(d + 1) + [log()])
        return pre + [stmt, log()]

    if scope == 'func':
        return [('func', 'ff', [], False, level(0)), log(), ('assign', 'rr', ('call', 'ff', [])), log()]
    return level(0)


def loops_in_scope(levels, scope):
    lv = levels[1:] if scope == 'inner' else levels
    return sum(1 for c, _ in lv if c in LOOPS)


def specs_for_chain(levels, deco_set=(0, 1, 2, 3), styles=STYLES, scopes=SCOPES):
    """All program specs for one chain of (construct, slot) levels - deterministic order, simplest first."""
    levels = [tuple(x) for x in levels]
    loop_pos = [d for d, (c, _) in enumerate(levels) if c in LOOPS]
    for scope in scopes:
        if scope == 'inner' and len(levels) < 1:
            continue
        nl = loops_in_scope(levels, scope)
        leaves = [0, 3] + ([1, 2] if nl else [])
        # decorations are only legal for loops in the same function as the guard: for 'inner', the level-0 loop is
        # outside the function but its own guards sit in its own body (global scope) -> still legal.
        for style in styles:
            for deco_combo in itertools.product(deco_set, repeat=len(loop_pos)):
                decos = [0] * len(levels)
                for p, dc in zip(loop_pos, deco_combo):
                    decos[p] = dc
                for leaf in sorted(leaves):
                    yield {'levels': [list(x) for x in levels], 'decos': decos, 'leaf': leaf, 'style': style, 'scope': scope}


def count_for_chain(levels, deco_set=(0, 1, 2, 3), styles=STYLES, scopes=SCOPES):
    levels = [tuple(x) for x in levels]
    nloops = sum(1 for c, _ in levels if c in LOOPS)
    total = 0
    for scope in scopes:
        nl = loops_in_scope(levels, scope)
        total += len(styles) * (len(deco_set) ** nloops) * (4 if nl else 2)
    return total


def chains(depth):
    return itertools.product(range(len(CONSTRUCTS)), repeat=depth)


def chain_levels(idx):
    return [list(CONSTRUCTS[i]) for i in idx]


# ---------------------------------------------------------------------------------------------------------------
# Branch-ending family: an if-chain inside a loop where EVERY branch independently ends in nothing / break /
# continue / return (so that e.g. all branches before the else leave the chain by a jump of their own).

ENDINGS = ('none', 'break', 'continue', 'return', 'empty', 'comment-only', 'nested-if', 'nested-while', 'nested-for')
BE_LOOPS = ('while', 'for', 'forc', 'while1', 'while1r')
BE_CONDS = ('cc', '1', '0')
BE_SHAPES = (('if', 1, False), ('ifelse', 1, True), ('ifelif', 2, False), ('ifelifelse', 2, True))
BE_SCOPES = ('global', 'func')
BE_WRAPS = ('plain', 'in-if', 'after-sibling-loop')
BE_TAILS = ('log', 'continue', 'break')


def branch_end_specs():
    out = []
    for loop in BE_LOOPS:
        for shape, nconds, has_else in BE_SHAPES:
            nb = nconds + (1 if has_else else 0)
            for ends in itertools.product(range(6), repeat=nb):
                for scope in BE_SCOPES:
                    for wrap in BE_WRAPS:
                        out.append({'loop': loop, 'shape': shape, 'ends': list(ends), 'scope': scope, 'wrap': wrap, 'cond0': 'cc', 'tail': 'log'})
            # the loop body ends in a bare continue / break (the last statement of the body): endings without 'empty' forms
            for ends in itertools.product(range(4), repeat=nb):
                for tail in BE_TAILS[1:]:
                    for scope in BE_SCOPES:
                        out.append({'loop': loop, 'shape': shape, 'ends': list(ends), 'scope': scope, 'wrap': 'plain', 'cond0': 'cc', 'tail': tail})
            # branch bodies ending in a nested construct (mixed with plain / break endings), plain surroundings
            for ends in itertools.product((0, 1, 6, 7, 8), repeat=nb):
                if not any(e >= 6 for e in ends):
                    continue
                for scope in BE_SCOPES:
                    out.append({'loop': loop, 'shape': shape, 'ends': list(ends), 'scope': scope, 'wrap': 'plain', 'cond0': 'cc', 'tail': 'log'})
            # literal first conditions (a parser may be tempted to special-case them): plain surroundings only
            for ends in itertools.product(range(4), repeat=nb):
                for cond0 in BE_CONDS[1:]:
                    out.append({'loop': loop, 'shape': shape, 'ends': list(ends), 'scope': 'global', 'wrap': 'plain', 'cond0': cond0})
    return out


def build_branch_end(spec):
    ctr = itertools.count(1)

    def log():
        return ('expr', ('call', 'systemLog', [('str', f'k{next(ctr)}')]))

    def ending(e):
        kind = ENDINGS[e]
        if kind == 'break':
            return [('break',)]
        if kind == 'continue':
            return [('continue',)]
        if kind == 'return':
            return [('return', ('str', 'ret'))]
        # the branch body ENDS in a nested construct (its closing keyword is directly followed by elif/else/endif)
        if kind == 'nested-if':
            return [('if', [(CC, [log()])], None)]
        if kind == 'nested-while':
            return [('while', CC, [log()])]
        if kind == 'nested-for':
            return [('for', 'w2', None, ('call', 'arrayNew', [('num', 1)]), [log()])]
        return []

    def branch(e):
        kind = ENDINGS[e]
        if kind == 'empty':
            return []
        if kind == 'comment-only':
            return [('comment', 'nothing to do')]
        return [log()] + ending(e)

    shape, nconds, has_else = next(x for x in BE_SHAPES if x[0] == spec['shape'])
    ends = spec['ends']
    cond0 = {'cc': CC, '1': ('num', 1), '0': ('num', 0)}[spec.get('cond0', 'cc')]
    pairs = [(cond0 if j == 0 else CC, branch(ends[j])) for j in range(nconds)]
    else_body = branch(ends[nconds]) if has_else else None
    chain = ('if', pairs, else_body)
    tail = spec.get('tail', 'log')
    inner = [log(), chain] + ([log()] if tail == 'log' else [(tail,)])
    if spec['wrap'] == 'in-if':
        inner = [log(), ('if', [(('not', CC), inner)], [log()]), log()]
    if spec['loop'] == 'while':
        loop = [('while', CC, inner)]
    elif spec['loop'] == 'while1r':
        # a literal loop condition and NO break bound to this loop unless a branch ending supplies one: left by return
        loop = [('assign', 'n1', ('num', 0)),
                ('while', ('num', 1), [('assign', 'n1', ('bin', '+', ('var', 'n1'), ('num', 1))),
                                       ('if', [(('bin', '<', ('num', 2), ('var', 'n1')), [('return', ('str', 'out'))])], None)] + inner)]
    elif spec['loop'] == 'while1':
        # a literal loop condition; the body counts its rounds and leaves by break
        loop = [('assign', 'n1', ('num', 0)),
                ('while', ('num', 1), [('assign', 'n1', ('bin', '+', ('var', 'n1'), ('num', 1))),
                                       ('if', [(('bin', '<', ('num', 2), ('var', 'n1')), [('break',)])], None)] + inner)]
    elif spec['loop'] == 'for':
        loop = [('for', 'v', 'i', ('call', 'pk', []), inner)]
    else:
        loop = [('assign', 'n0', ('num', 0)), ('while', ('bin', '<', ('var', 'n0'), ('num', 3)), [('assign', 'n0', ('bin', '+', ('var', 'n0'), ('num', 1)))] + inner)]
    body = [log()]
    if spec['wrap'] == 'after-sibling-loop':
        body += [('for', 'w', None, ('call', 'arrayNew', [('num', 1)]), [('if', [(CC, [('continue',)])], None), log()])]
    body += loop + [log()]
    if spec['scope'] == 'func':
        return [('func', 'ff', [], False, body), ('assign', 'rr', ('call', 'ff', [])), log()]
    return body


# ---------------------------------------------------------------- a complete inner loop next to the outer loop's own break / continue

LT_OUTER = ('for', 'while')
LT_INNER = ('for', 'while', 'for+continue', 'while+break', 'for-in-if', 'for-in-for')
LT_EXIT = ('continue', 'break')
LT_PLACE = ('before', 'after', 'both', 'after-bare')
LT_SCOPE = ('global', 'func')


def loop_tail_specs():
    return [{'outer': o, 'inner': i, 'exit': e, 'place': p, 'scope': sc}
            for o in LT_OUTER for i in LT_INNER for e in LT_EXIT for p in LT_PLACE for sc in LT_SCOPE]


def build_loop_tail(spec):
    """The outer loop's own continue / break placed before and/or after a COMPLETE nested loop of its body."""
    log = lambda t: ('expr', ('call', 'systemLog', [('str', t)]))  # noqa: E731
    cc = ('call', 'cc', [])
    kind = spec['inner']
    if kind == 'for':
        inner = [('for', 'u', None, ('call', 'pk', []), [log('i1')])]
    elif kind == 'while':
        inner = [('while', cc, [log('i1')])]
    elif kind == 'for+continue':
        inner = [('for', 'u', 'ui', ('call', 'pk', []), [('if', [(cc, [('continue',)])], None), log('i1')])]
    elif kind == 'while+break':
        inner = [('while', cc, [log('i1'), ('if', [(cc, [('break',)])], None), log('i2')])]
    elif kind == 'for-in-if':
        inner = [('if', [(cc, [('for', 'u', None, ('call', 'pk', []), [log('i1')])])], [log('ie')])]
    else:
        inner = [('for', 'u', None, ('call', 'pk', []), [('for', 't', None, ('call', 'arrayNew', [('num', 1)]), [('if', [(cc, [('continue',)])], None), log('i0')]), log('i1')])]
    ex = (spec['exit'],)
    guarded = lambda: ('if', [(cc, [ex])], None)  # noqa: E731
    body = [log('o1')]
    if spec['place'] in ('before', 'both'):
        body.append(guarded())
    body.extend(inner)
    body.append(log('o2'))
    if spec['place'] in ('after', 'both'):
        body.extend([guarded(), log('o3')])
    elif spec['place'] == 'after-bare':
        body.append(ex)
    if spec['outer'] == 'for':
        loop = ('for', 'v', None, ('call', 'pk', []), body)
    else:
        loop = ('while', cc, body)
    prog = [log('start'), loop, log('end')]
    if spec['scope'] == 'func':
        return [('func', 'ff', [], False, prog + [('return', ('str', 'done'))]), ('assign', 'rr', ('call', 'ff', [])), log('after')]
    return prog
