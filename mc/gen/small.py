"""A-small family: every program with exactly n statement nodes over the statement alphabet

  L  systemLog('<unique>')          A  x = x + 1             R  return        Rx return x
  B  break (inside a loop)          C  continue (inside a loop)
  I  if cc(): <body> endif          E  if cc(): <body> else: <body> endif
  W  while cc(): <body> endwhile    F  for v in pk(): <body> endfor   (body is preceded by a log of v)
  D  function ff(): <body> endfunction, immediately followed by  rr = ff()   (top level only, not nested)

A body holds 1..2 statements, the top level any number. Programs are nested lists (JSON-able); decode() gives the AST.
"""

import functools
import itertools

LEAVES = ('L', 'A', 'R', 'Rx')
LOOP_LEAVES = ('B', 'C')


def stmts(n, in_loop, in_func, top):
    """Yield every statement with exactly n nodes."""
    if n == 1:
        for k in LEAVES:
            yield [k]
        if in_loop:
            for k in LOOP_LEAVES:
                yield [k]
        return
    for b in bodies(n - 1, in_loop, in_func):
        yield ['I', b]
    for b in bodies(n - 1, True, in_func):
        yield ['W', b]
    for b in bodies(n - 1, True, in_func):
        yield ['F', b]
    for k in range(1, n - 1):
        for b1 in bodies(k, in_loop, in_func):
            for b2 in bodies(n - 1 - k, in_loop, in_func):
                yield ['E', b1, b2]
    if top and not in_func:
        for b in bodies(n - 1, False, True):
            yield ['D', b]


def bodies(n, in_loop, in_func):
    """Yield every body (1..2 statements) with exactly n nodes."""
    for s in stmts(n, in_loop, in_func, False):
        yield [s]
    for k in range(1, n):
        for s1 in stmts(k, in_loop, in_func, False):
            for s2 in stmts(n - k, in_loop, in_func, False):
                yield [s1, s2]


@functools.lru_cache(maxsize=None)
def n_stmts(n, in_loop, in_func, top):
    if n == 1:
        return len(LEAVES) + (len(LOOP_LEAVES) if in_loop else 0)
    total = n_bodies(n - 1, in_loop, in_func) + 2 * n_bodies(n - 1, True, in_func)
    for k in range(1, n - 1):
        total += n_bodies(k, in_loop, in_func) * n_bodies(n - 1 - k, in_loop, in_func)
    if top and not in_func:
        total += n_bodies(n - 1, False, True)
    return total


@functools.lru_cache(maxsize=None)
def n_bodies(n, in_loop, in_func):
    total = n_stmts(n, in_loop, in_func, False)
    for k in range(1, n):
        total += n_stmts(k, in_loop, in_func, False) * n_stmts(n - k, in_loop, in_func, False)
    return total


def tops(n):
    """Yield every top-level statement list with exactly n nodes."""
    if n == 0:
        yield []
        return
    for k in range(1, n + 1):
        for s in stmts(k, False, False, True):
            for rest in tops(n - k):
                yield [s] + rest


@functools.lru_cache(maxsize=None)
def n_tops(n):
    if n == 0:
        return 1
    return sum(n_stmts(k, False, False, True) * n_tops(n - k) for k in range(1, n + 1))


def count(n):
    return n_tops(n)


FORMS = ('L', 'A', 'R', 'Rx', 'I', 'W', 'F', 'E', 'D')


def first_choices(n):
    """Shard keys: (size of the first top-level statement, its form)."""
    out = []
    for k in range(1, n + 1):
        forms = LEAVES if k == 1 else (('I', 'W', 'F', 'D') + (('E',) if k >= 3 else ()))
        for f in forms:
            out.append([k, f])
    return out


def programs(n, first):
    k, form = first
    for s in stmts(k, False, False, True):
        if s[0] != form:
            continue
        for rest in tops(n - k):
            yield [s] + rest


def decode(prog):
    """Nested-list program -> AST body (mc/gen/ast.py)."""
    ctr = itertools.count(1)
    cc = ('call', 'cc', [])

    def log(text=None):
        return ('expr', ('call', 'systemLog', [('str', text or f'k{next(ctr)}')]))

    def stmt(s):
        k = s[0]
        if k == 'L':
            return [log()]
        if k == 'A':
            return [('assign', 'x', ('bin', '+', ('var', 'x'), ('num', 1)))]
        if k == 'R':
            return [('return', None)]
        if k == 'Rx':
            return [('return', ('var', 'x'))]
        if k == 'B':
            return [('break',)]
        if k == 'C':
            return [('continue',)]
        if k == 'I':
            return [('if', [(cc, body(s[1]))], None)]
        if k == 'E':
            return [('if', [(cc, body(s[1]))], body(s[2]))]
        if k == 'W':
            return [('while', cc, body(s[1]))]
        if k == 'F':
            return [('for', 'v', None, ('call', 'pk', []),
                     [('expr', ('call', 'systemLog', [('bin', '+', ('str', 'v='), ('var', 'v'))]))] + body(s[1]))]
        if k == 'D':
            return [('func', 'ff', [], False, [('assign', 'x', ('num', 5))] + body(s[1])),
                    ('assign', 'rr', ('call', 'ff', []))]
        raise ValueError(k)

    def body(b):
        out = []
        for s in b:
            out.extend(stmt(s))
        return out

    return [('assign', 'x', ('num', 0))] + body(prog) + [log('end'), ('return', ('var', 'x'))]
