"""Value pools shared by several properties. Every pool is a deterministic list; entries are (label, value)."""

import datetime
import re


def host_fn_a(args, options):  # pylint: disable=unused-argument
    return 1


def host_fn_b(args, options):  # pylint: disable=unused-argument
    return 2


RE_A = re.compile('a')
RE_B = re.compile('b+', re.I)

TZ_P2 = datetime.timezone(datetime.timedelta(hours=2))
TZ_M5 = datetime.timezone(datetime.timedelta(hours=-5))


def leaves_full():
    """Leaf values of all nine types (labels are stable identifiers used in replay files)."""
    return [
        ('null', None),
        ('false', False),
        ('true', True),
        ('0', 0),
        ('-0.0', -0.0),
        ('1', 1),
        ('1.0', 1.0),
        ('-1', -1),
        ('0.5', 0.5),
        ('2', 2),
        ('2^53', 2 ** 53),
        ('2^53+1', 2 ** 53 + 1),
        ('2^53f', float(2 ** 53)),
        ('2^53+2f', float(2 ** 53 + 2)),
        ('-2^53-1', -(2 ** 53) - 1),
        ('-2^53f', -float(2 ** 53)),
        ('1e300', 1e300),
        ("''", ''),
        ("'a'", 'a'),
        ("'b'", 'b'),
        ("'ab'", 'ab'),
        ("'A'", 'A'),
        ("'1'", '1'),
        ('date', datetime.date(2024, 3, 10)),
        ('dt0', datetime.datetime(2024, 3, 10)),
        ('dt0+1ms', datetime.datetime(2024, 3, 10, 0, 0, 0, 1000)),
        ('dt-aware+2', datetime.datetime(2024, 3, 10, 2, 0, 0, tzinfo=TZ_P2)),
        ('dt-aware-5', datetime.datetime(2024, 3, 9, 19, 0, 0, tzinfo=TZ_M5)),
        ('dt-later', datetime.datetime(2025, 1, 1, 12, 30)),
        ('dt0+400us', datetime.datetime(2024, 3, 10, 0, 0, 0, 400)),
        ('dt0+800us', datetime.datetime(2024, 3, 10, 0, 0, 0, 800)),
        ('fnA', host_fn_a),
        ('fnB', host_fn_b),
        ('reA', RE_A),
        ('reB', RE_B),
    ]


def closed_pool(leaves, small, depth2=True, arr_len=2, keys=('a', 'b')):
    """leaves plus arrays of length <= arr_len and objects over `keys` with members from `small`, plus (depth2)
    arrays/objects whose members are the depth-1 containers over a reduced set."""
    pool = list(leaves)
    d1 = []
    # arrays
    d1.append(('[]', []))
    for la, a in small:
        d1.append((f'[{la}]', [a]))
    if arr_len >= 2:
        for la, a in small:
            for lb, b in small:
                d1.append((f'[{la},{lb}]', [a, b]))
    # objects
    d1.append(('{}', {}))
    for k in keys:
        for la, a in small:
            d1.append((f'{{{k}:{la}}}', {k: a}))
    if len(keys) >= 2:
        k1, k2 = keys[0], keys[1]
        for la, a in small:
            for lb, b in small:
                d1.append((f'{{{k1}:{la},{k2}:{lb}}}', {k1: a, k2: b}))
        # the same objects built in the opposite insertion order: key order must not matter to any consumer
        for la, a in small:
            for lb, b in small:
                d1.append((f'{{{k2}:{lb},{k1}:{la}}}rev', {k2: b, k1: a}))
    pool.extend(d1)
    if depth2:
        # a container at one index and a scalar at another (both orders): element-wise order must look at index 0 first
        for lc, c in (('[0]', [0]), ('[1]', [1]), ('{a:0}', {'a': 0}), ('{a:1}', {'a': 1})):
            for lsv, sv in (('0', 0), ('1', 1)):
                pool.append((f'[{lc},{lsv}]', [c, sv]))
                pool.append((f'[{lsv},{lc}]', [sv, c]))
        inner = [d1[0]] + [x for x in d1 if x[0] in (f'[{small[0][0]}]', f'[{small[-1][0]}]', '{}', f'{{{keys[0]}:{small[-1][0]}}}')]
        for la, a in inner:
            pool.append((f'[{la}]', [a]))
            pool.append((f'{{{keys[0]}:{la}}}', {keys[0]: a}))
            for lb, b in inner:
                pool.append((f'[{la},{lb}]', [a, b]))
    return pool
