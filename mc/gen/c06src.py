"""Source-text generators for C06: a mutation lexer, the single-token mutations, the corpus of small valid programs with
one unique number literal per statement line, the keyword-line alphabet and the token-soup vocabulary.

Nothing here is an oracle: the lexer only decides *where* a text is mutated; any tokenisation gives a valid (deterministic,
exhaustive) family of mutants.
"""

import os
import re

from ..common import REPO_DIR

# ---------------------------------------------------------------------------------------------------------------------
# (a) keyword lines

KEYWORD_LINES = [
    ('if', 'if cc():'), ('elif', 'elif cc():'), ('else', 'else:'), ('endif', 'endif'),
    ('while', 'while cc():'), ('endwhile', 'endwhile'), ('for', 'for v in pk():'), ('endfor', 'endfor'),
    ('function', 'function ff():'), ('endfunction', 'endfunction'), ('break', 'break'), ('continue', 'continue'),
    ('other', 'vv()'),
]

# ---------------------------------------------------------------------------------------------------------------------
# (b) token soup vocabulary (statement + expression vocabulary)

VOCAB = [
    'if', 'elif', 'else', 'endif', 'while', 'endwhile', 'for', 'in', 'endfor', 'function', 'endfunction', 'break', 'continue',
    'return', 'jump', 'jumpif', 'include', 'async',
    ':', '=', '(', ')', ',', '...', '\\', '#',
    'xx', '1', "'s'", '<x>',
    '+', '-', '!',
]

# ---------------------------------------------------------------------------------------------------------------------
# mutation lexer

TOKEN_RE = re.compile(
    r"'(?:\\.|[^'\\])*'"
    r'|"(?:\\.|[^"\\])*"'
    r'|[A-Za-z_]\w*'
    r'|\d+(?:\.\d*)?(?:e[+-]\d+)?'
    r'|\*\*|<=|>=|==|!=|&&|\|\||\.\.\.'
    r'|\S'
)


def lex(line):
    """-> list of (start, end) spans of the tokens of one physical line."""
    return [m.span() for m in TOKEN_RE.finditer(line)]


def number_tokens(line):
    return {line[a:b] for a, b in lex(line) if line[a].isdigit()}


def mutate_line(line, spans, op, i):
    """op in 'del' (delete token i), 'dup' (duplicate token i), 'swap' (swap tokens i and i+1)."""
    a, b = spans[i]
    if op == 'del':
        return line[:a] + line[b:]
    if op == 'dup':
        return line[:b] + ' ' + line[a:b] + line[b:]
    c, d = spans[i + 1]
    return line[:a] + line[c:d] + line[b:c] + line[a:b] + line[d:]


def line_mutations(line, every_token=True, salt=0):
    """All single-token mutations of a physical line: [(op, i)]. With every_token False: the three mutations of ONE token,
    chosen by position (salt) - a stated sub-family, not a sample."""
    spans = lex(line)
    n = len(spans)
    if n == 0:
        return spans, []
    if every_token:
        ops = [('del', i) for i in range(n)] + [('dup', i) for i in range(n)] + [('swap', i) for i in range(n - 1)]
    else:
        i = salt % n
        ops = [('del', i), ('dup', i)]
        if i + 1 < n:
            ops.append(('swap', i))
        elif n >= 2:
            ops.append(('swap', i - 1))
    return spans, ops


# ---------------------------------------------------------------------------------------------------------------------
# (c) corpus of valid programs

CONTAINERS = ('function', 'if', 'ifelse', 'while', 'for')


class _Builder:
    def __init__(self):
        self.lit = 1000
        self.count = 0
        self.lines = []

    def literal(self):
        self.lit += 1
        return str(self.lit)

    def emit(self, ind, text):
        self.lines.append(ind + text)

    def simple(self, ind, in_function):
        """One simple statement (possibly spread over several physical lines), kind rotating with a counter."""
        k = self.count
        self.count += 1
        kind = k % 9
        if kind == 0:
            self.emit(ind, f'va{k} = {self.literal()}')
        elif kind == 1:
            self.emit(ind, f'vv({self.literal()})')
        elif kind == 2:
            self.emit(ind, f'vb{k} = aa + {self.literal()} * (bb - cc())')
        elif kind == 3:
            self.emit(ind, f"ff2({self.literal()}, 'st # x', xx, \"q\\\"q\")")
        elif kind == 4:
            self.emit(ind, f'jumpif (cc({self.literal()})) lb{k}')
            self.emit(ind, f'vv({self.literal()})')
            self.emit(ind, f'lb{k}:')
        elif kind == 5:
            self.emit(ind, f'vc{k} = arrayNew( \\')
            self.emit(ind, f'    {self.literal()}, \\')
            self.emit(ind, f"    '{k}', {self.literal()} \\")
            self.emit(ind, ')')
        elif kind == 6:
            if in_function:
                self.emit(ind, f'return {self.literal()} + aa')
            else:
                self.emit(ind, f'vd{k} = !{self.literal()} && [a b]')
        elif kind == 7:
            self.emit(ind, "include 'inc.bare'")
            self.emit(ind, 'include <sys.bare>')
            self.emit(ind, f'vv({self.literal()}) \\')
            self.emit(ind, f'  + {self.literal()}')
        else:
            self.emit(ind, f'jump lc{k}')
            self.emit(ind, f'lc{k}:')
            self.emit(ind, f've{k} = -{self.literal()} ** 2 <= xx')

    def block(self, chain, ind, in_loop, in_function):
        self.simple(ind, in_function)
        sub = ind + '    '
        if chain:
            kind, rest = chain[0], chain[1:]
            k = self.count
            if kind == 'function':
                self.emit(ind, f'function fn{k}(aa, bb):' if k % 2 else f'async function fn{k}(aa, bb...):')
                self.block(rest, sub, False, True)
                self.emit(ind, 'endfunction')
            elif kind == 'if':
                self.emit(ind, f'if cc({self.literal()}):')
                self.block(rest, sub, in_loop, in_function)
                self.emit(ind, 'endif')
            elif kind == 'ifelse':
                self.emit(ind, f'if cc({self.literal()}) == 1:')
                self.block(rest, sub, in_loop, in_function)
                self.emit(ind, f'elif cc({self.literal()}):')
                self.simple(sub, in_function)
                self.emit(ind, 'else:')
                self.simple(sub, in_function)
                self.emit(ind, 'endif')
            elif kind == 'while':
                self.emit(ind, f'while cc({self.literal()}):')
                self.block(rest, sub, True, in_function)
                self.emit(ind, 'endwhile')
            else:
                self.emit(ind, f'for it{k}, ix{k} in pk({self.literal()}):' if k % 2 else f'for it{k} in pk({self.literal()}):')
                self.block(rest, sub, True, in_function)
                self.emit(ind, 'endfor')
        elif in_loop:
            self.emit(ind, f'if cc({self.literal()}):')
            self.emit(sub, 'break')
            self.emit(ind, 'else:')
            self.emit(sub, 'continue')
            self.emit(ind, 'endif')
        self.simple(ind, in_function)


def chains(max_depth):
    out = []
    level = [(c,) for c in CONTAINERS]
    for _ in range(max_depth):
        out.extend(level)
        level = [ch + (c,) for ch in level for c in CONTAINERS[1:]]
    return out


_CORPUS = {}


def corpus(max_depth):
    """-> list of (label, [physical lines]). Deterministic; program i is built from nesting chain i, the statement-kind
    rotation starts at i so that every statement kind meets every position."""
    if max_depth not in _CORPUS:
        progs = []
        for i, chain in enumerate(chains(max_depth)):
            b = _Builder()
            b.count = i
            b.block(chain, '', False, False)
            progs.append(('>'.join(chain), b.lines))
        _CORPUS[max_depth] = progs
    return _CORPUS[max_depth]


_SHIPPED = {}


def shipped():
    """-> list of (file name, [physical lines]) for the include files shipped with the library under test."""
    root = os.path.join(REPO_DIR, 'src', 'bare_script', 'include')
    if root not in _SHIPPED:
        out = []
        for name in sorted(os.listdir(root)):
            if name.endswith('.bare'):
                with open(os.path.join(root, name), encoding='utf-8') as fh:
                    text = fh.read()
                lines = text.split('\n')
                if lines and lines[-1] == '':
                    lines.pop()
                out.append((name, [ln[:-1] if ln.endswith('\r') else ln for ln in lines]))
        _SHIPPED[root] = out
    return _SHIPPED[root]
