"""Deterministic enumerators for the expression properties C02 (texts) and C03 (operand pools, effect trees).

Nothing here samples: every generator walks an explicitly described finite set in a fixed order.
"""

import datetime
import itertools
import re

# ---------------------------------------------------------------------------------------------------------------------
# C02: operators, chains, operand decorations

OPS14 = ['**', '*', '/', '%', '+', '-', '<=', '<', '>=', '>', '==', '!=', '&&', '||']

# One or two representatives per precedence level, tightest first. Family (b) uses column (position % 2), so that
# neighbouring operators of one level are different operators where the level has two.
LEVEL_REPS = [('**', '**'), ('*', '/'), ('+', '-'), ('<', '>='), ('==', '!='), ('&&', '&&'), ('||', '||')]
LEVEL_OPS7 = [r[0] for r in LEVEL_REPS]

OPERANDS = ['a', 'b', 'c', 'd', 'x', 'y', 'z', 'w', 'u']


def chain_text(ops, operands=None, sep=' '):
    operands = operands or OPERANDS
    parts = [operands[0]]
    for i, op in enumerate(ops):
        parts.append(op)
        parts.append(operands[i + 1])
    return sep.join(parts)


def chains(alphabet_size, prefix, min_len, max_len):
    """Every index tuple over range(alphabet_size) that starts with `prefix`, of length min_len..max_len, shortest first."""
    for n in range(max(min_len, len(prefix)), max_len + 1):
        for rest in itertools.product(range(alphabet_size), repeat=n - len(prefix)):
            yield tuple(prefix) + rest


SHORT = 3


def chain_units(alphabet_size):
    """Work units, simplest first: ['s', k] all sequences of length k (k < SHORT); ['s', SHORT, i] those of length SHORT
    starting with i; ['l', i, j] all longer sequences starting with i, j."""
    units = [['s', k] for k in range(1, SHORT)]
    units += [['s', SHORT, i] for i in range(alphabet_size)]
    units += [['l', i, j] for i in range(alphabet_size) for j in range(alphabet_size)]
    return units


def unit_chains(alphabet_size, unit, max_len):
    if unit[0] == 's':
        k = unit[1]
        if k > max_len:
            return iter(())
        return chains(alphabet_size, tuple(unit[2:]), k, k)
    return chains(alphabet_size, (unit[1], unit[2]), SHORT + 1, max_len)


# Operand decorations: name -> template. {v} the plain operand, {L}/{R} the operator left/right of the position (the
# nearest one at the ends of the chain). Structural ones change the *kind* of node the chain parser sees as an operand
# (unary, group, call); lexical ones exercise the token classes.
DECORATIONS = [
    ('not', '!{v}'),
    ('neg', '-{v}'),
    ('not-neg', '!-{v}'),
    ('neg-neg', '--{v}'),
    ('group-chain', '(p {R} q {L} r)'),
    ('neg-group', '-(p {L} q)'),
    ('call-chains', 'fn(p {R} q, r {L} s)'),
    ('not-call0', '!fn()'),
    ('bracket-name', '[a b]'),
    ('bracket-escape', '[a\\]b]'),
    ('string', "'s t'"),
    ('string-dq-escape', '"q\\"r"'),
    ('string-sq-escape', "'it\\'s \\\\'"),
    ('number-fraction', '2.5'),
    ('number-exponent', '1e+3'),
    ('number-plus', '+7'),
    ('number-minus', '-7'),
]


def decorated_chain_text(ops, pos, deco_index):
    """The spaced chain with operand `pos` replaced by decoration `deco_index`."""
    template = DECORATIONS[deco_index][1]
    left_op = ops[pos - 1] if pos > 0 else ops[0]
    right_op = ops[pos] if pos < len(ops) else ops[-1]
    frag = template.format(v=OPERANDS[pos], L=left_op, R=right_op)
    operands = list(OPERANDS)
    operands[pos] = frag
    return chain_text(ops, operands)


# ---------------------------------------------------------------------------------------------------------------------
# C02: expression trees, printed with minimal and with full parentheses

# Node labels: (label, arity). Binary operators: one per precedence level.
TREE_LABELS = [('bin:' + op, 2) for op in LEVEL_OPS7] + [('call2', 2), ('un:!', 1), ('un:-', 1), ('group', 1), ('call1', 1)]
TREE_LEVEL = {op: 7 - i for i, op in enumerate(LEVEL_OPS7)}     # '**' -> 7 ... '||' -> 1
CACHE_MAX = 2
CHUNK = 624

ATOM, UNARY = 9, 8     # node classes; binary nodes use their level 1..7


class Rec:
    """One enumerated tree: its model, and its two printed forms with the model each text must parse to (the tree with
    a 'group' node wherever the printer emitted a pair of parentheses that is not already a 'group' node of the tree)."""
    __slots__ = ('model', 'cls', 'tmin', 'emin', 'tfull', 'efull', 'added')

    def __init__(self, model, cls, tmin, emin, tfull, efull, added):
        self.model, self.cls, self.tmin, self.emin, self.tfull, self.efull, self.added = model, cls, tmin, emin, tfull, efull, added


LEAVES = [
    Rec({'variable': 'a'}, ATOM, 'a', {'variable': 'a'}, 'a', {'variable': 'a'}, 0),
    Rec({'number': 1.0}, ATOM, '1', {'number': 1.0}, '1', {'number': 1.0}, 0),
    Rec({'string': 's'}, ATOM, "'s'", {'string': 's'}, "'s'", {'string': 's'}, 0),
]


def _wrap_min(child, need):
    if need:
        return '(' + child.tmin + ')', {'group': child.emin}, 1
    return child.tmin, child.emin, 0


def _wrap_full(child):
    if child.cls != ATOM:
        return '(' + child.tfull + ')', {'group': child.efull}
    return child.tfull, child.efull


def compose(label, kids):
    """Build the record of the node `label` over child records (printing rules: see notes/C02.md)."""
    if label.startswith('bin:'):
        op = label[4:]
        lvl = TREE_LEVEL[op]
        left, right = kids
        # minimal: the left operand needs parentheses iff it is a binary node of a LOWER level (same level associates
        # to the left), the right operand iff it is a binary node of the same or a lower level. Unary operands never do
        # (unary binds tighter than any binary operator).
        lt, le, la = _wrap_min(left, left.cls < lvl)
        rt, rexp, ra = _wrap_min(right, right.cls <= lvl)
        flt, fle = _wrap_full(left)
        frt, fre = _wrap_full(right)
        return Rec({'binary': {'op': op, 'left': left.model, 'right': right.model}}, lvl,
                   f'{lt} {op} {rt}', {'binary': {'op': op, 'left': le, 'right': rexp}},
                   f'{flt} {op} {frt}', {'binary': {'op': op, 'left': fle, 'right': fre}}, left.added + right.added + la + ra)
    if label.startswith('un:'):
        op = label[3:]
        kid, = kids
        # minimal: the operand of a unary operator needs parentheses iff it is a binary node
        kt, ke, ka = _wrap_min(kid, kid.cls <= 7)
        fkt, fke = _wrap_full(kid)
        return Rec({'unary': {'op': op, 'expr': kid.model}}, UNARY,
                   op + kt, {'unary': {'op': op, 'expr': ke}}, op + fkt, {'unary': {'op': op, 'expr': fke}}, kid.added + ka)
    if label == 'group':
        kid, = kids
        return Rec({'group': kid.model}, ATOM, '(' + kid.tmin + ')', {'group': kid.emin},
                   '(' + kid.tfull + ')', {'group': kid.efull}, kid.added)
    # calls: arguments never need parentheses; the full style parenthesises operator arguments
    full = [_wrap_full(k) for k in kids]
    return Rec({'function': {'name': 'fn', 'args': [k.model for k in kids]}}, ATOM,
               'fn(' + ', '.join(k.tmin for k in kids) + ')', {'function': {'name': 'fn', 'args': [k.emin for k in kids]}},
               'fn(' + ', '.join(t for t, _ in full) + ')', {'function': {'name': 'fn', 'args': [e for _, e in full]}},
               sum(k.added for k in kids))


def compositions(total, parts):
    """Ordered tuples of `parts` non-negative sizes adding up to `total`."""
    if parts == 1:
        return [(total,)]
    return [(first,) + rest for first in range(total + 1) for rest in compositions(total - first, parts - 1)]


_TREE_CACHE = {}


def tree_list(n):
    """All records with exactly n internal nodes, as a list (n <= CACHE_MAX only)."""
    if n not in _TREE_CACHE:
        if n == 0:
            _TREE_CACHE[n] = list(LEAVES)
        else:
            _TREE_CACHE[n] = [rec for label, split in root_units(n) for rec in gen_root(label, split)]
    return _TREE_CACHE[n]


def root_units(n):
    return [(label, split) for label, arity in TREE_LABELS for split in compositions(n - 1, arity)]


def gen_trees(n):
    if n <= CACHE_MAX:
        yield from tree_list(n)
    else:
        for label, split in root_units(n):
            yield from gen_root(label, split)


def _big(split):
    return max(range(len(split)), key=lambda p: (split[p], -p))


def gen_root(label, split, big_iter=None):
    """Records of all trees with root `label` whose children have `split` internal nodes. The largest child is the outer
    loop (optionally restricted to `big_iter`); the other children come from the cached lists."""
    big = _big(split)
    outer = big_iter if big_iter is not None else gen_trees(split[big])
    if len(split) == 1:
        for kid in outer:
            yield compose(label, (kid,))
        return
    other = 1 - big
    inner = tree_list(split[other])
    if big == 0:
        for kid in outer:
            for kid2 in inner:
                yield compose(label, (kid, kid2))
    else:
        for kid in outer:
            for kid2 in inner:
                yield compose(label, (kid2, kid))


def tree_units(n):
    """Deterministic partition of the trees with n internal nodes into work units (JSON-able descriptors)."""
    if n <= CACHE_MAX:
        return [['all', n]]
    units = []
    for label, split in root_units(n):
        big = _big(split)
        size = split[big]
        if size > CACHE_MAX:
            for sub_label, sub_split in root_units(size):
                units.append(['sub', n, label, list(split), sub_label, list(sub_split)])
        else:
            total = len(tree_list(size))
            for lo in range(0, total, CHUNK):
                units.append(['chunk', n, label, list(split), lo, min(total, lo + CHUNK)])
    return units


def gen_unit(unit):
    kind = unit[0]
    if kind == 'all':
        return iter(tree_list(unit[1]))
    _, _, label, split = unit[:4]
    split = tuple(split)
    if kind == 'sub':
        return gen_root(label, split, gen_root(unit[4], tuple(unit[5])))
    big = _big(split)
    return gen_root(label, split, tree_list(split[big])[unit[4]:unit[5]])


def tree_count(n, leaves=3, unary_labels=4, binary_labels=8, ternary_labels=0):
    """Closed form (recurrence on the number of internal nodes) for the number of labelled trees."""
    t = [leaves]
    for m in range(1, n + 1):
        one = t[m - 1]
        two = sum(t[i] * t[m - 1 - i] for i in range(m))
        three = sum(t[i] * t[j] * t[m - 1 - i - j] for i in range(m) for j in range(m - i))
        t.append(unary_labels * one + binary_labels * two + ternary_labels * three)
    return t[n]


# ---------------------------------------------------------------------------------------------------------------------
# C02: token soup

SOUP = ['a', '1', "'s'", 'fn(', '(', ')', ',', '+', '-', '!', '*', '**', '<', '<=', '&&', '[x]']


# ---------------------------------------------------------------------------------------------------------------------
# C03: operand pool for the operator matrix

RE_A = re.compile('a')
RE_B = re.compile('b+', re.I)
TZ_P2 = datetime.timezone(datetime.timedelta(hours=2))


def host_fn(args, options):  # pylint: disable=unused-argument
    return 1


def matrix_pool(tier, script_fn):
    """(label, value) list covering the nine types. `script_fn` is a function value defined by a script."""
    pool = [
        ('null', None),
        ('true', True),
        ('false', False),
        ('0', 0),
        ('-0.0', -0.0),
        ('0.0', 0.0),
        ('1', 1),
        ('1.0', 1.0),
        ('-1', -1),
        ('0.5', 0.5),
        ('-2.5', -2.5),
        ('2', 2),
        ('3', 3),
        ('7', 7),
        ('1e15', 1e15),
        ('2^53', float(2 ** 53)),
        ('1e300', 1e300),
        ("''", ''),
        ("'a'", 'a'),
        ("'b'", 'b'),
        ("'1'", '1'),
        ("'abc'", 'abc'),
        ('date', datetime.date(2024, 3, 10)),
        ('dt0', datetime.datetime(2024, 3, 10)),
        ('dt0+1ms', datetime.datetime(2024, 3, 10, 0, 0, 0, 1000)),
        ('dt-aware', datetime.datetime(2024, 3, 10, 14, 30, 0, tzinfo=TZ_P2)),
        ('[]', []),
        ('[1]', [1]),
        ('[1,2]', [1, 2]),
        ('[[1]]', [[1]]),
        ('{}', {}),
        ('{a:1}', {'a': 1}),
        ('hostFn', host_fn),
        ('scriptFn', script_fn),
        ('reA', RE_A),
        ('reB', RE_B),
    ]
    # Twins: equal as BareScript values, different for the host (key insertion order, int/float spelling above 2**53,
    # bool next to number inside containers). Adjacent entries are meant to be compared with each other.
    big = 2 ** 53 + 2     # exactly representable as a double, below 1e16 (so both spellings have the same text)
    pool += [
        ('{a:1,b:2}', {'a': 1, 'b': 2}),
        ('{b:2,a:1}rev', {'b': 2, 'a': 1}),
        ('{a:2,b:1}', {'a': 2, 'b': 1}),
        ('[{a:1,b:2}]', [{'a': 1, 'b': 2}]),
        ('[{b:2,a:1}rev]', [{'b': 2, 'a': 1}]),
        ('{k:{a:1,b:2}}', {'k': {'a': 1, 'b': 2}}),
        ('{k:{b:2,a:1}rev}', {'k': {'b': 2, 'a': 1}}),
        ('2^53+2 int', big),
        ('2^53+2 float', float(big)),
        ('2^53+1 int', big - 1),
        ('[2^53+2 int]', [big]),
        ('[2^53+2 float]', [float(big)]),
        ('[true]', [True]),
        ('[1.0]', [1.0]),
        ('{a:true}', {'a': True}),
        ('{a:1.0}', {'a': 1.0}),
    ]
    # Objects with different key sets where an earlier shared key already decides the order (sorted (key, value) pairs are
    # compared lexicographically: the value of a is looked at before the second key)
    pool += [
        ('{a:1,c:1}', {'a': 1, 'c': 1}),
        ('{a:1,b:1}', {'a': 1, 'b': 1}),
        ('{a:2}', {'a': 2}),
        ('{c:0,a:2}rev', {'c': 0, 'a': 2}),
        ('{b:1}', {'b': 1}),
        ('{a:1,b:2,c:3}', {'a': 1, 'b': 2, 'c': 3}),
    ]
    # Fractional magnitudes on both sides of 1 (a negative base to such a power is not a real number), and datetimes with a
    # sub-millisecond part (their text shows the millisecond truncated: .999, none/.000, .001).
    pool += [
        ('1.5', 1.5),
        ('-1.5', -1.5),
        ('2.5', 2.5),
        ('dt.999500us', datetime.datetime(2024, 3, 10, 23, 59, 59, 999500)),
        ('dt.000500us', datetime.datetime(2024, 3, 10, 0, 0, 0, 500)),
        ('dt.001499us', datetime.datetime(2024, 3, 10, 0, 0, 0, 1499)),
    ]
    if tier != 'quick':
        pool += [
            ('-3', -3),
            ('10', 10),
            ('0.1', 0.1),
            ('0.75', 0.75),
            ('-7.0', -7.0),
            ('1e-300', 1e-300),
            ('86400000', 86400000),
            ('2^53 int', 2 ** 53),
            ("'A'", 'A'),
            ("'null'", 'null'),
            ("' '", ' '),
            ('dt1999', datetime.datetime(1999, 12, 31, 23, 59, 59, 999000)),
            ('date0001', datetime.date(1, 1, 1)),
            ('dt9999', datetime.datetime(9999, 12, 31, 23, 59, 59)),
            ('[null]', [None]),
            ("['a',[]]", ['a', []]),
            ('{a:[1]}', {'a': [1]}),
            ('{b:null,a:true}', {'b': None, 'a': True}),
        ]
    return pool


# C03: argument pool for the alias table (small magnitudes only: some aliases repeat strings or build dates)
ALIAS_POOL = [
    ('null', None),
    ('true', True),
    ('0', 0),
    ('1', 1),
    ('-1', -1),
    ('2.5', 2.5),
    ('10', 10),
    ("'abc'", 'abc'),
    ("'b'", 'b'),
    ("' 12 '", ' 12 '),
    ('dt', datetime.datetime(2024, 3, 10, 12, 30, 45, 678000)),
    ('[3,1]', [3, 1]),
]


# ---------------------------------------------------------------------------------------------------------------------
# C03: effect trees (order and laziness)

EFFECT_LABELS = [('&&', 2), ('||', 2), ('+', 2), ('<', 2), ('==', 2), ('ff', 2), ('arrayNew', 2), ('if2', 2),
                 ('!', 1), ('group', 1), ('if1', 1), ('if3', 3)]

# The 'order' family: every operator and every call arity as a node kind. 'neg' is unary minus; hhN a host function,
# ffN a script function (declared with two parameters) called with N arguments; arrayNew a library function.
ORDER_LABELS = ([(op, 2) for op in OPS14] + [('if2', 2), ('hh2', 2), ('ff2', 2), ('arrayNew', 2)] +
                [('!', 1), ('neg', 1), ('group', 1), ('if1', 1), ('hh1', 1), ('ff1', 1)] +
                [('if3', 3), ('hh3', 3), ('ff3', 3)])
# The 'callee' family: calls of an unbound name (missingN) and of a name bound to null (nullfn2) next to a host call, a lazy
# and a strict operator. Leaf 'rb' is the call rebind(), which binds hh to a different function.
CALLEE_LABELS = [('missing2', 2), ('nullfn2', 2), ('hh2', 2), ('&&', 2), ('+', 2), ('missing1', 1), ('group', 1), ('missing3', 3)]
LABEL_SETS = {'effects': EFFECT_LABELS, 'order': ORDER_LABELS, 'callee': CALLEE_LABELS}
# Leaf kinds: None = effect call tt(i); 'gc' = read of the global variable gc, which every tt call increments (so a read
# that happens too early or too late shows in the value).
LEAF_KINDS = {'effects': [None], 'order': [None, 'gc'], 'callee': [None, 'gc', 'rb']}

_SHAPES = {}


def effect_shape_list(n, which='effects'):
    """Every tree shape with exactly n internal nodes over LABEL_SETS[which], as a cached list: nested tuples
    (label, kid, ...); a leaf is None. Order: by root label, then by child sizes, then children in their own order."""
    if (which, n) not in _SHAPES:
        if n == 0:
            _SHAPES[(which, n)] = list(LEAF_KINDS[which])
        else:
            out = []
            for label, arity in LABEL_SETS[which]:
                for split in compositions(n - 1, arity):
                    for kids in itertools.product(*[effect_shape_list(s, which) for s in split]):
                        out.append((label,) + kids)
            _SHAPES[(which, n)] = out
    return _SHAPES[(which, n)]


def effect_shapes(n, which='effects'):
    return iter(effect_shape_list(n, which))


def label_counts(which):
    """(leaf kinds, unary, binary, ternary) numbers of labels - the parameters of tree_count."""
    arities = [a for _, a in LABEL_SETS[which]]
    return len(LEAF_KINDS[which]), arities.count(1), arities.count(2), arities.count(3)


def _call_name(label):
    if label.startswith('if'):
        return 'if'
    return label.rstrip('123')


def effect_model(shape):
    """Expression model of a shape; tt leaves become tt(0), tt(1), ... numbered left to right, 'gc' leaves the variable gc.
    Returns (model, number of tt leaves)."""
    counter = [0]

    def build(node):
        if node == 'gc':
            return {'variable': 'gc'}
        if node == 'rb':
            return {'function': {'name': 'rebind', 'args': []}}
        if node is None:
            i = counter[0]
            counter[0] += 1
            return {'function': {'name': 'tt', 'args': [{'number': float(i)}]}}
        label = node[0]
        kids = [build(k) for k in node[1:]]
        if label in LEVELS_OF:
            return {'binary': {'op': label, 'left': kids[0], 'right': kids[1]}}
        if label in ('!', 'neg'):
            return {'unary': {'op': '!' if label == '!' else '-', 'expr': kids[0]}}
        if label == 'group':
            return {'group': kids[0]}
        return {'function': {'name': _call_name(label), 'args': kids}}

    model = build(shape)
    return model, counter[0]


def effect_text(shape):
    """Fully parenthesised source text of a shape (for the script path and for reading replay files)."""
    counter = [0]

    def show(node):
        if node == 'gc':
            return 'gc'
        if node == 'rb':
            return 'rebind()'
        if node is None:
            i = counter[0]
            counter[0] += 1
            return f'tt({i})'
        label = node[0]
        kids = [show(k) for k in node[1:]]
        if label in LEVELS_OF:
            return f'({kids[0]} {label} {kids[1]})'
        if label in ('!', 'neg'):
            return ('!' if label == '!' else '-') + kids[0]
        if label == 'group':
            return '(' + kids[0] + ')'
        return _call_name(label) + '(' + ', '.join(kids) + ')'

    return show(shape)


LEVELS_OF = set(OPS14)
