"""Structured BareScript programs as ASTs (tuples) and their printer to source text.

Expressions:  ('num', x) ('str', s) ('var', name) ('call', name, [args]) ('bin', op, left, right) ('not', e) ('neg', e)
              ('grp', e)
Statements:   ('expr', e) ('assign', name, e)
              ('if', [(cond, body), ...], else_body|None)       first pair is the `if`, later pairs are `elif`
              ('while', cond, body) ('for', var, idx|None, e, body)
              ('break',) ('continue',) ('return', e|None)
              ('func', name, params, last_arg_array, body)   ('comment', text)  - a comment line, no statement
A body is a list of statements.
"""

INDENT = '    '


def num_text(x):
    if isinstance(x, int):
        return str(x)
    r = repr(float(x))
    if r.endswith('.0'):
        r = r[:-2]
    return r


def str_text(s):
    return "'" + s.replace('\\', '\\\\').replace("'", "\\'") + "'"


PREC = {'||': 1, '&&': 2, '==': 3, '!=': 3, '<': 4, '<=': 4, '>': 4, '>=': 4, '+': 5, '-': 5, '*': 6, '/': 6, '%': 6, '**': 7}


def expr_text(e):
    k = e[0]
    if k == 'num':
        return num_text(e[1])
    if k == 'str':
        return str_text(e[1])
    if k == 'var':
        return e[1]
    if k == 'call':
        return e[1] + '(' + ', '.join(expr_text(a) for a in e[2]) + ')'
    if k == 'bin':
        _, op, left, right = e
        lt = expr_text(left)
        rt = expr_text(right)
        # conservative parenthesisation: wrap every binary child (the printer is not what is under test)
        if left[0] == 'bin':
            lt = '(' + lt + ')'
        if right[0] == 'bin':
            rt = '(' + rt + ')'
        return f'{lt} {op} {rt}'
    if k == 'not':
        inner = expr_text(e[1])
        return '!' + ('(' + inner + ')' if e[1][0] == 'bin' else inner)
    if k == 'neg':
        inner = expr_text(e[1])
        return '-' + ('(' + inner + ')' if e[1][0] in ('bin', 'num', 'neg') else inner)
    if k == 'grp':
        return '(' + expr_text(e[1]) + ')'
    raise ValueError(k)


def lines_of(body, depth=0):
    out = []
    pad = INDENT * depth
    for s in body:
        k = s[0]
        if k == 'expr':
            out.append(pad + expr_text(s[1]))
        elif k == 'assign':
            out.append(pad + s[1] + ' = ' + expr_text(s[2]))
        elif k == 'if':
            for n, (cond, sub) in enumerate(s[1]):
                out.append(pad + ('if ' if n == 0 else 'elif ') + expr_text(cond) + ':')
                out.extend(lines_of(sub, depth + 1))
            if s[2] is not None:
                out.append(pad + 'else:')
                out.extend(lines_of(s[2], depth + 1))
            out.append(pad + 'endif')
        elif k == 'while':
            out.append(pad + 'while ' + expr_text(s[1]) + ':')
            out.extend(lines_of(s[2], depth + 1))
            out.append(pad + 'endwhile')
        elif k == 'for':
            _, var, idx, e, sub = s
            out.append(pad + 'for ' + var + (', ' + idx if idx else '') + ' in ' + expr_text(e) + ':')
            out.extend(lines_of(sub, depth + 1))
            out.append(pad + 'endfor')
        elif k == 'break':
            out.append(pad + 'break')
        elif k == 'continue':
            out.append(pad + 'continue')
        elif k == 'return':
            out.append(pad + 'return' + (' ' + expr_text(s[1]) if s[1] is not None else ''))
        elif k == 'comment':
            out.append(pad + '# ' + s[1])
        elif k == 'func':
            _, name, params, last, sub = s
            out.append(pad + 'function ' + name + '(' + ', '.join(params) + ('...' if last else '') + '):')
            out.extend(lines_of(sub, depth + 1))
            out.append(pad + 'endfunction')
        else:
            raise ValueError(k)
    return out


def source(body):
    return '\n'.join(lines_of(body)) + '\n'


def walk(body):
    """Yield every statement of a body, recursively (function bodies included)."""
    for s in body:
        yield s
        k = s[0]
        if k == 'if':
            for _, sub in s[1]:
                yield from walk(sub)
            if s[2] is not None:
                yield from walk(s[2])
        elif k in ('while',):
            yield from walk(s[2])
        elif k == 'for':
            yield from walk(s[4])
        elif k == 'func':
            yield from walk(s[4])


def has_while_bound_continue(body, loop=None):
    """True iff some `continue` has a `while` as its innermost enclosing loop within the same function."""
    for s in body:
        k = s[0]
        if k == 'continue' and loop == 'while':
            return True
        if k == 'if':
            if any(has_while_bound_continue(sub, loop) for _, sub in s[1]):
                return True
            if s[2] is not None and has_while_bound_continue(s[2], loop):
                return True
        elif k == 'while':
            if has_while_bound_continue(s[2], 'while'):
                return True
        elif k == 'for':
            if has_while_bound_continue(s[4], 'for'):
                return True
        elif k == 'func':
            if has_while_bound_continue(s[4], None):
                return True
    return False


def for_index_vars(body):
    return {s[2] for s in walk(body) if s[0] == 'for' and s[2]}


def size(body):
    return sum(1 for _ in walk(body))
