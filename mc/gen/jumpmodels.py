"""Hand-built jump-level models (dicts, not source text) for C08/C09/C18 and the harness that runs one model on
the implementation and on the reference machine under the same tape."""

import copy
import itertools

from ..common import HANG, HarnessError, ImplHang, canon, cpu_watchdog, load_impl, same_result
from ..engine.tape import Tape
from ..ref import jumpvm

CALL_CC = {'function': {'name': 'cc', 'args': []}}
X_PLUS_1 = {'binary': {'op': '+', 'left': {'variable': 'x'}, 'right': {'number': 1}}}


def _log(s):
    return {'expr': {'expr': {'function': {'name': 'systemLog', 'args': [{'string': s}]}}}}


# The plain alphabet P (index -> statement). Every use deep-copies, so models never share sub-objects.
P = [
    _log('a'),
    _log('b'),
    {'expr': {'name': 'x', 'expr': X_PLUS_1}},
    {'jump': {'label': 'A'}},
    {'jump': {'label': 'B'}},
    {'jump': {'label': 'A', 'expr': CALL_CC}},
    {'jump': {'label': 'B', 'expr': CALL_CC}},
    {'label': 'A'},
    {'label': 'B'},
    {'return': {}},
    {'return': {'expr': {'variable': 'x'}}},
    {'expr': {'expr': {'function': {'name': 'ff', 'args': []}}}},
    {'jump': {'label': 'A', 'expr': {'function': {'name': 'ff', 'args': []}}}},
]
P_NAMES = ['log a', 'log b', 'x = x + 1', 'jump A', 'jump B', 'jumpif (cc()) A', 'jumpif (cc()) B', 'A:', 'B:', 'return', 'return x', 'ff()', 'jumpif (ff()) A']
CALL_FF = 11
JUMPIF_FF = 12
NP = len(P)

# Function bodies: every list of length <= 2 over P minus the call of ff (1 + 11 + 121 = 133 variants)
_FB = [i for i in range(NP) if i not in (CALL_FF, JUMPIF_FF)]
FN_BODIES = [()] + [(i,) for i in _FB] + [(i, j) for i in _FB for j in _FB]


def build(code):
    """code: list of ints (index into P) or ['fn', k] (function ff with body FN_BODIES[k])."""
    sts = []
    for c in code:
        if isinstance(c, int):
            sts.append(copy.deepcopy(P[c]))
        else:
            sts.append({'function': {'name': 'ff', 'statements': [copy.deepcopy(P[i]) for i in FN_BODIES[c[1]]]}})
    return {'statements': sts}


def describe(code):
    out = []
    for c in code:
        if isinstance(c, int):
            out.append(P_NAMES[c])
        else:
            out.append('function ff() { ' + '; '.join(P_NAMES[i] for i in FN_BODIES[c[1]]) + ' }')
    return out


def run_impl(model, prefix, limit, presets=None, fetch=None, url_fn=None):
    bs = load_impl()
    tape = Tape(prefix)
    logs = []
    glob = {'x': 0}
    if presets:
        glob.update(copy.deepcopy(presets))
    glob['cc'] = lambda args, options: tape.ask('cc', 2) == 1
    options = {'globals': glob, 'logFn': logs.append, 'maxStatements': limit}
    if fetch is not None:
        options['fetchFn'] = fetch
    if url_fn is not None:
        options['urlFn'] = url_fn
    try:
        with cpu_watchdog():
            res = ('ok', canon(bs.execute_script(model, options)))
    except bs.BareScriptRuntimeError as exc:
        res = ('raise', 'BareScriptRuntimeError', str(exc))
    except ImplHang:
        return {'result': HANG, 'logs': logs[:50], 'x': None, 'count': options.get('statementCount'), 'points': tape.points[:50]}
    except Exception as exc:  # pylint: disable=broad-exception-caught
        res = ('raise', type(exc).__name__, str(exc))
    if tape.error:
        raise HarnessError('implementation run diverged from its own recorded prefix: ' + tape.error)
    return {'result': res, 'logs': logs, 'x': canon(glob.get('x')), 'count': options.get('statementCount'), 'points': tape.points}


def run_ref(model, prefix, limit, presets=None, loader=None, resolver=None, base=None):
    tape = Tape(prefix)
    logs = []
    glob = {'x': 0}
    if presets:
        glob.update(copy.deepcopy(presets))
    host = {'cc': lambda args: tape.ask('cc', 2) == 1}
    m = jumpvm.Machine(glob, host, logs, limit=limit, lib=jumpvm.lib_basic(), loader=loader, resolver=resolver)
    m.base = base
    try:
        res = ('ok', canon(m.run(model['statements'], None, base)))
    except jumpvm.RefRuntimeError as exc:
        res = ('raise', 'BareScriptRuntimeError', str(exc))
    except Exception as exc:  # pylint: disable=broad-exception-caught
        if type(exc).__name__ == 'ReplayDivergence':
            res = ('ref-divergence', str(exc))
        else:
            raise
    # the implementation's counter is incremented before the limit test: an aborted run reports L + 1
    return {'result': res, 'logs': logs, 'x': canon(glob.get('x')), 'count': m.count, 'points': tape.points, 'fetches': m.fetches}


def diff(x, y, with_count=True):
    if not same_result(x['result'], y['result']):
        return 'result'
    for key in ('logs', 'x', 'points') + (('count',) if with_count else ()):
        if x[key] != y[key]:
            return key
    return None


def lists(length, first=None):
    """Every list of exactly `length` statements over P (optionally with a fixed first element)."""
    if length == 0:
        yield []
        return
    heads = [first] if first is not None else range(NP)
    for h in heads:
        for rest in itertools.product(range(NP), repeat=length - 1):
            yield [h] + list(rest)


def lists_with_fn(length, pos, first_fn_block):
    """Every list of `length` in which position `pos` holds a function variant from the block and the others range over P."""
    for k in first_fn_block:
        for rest in itertools.product(range(NP), repeat=length - 1):
            code = list(rest[:pos]) + [['fn', k]] + list(rest[pos:])
            yield code
