"""Run one structured program (AST) on the implementation and on the big-step reference under the same tape.

Host functions the generated programs use (all nondeterminism is owned by the tape):
  cc()  -> next boolean of the tape (domain 2, default false)
  pk()  -> a fresh array chosen by the tape from PK (domain 4, default PK[0])
Logging goes through the library's systemLog and the caller-supplied logFn.
"""

import copy

from ..common import HANG, HarnessError, ImplHang, canon, cpu_watchdog, load_impl, same_result
from ..engine.tape import Tape
from ..ref import bigstep
from ..ref import values as rv
from . import ast

PK = [[10, 20], [], [10], [10, 20, 30]]
HORIZON = 1500
REF_HORIZON = 6000
HOST_NAMES = ('cc', 'pk')


def _ref_lib():
    def system_log(m, args):
        m.log.append(rv.string(args[0] if args else None))
        return None

    def array_new(m, args):  # pylint: disable=unused-argument
        return list(args)

    def array_length(m, args):  # pylint: disable=unused-argument
        return len(args[0]) if args and isinstance(args[0], list) else 0

    return {'systemLog': system_log, 'arrayNew': array_new, 'arrayLength': array_length}


REF_LIB = _ref_lib()


class Program:
    def __init__(self, body, presets=None):
        self.body = body
        self.presets = presets or {}
        self.source = ast.source(body)
        self.skip_names = ast.for_index_vars(body)
        self.f7_candidate = ast.has_while_bound_continue(body)
        self.model = None
        self.parse_error = None

    def parse(self):
        bs = load_impl()
        try:
            self.model = bs.parse_script(self.source)
        except Exception as exc:  # pylint: disable=broad-exception-caught
            self.parse_error = ('raise', type(exc).__name__, str(exc))
        return self.model

    # -- implementation
    def run_impl(self, prefix, model=None):
        bs = load_impl()
        from bare_script.library import SCRIPT_FUNCTIONS  # pylint: disable=import-outside-toplevel,import-error
        tape = Tape(prefix)
        logs = []
        glob = dict(copy.deepcopy(self.presets))
        glob['cc'] = lambda args, options: tape.ask('cc', 2) == 1
        glob['pk'] = lambda args, options: list(PK[tape.ask('pk', len(PK))])
        options = {'globals': glob, 'logFn': logs.append, 'maxStatements': HORIZON}
        try:
            with cpu_watchdog():
                res = ('ok', canon(bs.execute_script(model if model is not None else self.model, options)))
        except ImplHang:
            return {'result': HANG, 'logs': logs[:50], 'globals': {}, 'points': tape.points[:50]}
        except bs.BareScriptRuntimeError as exc:
            msg = str(exc)
            res = ('horizon',) if msg.startswith('Exceeded maximum script statements') else ('raise', 'BareScriptRuntimeError', msg)
        except Exception as exc:  # pylint: disable=broad-exception-caught
            res = ('raise', type(exc).__name__, str(exc))
        if tape.error:
            raise HarnessError('implementation run diverged from its own recorded prefix: ' + tape.error)
        user = {}
        for name, value in glob.items():
            if name in HOST_NAMES or name.startswith('__bareScript') or name in self.skip_names:
                continue
            if name in SCRIPT_FUNCTIONS and value is SCRIPT_FUNCTIONS[name]:
                continue
            user[name] = canon(value)
        return {'result': res, 'logs': logs, 'globals': user, 'points': tape.points,
                'count': options.get('statementCount')}

    # -- reference
    def run_ref(self, prefix, quirk_f7=False):
        tape = Tape(prefix)
        logs = []
        host = {
            'cc': lambda args: tape.ask('cc', 2) == 1,
            'pk': lambda args: list(PK[tape.ask('pk', len(PK))]),
        }
        glob = dict(copy.deepcopy(self.presets))
        m = bigstep.Machine(glob, host, logs, quirk_f7=quirk_f7, lib=REF_LIB, horizon=REF_HORIZON)
        try:
            res = m.run(self.body)
        except Exception as exc:  # pylint: disable=broad-exception-caught
            if type(exc).__name__ == 'ReplayDivergence':
                res = ('ref-divergence', str(exc))
            else:
                raise
        if res[0] == 'ok':
            res = ('ok', canon(res[1]))
        user = {name: canon(value) for name, value in glob.items() if name not in self.skip_names}
        return {'result': res, 'logs': logs, 'globals': user, 'points': tape.points}


def diff_obs(x, y):
    """First difference between two observations (implementation x, reference y), or None."""
    if not same_result(x['result'], y['result']):
        return 'result'
    if x['result'] == ('horizon',):
        # both ran into their (differently counted) horizons: only the common part is comparable
        n = min(len(x['logs']), len(y['logs']))
        if x['logs'][:n] != y['logs'][:n]:
            return 'log sequence before the horizon'
        m = min(len(x['points']), len(y['points']))
        if x['points'][:m] != y['points'][:m]:
            return 'sequence of decision points before the horizon'
        return None
    if x['logs'] != y['logs']:
        n = next((i for i, (a, b) in enumerate(zip(x['logs'], y['logs'])) if a != b), min(len(x['logs']), len(y['logs'])))
        return f'log sequence (first differing entry {n})'
    if x['globals'] != y['globals']:
        names = sorted(set(x['globals']) ^ set(y['globals'])) or sorted(k for k in x['globals'] if x['globals'][k] != y['globals'].get(k))
        return 'final globals: ' + ','.join(names[:4])
    if x['points'] != y['points']:
        return 'sequence of decision points (a condition/array expression was evaluated a different number of times or in a different order)'
    return None


def brief(obs):
    """Observation for a violation record: long logs are cut (the full run is reproducible from source + tape)."""
    logs = obs['logs']
    return {'result': obs['result'], 'logs': logs if len(logs) <= 40 else logs[:40] + [f'... {len(logs)} entries'],
            'globals': obs['globals'], 'points': [p[2] for p in obs['points'][:40]] + ([f'... {len(obs["points"])} points'] if len(obs['points']) > 40 else [])}
