"""CLI: ./check Cxx [--tier quick|thorough] [--replay file] [--jobs N] [--family name]

Exit 0: the property held on everything explored (KNOWN-FINDING lines may be printed).
Exit 1: a violation was found; a line "VIOLATION property=<id> replay=<path>" is printed.
Exit 2: harness error (never a verdict about the code).
"""

import argparse
import importlib
import json
import multiprocessing
import os
import random
import subprocess
import sys
import time
import traceback

from . import evidence, findings
from .common import VERIF_DIR, HarnessError, load_impl
from .engine.shard import case_id

_FAMS = None


def _worker(task):
    fi, si = task
    fam = _FAMS[fi]
    t0 = time.time()
    try:
        res = fam.func(fam.shards[si])
    except Exception as exc:  # pylint: disable=broad-exception-caught
        return (fi, si, None, (impl_raised(exc), traceback.format_exc()), time.time() - t0)
    return (fi, si, res, None, time.time() - t0)


def impl_raised(exc):
    """True iff the exception was raised by code of the implementation under test (innermost frame under $VERIF_REPO/src)
    and not anticipated by the driver: on the unchanged tree this never happens (it would be a harness error there);
    on a changed tree it is a behaviour change of the code under test, reported as a violation, not as a harness error."""
    from .common import REPO_DIR  # pylint: disable=import-outside-toplevel
    src = os.path.realpath(os.path.join(REPO_DIR, 'src')) + os.sep
    tb = traceback.extract_tb(exc.__traceback__)
    return bool(tb) and os.path.realpath(tb[-1].filename).startswith(src)


def _reexec_env():
    want = {'PYTHONHASHSEED': '0', 'LC_ALL': 'C.UTF-8', 'TZ': 'UTC'}
    if all(os.environ.get(k) == v for k, v in want.items()):
        return
    env = dict(os.environ)
    env.update(want)
    os.execve(sys.executable, [sys.executable, '-m', 'mc.run'] + sys.argv[1:], env)


def main(argv=None):
    ap = argparse.ArgumentParser()
    ap.add_argument('property')
    ap.add_argument('--tier', default=os.environ.get('VERIF_TIER', 'quick'), choices=['quick', 'thorough'])
    ap.add_argument('--replay')
    ap.add_argument('--jobs', type=int, default=int(os.environ.get('VERIF_JOBS', '16')))
    ap.add_argument('--family', action='append', help='run only these families (debugging; evidence is marked partial)')
    ap.add_argument('--no-evidence', action='store_true')
    ap.add_argument('--shard-replay', action='store_true', help='with --replay: re-run the whole shard that found the case')
    args = ap.parse_args(argv)
    _reexec_env()
    os.chdir(VERIF_DIR)
    pid = args.property
    try:
        load_impl()
        mod = importlib.import_module(f'mc.props.{pid}')
        if args.replay:
            return do_replay(mod, pid, args.replay, args.shard_replay)
        return do_check(mod, pid, args)
    except HarnessError as exc:
        print(f'HARNESS-ERROR property={pid} {exc}')
        return 2


def do_replay(mod, pid, path, force_shard=False):
    with open(path, encoding='utf-8') as fh:
        rep = json.load(fh)
    if force_shard or rep.get('history_dependent'):
        return do_replay_shard(mod, pid, rep)
    out = mod.replay(rep['family'], rep['case'])
    print(json.dumps({'property': pid, 'family': rep['family'], 'case': rep['case'], 'result': out}, indent=1, sort_keys=True, default=repr))
    if out.get('differs'):
        print(f'REPLAY property={pid} still-fails=true')
        return 1
    print(f'REPLAY property={pid} still-fails=false')
    return 0


def do_replay_shard(mod, pid, rep):
    """A violation that depends on the cases run before it (state leaking between calls of the code under test):
    re-run the whole shard that found it, in this fresh process, in the same deterministic order."""
    fams = mod.families(rep['tier'])
    name, si = rep['shard']
    fam = next(f for f in fams if f.name == name)
    try:
        res = fam.func(fam.shards[si])
    except Exception as exc:  # pylint: disable=broad-exception-caught
        if impl_raised(exc):
            print(json.dumps({'property': pid, 'family': rep['family'], 'shard': rep['shard'], 'escaped': traceback.format_exc().strip().splitlines()[-1]}, indent=1))
            print(f'REPLAY property={pid} still-fails=true (shard replay: exception escaped the implementation)')
            return 1
        raise
    want = case_id([rep['family'], rep['case']])
    hit = [v for v in res['violations'] + res['known_violations'] if case_id([v['family'], v['case']]) == want]
    print(json.dumps({'property': pid, 'family': rep['family'], 'shard': rep['shard'], 'case': rep['case'],
                      'violations_in_shard': res['nviol'] + res['nknown'], 'same_case_found': bool(hit)}, indent=1, sort_keys=True, default=repr))
    if hit or res['nviol'] + res['nknown'] > 0:
        print(f'REPLAY property={pid} still-fails=true (shard replay)')
        return 1
    print(f'REPLAY property={pid} still-fails=false (shard replay)')
    return 0


def do_check(mod, pid, args):
    global _FAMS  # pylint: disable=global-statement
    t0 = time.time()
    tier = args.tier
    seed = int(os.environ.get('VERIF_SEED', '0'))
    cap_s = float(os.environ.get('VERIF_TIME_CAP_S', '1500' if tier == 'quick' else '14400'))
    fams = mod.families(tier)
    if args.family:
        fams = [f for f in fams if f.name in args.family]
    _FAMS = fams
    tasks = [(fi, si) for fi, fam in enumerate(fams) for si in range(len(fam.shards))]
    # The seed only rotates scheduling order and sample selection - never what is explored.
    order = list(tasks)
    random.Random(seed).shuffle(order)
    results = {}
    errors = []
    impl_errors = []
    timed_out = False
    ctx = multiprocessing.get_context('fork')
    jobs = max(1, min(args.jobs, len(order) or 1))
    shard_times = {}
    # one fresh forked process per shard: state that the code under test leaks between calls (caches, a changed TZ)
    # never crosses a shard boundary, so a shard's outcome does not depend on scheduling
    with ctx.Pool(jobs, maxtasksperchild=1) as pool:
        it = pool.imap_unordered(_worker, order, chunksize=1)
        for _ in range(len(order)):
            remaining = cap_s - (time.time() - t0)
            try:
                fi, si, res, err, dt = it.next(timeout=max(1.0, remaining))
            except multiprocessing.TimeoutError:
                timed_out = True
                pool.terminate()
                break
            shard_times[(fi, si)] = dt
            if err is not None and err[0]:
                impl_errors.append((fi, si, err[1]))
            elif err is not None:
                errors.append((fams[fi].name, si, err[1]))
            else:
                results[(fi, si)] = res
    if errors:
        name, si, err = errors[0]
        print(err)
        print(f'HARNESS-ERROR property={pid} family={name} shard={si}: exception inside the harness ({len(errors)} shard(s))')
        return 2

    known = findings.load()
    fam_reports = []
    all_viol = []
    for fi, si, text in impl_errors:
        tail = [ln for ln in text.strip().splitlines() if ln.strip()][-6:]
        all_viol.append({'family': fams[fi].name, 'case': {'shard_exception': True, 'shard_index': si, 'error': tail[-1]},
                         'expected': 'the shard completes: no exception escapes the code under test where the unchanged tree raises none',
                         'actual': tail, 'first_difference': 'an exception raised inside the implementation escaped to the harness: ' + tail[-1],
                         'known': None, 'shard': [fams[fi].name, si]})
    total = {k: 0 for k in ('cases', 'evals', 'states', 'transitions', 'traces', 'nontrivial', 'unspecified', 'pruned', 'nviol', 'nknown')}
    all_known = []
    samples = []
    exhaustive_all = True
    for fi, fam in enumerate(fams):
        rep = {'name': fam.name, 'bound': fam.bound, 'shards': len(fam.shards), 'expected_size': fam.expected}
        agg = {k: 0 for k in total}
        outcomes = set()
        extra = {}
        done = 0
        capped = False
        fsamples = []
        for si in range(len(fam.shards)):
            res = results.get((fi, si))
            if res is None:
                continue
            done += 1
            for k in agg:
                agg[k] += res[k]
            outcomes.update(res['outcomes'])
            capped = capped or res['capped']
            for k, v in res['extra'].items():
                extra[k] = extra.get(k, 0) + v
            for v in res['violations'] + res['known_violations']:
                v['shard'] = [fam.name, si]
            all_viol.extend(res['violations'])
            all_known.extend(res['known_violations'])
            fsamples.extend(res['samples'])
        complete = (done == len(fam.shards)) and not capped
        if complete and fam.expected is not None and agg['cases'] != fam.expected:
            print(f'HARNESS-ERROR property={pid} family={fam.name}: enumerated {agg["cases"]} cases, closed form says {fam.expected}')
            return 2
        rep.update(agg)
        rep['shards_completed'] = done
        rep['distinct_outcomes'] = len(outcomes)
        rep['exhaustive'] = complete
        rep['wall_s_sum'] = round(sum(shard_times.get((fi, si), 0.0) for si in range(len(fam.shards))), 2)
        if fam.note:
            rep['note'] = fam.note
        if extra:
            rep['extra'] = extra
        if complete and agg['cases'] > 1 and len(outcomes) <= 1:
            rep['vacuous_suspect'] = True
        exhaustive_all = exhaustive_all and complete
        for k in total:
            total[k] += agg[k]
        if fsamples:
            rnd = random.Random(seed * 7919 + fi)
            picks = rnd.sample(fsamples, min(2, len(fsamples)))
            samples.extend({'family': fam.name, 'case': s} for s in picks)
        fam_reports.append(rep)

    # Classify violations
    # A family may attribute a violation to a finding id (by a signature evaluated on the violation it found).
    # It is suppressed only if known_findings.json lists that id for this property with status "known".
    new_viol = list(all_viol)
    known_hits = {}
    for v in all_known:
        entry = findings.match(known, pid, v.get('known'))
        if entry is not None:
            known_hits.setdefault(entry['id'], [entry, 0])
            known_hits[entry['id']][1] += 1
        else:
            new_viol.append(v)
    replay_paths = []
    per_family = {}
    for v in new_viol:
        if per_family.get(v['family'], 0) >= 2 or len(replay_paths) >= 10:
            continue
        per_family[v['family']] = per_family.get(v['family'], 0) + 1
        replay_paths.append(write_replay(pid, tier, v))

    wall = time.time() - t0
    if not args.no_evidence:
        evidence.write(pid, mod, tier, seed, total, fam_reports, samples, exhaustive_all and not timed_out and not args.family,
                       wall, len(new_viol), timed_out, cap_s, sum(c for _, c in known_hits.values()), partial=bool(args.family))

    for fid, (entry, cnt) in sorted(known_hits.items()):
        print(f'KNOWN-FINDING: property={pid} {fid} {entry["what"]} ({cnt} recorded case(s) match its signature)')
    for rep in fam_reports:
        flag = '' if rep['exhaustive'] else ' [NOT EXHAUSTIVE: capped]'
        print(f'  family {rep["name"]}: cases={rep["cases"]} evals={rep["evals"]} states={rep["states"]} transitions={rep["transitions"]} '
              f'traces={rep["traces"]} nontrivial={rep["nontrivial"]} outcomes={rep["distinct_outcomes"]} unspecified={rep["unspecified"]} '
              f'violations={rep["nviol"]} cpu_s={rep["wall_s_sum"]}{flag}')
    if new_viol:
        # Replay the first violation twice in fresh processes: the same case must fail both times.
        # Every reported violation is replayed twice in fresh processes first: alone, and if that does not reproduce it,
        # within the deterministic shard that found it (history-dependent defects: state leaking between calls).
        confirmed = []
        for path in replay_paths:
            if confirm(pid, path):
                confirmed.append(path)
            elif confirm(pid, path, shard=True):
                mark_history_dependent(path)
                confirmed.append(path)
                print(f'NOTE property={pid}: {os.path.basename(path)} depends on the cases run before it in its shard (state leaks between calls of the code under test); its replay re-runs the shard')
            if len(confirmed) >= 5:
                break
        if not confirmed:
            print(f'HARNESS-ERROR property={pid}: no recorded violation reproduced deterministically on replay: {replay_paths[0]}')
            return 2
        for path in confirmed:
            print(f'VIOLATION property={pid} replay={path}')
        print(f'{pid} {tier}: {len(new_viol)} violation(s) recorded ({total["nviol"]} counted) wall={wall:.1f}s')
        return 1
    print(f'{pid} {tier}: OK cases={total["cases"]} evals={total["evals"]} wall={wall:.1f}s exhaustive={exhaustive_all and not timed_out}')
    return 0


def write_replay(pid, tier, v):
    os.makedirs(os.path.join(VERIF_DIR, 'replays'), exist_ok=True)
    cid = case_id([v['family'], v['case']])
    path = os.path.join(VERIF_DIR, 'replays', f'{pid}-{cid}.json')
    doc = {'property': pid, 'tier': tier, 'family': v['family'], 'case': v['case'], 'expected': v['expected'],
           'actual': v['actual'], 'first_difference': v['first_difference'], 'known_finding': v.get('known'),
           'shard': v.get('shard'), 'history_dependent': bool(isinstance(v['case'], dict) and v['case'].get('shard_exception'))}
    with open(path, 'w', encoding='utf-8') as fh:
        json.dump(doc, fh, indent=1, sort_keys=True, default=repr)
        fh.write('\n')
    return path


def mark_history_dependent(path):
    with open(path, encoding='utf-8') as fh:
        doc = json.load(fh)
    doc['history_dependent'] = True
    with open(path, 'w', encoding='utf-8') as fh:
        json.dump(doc, fh, indent=1, sort_keys=True, default=repr)
        fh.write('\n')


def confirm(pid, path, shard=False):
    outs = []
    for _ in range(2):
        cmd = [sys.executable, '-m', 'mc.run', pid, '--replay', path] + (['--shard-replay'] if shard else [])
        proc = subprocess.run(cmd, capture_output=True, text=True, cwd=VERIF_DIR, check=False)
        outs.append((proc.returncode, proc.stdout))
    return outs[0] == outs[1] and outs[0][0] == 1


if __name__ == '__main__':
    sys.exit(main())
