"""C09 The statement budget is exact, complete and monotone (DESIGN 4/C09).

For every enumerated program and every explored path: obtain N (statements started by the complete run) from the
reference counter, then run the implementation under EVERY limit L in 1..N+2 (and N+10, 10^9, 0) and compare with
the reference machine run under the same limit; plus reference-free monotonicity/prefix checks."""

import copy
import itertools
import re

from ..common import HANG, ImplHang, budget_names_limit, canon, cpu_watchdog, load_impl
from ..engine.shard import Acc, Family, split
from ..engine.tape import explore
from ..gen import ast, chains
from ..gen import jumpmodels as jm
from ..ref import jumpvm, urls
from ..ref import values as rv

LEVEL = 'model_checking'
RULE = ('programs: every jump-level statement list up to the length bound (loops by backward jumps, non-terminating '
        'ones included), parsed structured programs with counter-controlled loops, hand-written call-path scripts '
        '(recursion, arrayIndexOf callback, systemPartial, dataFilter/dataCalculatedField/dataJoin with and without '
        'variables), include trees to depth 3 / fan-out 2 incl. an include inside a loop. For each program and each '
        'explored tape: every limit L in 1..N+2, N+10, 10^9 and 0. A state is a (program, tape, limit) configuration, '
        'a transition one run under a limit, a validated trace one run compared with the reference counter. '
        'A program is non-trivial when its complete run starts at least 3 statements.')
ASSUMPTIONS = [
    'ref/jumpvm.py counting rule: one count per statement start, including labels, functions however invoked, includes',
    'non-terminating programs (reference still running at 200 statements) are swept for L in 1..25 only',
    'for include trees the child text is parsed by the real parser for the reference as well (parsing is decided by other properties)',
]

PROBE = 200
MSG = 'Exceeded maximum script statements'


# ------------------------------------------------------------------ reference library for call paths

class Partial:
    ref_host = False

    def __init__(self, fn, args):
        self.fn = fn
        self.args = args
        self.func = 'partial'

    def __call__(self, *a, **k):
        raise RuntimeError('reference only')

    def ref_apply(self, m, args):
        return apply_fn(m, self.fn, list(self.args) + list(args))


_CALL = re.compile(r'^\s*(\(?)\s*(\w+)\((\w+)\)\s*\)?\s*(?:>\s*(\w+)\s*)?$')


def _row_call(m, expr, row, extra):
    """Row expressions of the forms  ff(a)   (ff(a))   ff(a) > kk  (names: row fields, then variables, then globals)."""
    mt = _CALL.match(expr)
    name, field, bound = mt.group(2), mt.group(3), mt.group(4)

    def look(n):
        if n in row:
            return row[n]
        if extra and n in extra:
            return extra[n]
        return m.g.get(n)
    fn = extra.get(name) if extra and name in extra else m.g.get(name)
    val = apply_fn(m, fn, [look(field)])
    if bound is not None:
        return rv.compare(val, look(bound)) > 0
    return val


def apply_fn(m, fn, args):
    if isinstance(fn, Partial):
        return apply_fn(m, fn.fn, list(fn.args) + list(args))
    return m.apply(fn, args)


def ref_lib():
    lib = jumpvm.lib_basic()

    def array_index_of(m, args):
        arr, val = args[0], args[1] if len(args) > 1 else None
        start = int(args[2]) if len(args) > 2 and args[2] is not None else 0
        for i in range(start, len(arr)):
            if isinstance(val, (jumpvm.Closure, Partial)):
                if rv.truthy(apply_fn(m, val, [arr[i]])):
                    return i
            elif rv.compare(arr[i], val) == 0:
                return i
        return -1

    def system_partial(m, args):  # pylint: disable=unused-argument
        return Partial(args[0], list(args[1:]))

    def object_new(m, args):  # pylint: disable=unused-argument
        return {args[i]: args[i + 1] for i in range(0, len(args) - 1, 2)}

    def data_filter(m, args):
        data, expr = args[0], args[1]
        extra = args[2] if len(args) > 2 else None
        return [row for row in data if rv.truthy(_row_call(m, expr, row, extra))]

    def data_calc(m, args):
        data, name, expr = args[0], args[1], args[2]
        extra = args[3] if len(args) > 3 else None
        for row in data:
            row[name] = _row_call(m, expr, row, extra)
        return data

    def data_join(m, args):
        left, right, expr = args[0], args[1], args[2]
        rexpr = args[3] if len(args) > 3 and args[3] is not None else expr
        extra = args[5] if len(args) > 5 else None
        for row in right:
            _row_call(m, rexpr, row, extra)
        for row in left:
            _row_call(m, expr, row, extra)
        return None

    def global_get(m, args):
        return m.g.get(args[0])

    def global_set(m, args):
        m.g[args[0]] = args[1] if len(args) > 1 else None
        return m.g[args[0]]

    lib.update({'systemGlobalGet': global_get, 'systemGlobalSet': global_set})
    lib.update({'arrayIndexOf': array_index_of, 'systemPartial': system_partial, 'objectNew': object_new,
                'dataFilter': data_filter, 'dataCalculatedField': data_calc, 'dataJoin': data_join})
    return lib


REF_LIB = None


# ------------------------------------------------------------------ the sweep

def run_impl(model, prefix, limit, fetch=None):
    bs = load_impl()
    from ..engine.tape import Tape  # pylint: disable=import-outside-toplevel
    tape = Tape(prefix)
    logs = []
    glob = {'x': 0}
    glob['cc'] = lambda args, options: tape.ask('cc', 2) == 1
    options = {'globals': glob, 'logFn': logs.append, 'maxStatements': limit}
    if fetch is not None:
        options['fetchFn'] = fetch
    try:
        with cpu_watchdog():
            res = ('ok', canon(bs.execute_script(model, options)))
    except bs.BareScriptRuntimeError as exc:
        res = ('raise', 'BareScriptRuntimeError', str(exc))
    except ImplHang:
        return {'result': HANG, 'logs': logs[:50], 'x': None, 'count': options.get('statementCount'), 'points': tape.points[:50]}
    except Exception as exc:  # pylint: disable=broad-exception-caught
        res = ('raise', type(exc).__name__, str(exc))
    return {'result': res, 'logs': logs, 'x': canon(glob.get('x')), 'count': options.get('statementCount'), 'points': tape.points}


def run_impl_reused_options(model, prefix, limit, fetch=None):
    """Two consecutive runs with the SAME options object (fresh globals each time): observation of the second run."""
    bs = load_impl()
    from ..engine.tape import Tape  # pylint: disable=import-outside-toplevel
    options = {'maxStatements': limit}
    if fetch is not None:
        options['fetchFn'] = fetch
    out = None
    for _ in range(2):
        tape = Tape(prefix)
        logs = []
        glob = {'x': 0}
        glob['cc'] = lambda args, options, tape=tape: tape.ask('cc', 2) == 1
        options['globals'] = glob
        options['logFn'] = logs.append
        try:
            with cpu_watchdog():
                res = ('ok', canon(bs.execute_script(model, options)))
        except bs.BareScriptRuntimeError as exc:
            res = ('raise', 'BareScriptRuntimeError', str(exc))
        except ImplHang:
            return {'result': HANG, 'logs': logs[:50], 'x': None, 'count': options.get('statementCount'), 'points': tape.points[:50]}
        except Exception as exc:  # pylint: disable=broad-exception-caught
            res = ('raise', type(exc).__name__, str(exc))
        out = {'result': res, 'logs': logs, 'x': canon(glob.get('x')), 'count': options.get('statementCount'), 'points': tape.points}
    return out


def run_ref(model, prefix, limit, loader=None):
    global REF_LIB  # pylint: disable=global-statement
    if REF_LIB is None:
        REF_LIB = ref_lib()
    from ..engine.tape import Tape  # pylint: disable=import-outside-toplevel
    tape = Tape(prefix)
    logs = []
    glob = {'x': 0}
    host = {'cc': lambda args: tape.ask('cc', 2) == 1}
    m = jumpvm.Machine(glob, host, logs, limit=limit, lib=REF_LIB, loader=loader, resolver=urls.resolve)
    try:
        res = ('ok', canon(m.run(model['statements'], None, None)))
    except jumpvm.RefRuntimeError as exc:
        res = ('raise', 'BareScriptRuntimeError', str(exc))
    return {'result': res, 'logs': logs, 'x': canon(glob.get('x')), 'count': m.count, 'points': tape.points}


def ignore_result(obs):
    """Call-path scripts return values the reference library does not model (join results): compare effects only."""
    if obs['result'][0] == 'ok':
        return dict(obs, result=('ok',))
    return obs


def sweep(model, case, acc, prefix, fetch=None, loader=None, effects_only=False):
    """All limits for one (program, tape). Returns N or None (non-terminating within PROBE)."""
    pristine = copy.deepcopy(model)
    norm = ignore_result if effects_only else (lambda o: o)
    probe = run_ref(pristine, prefix, PROBE, loader)
    aborted = probe['result'][0] == 'raise' and probe['result'][2].startswith(MSG)
    n = None if aborted else probe['count']
    limits = list(range(1, 26)) if n is None else list(range(1, n + 3)) + [n + 10]
    full = None
    ok = True
    for lim in limits:
        x = norm(run_impl(model, prefix, lim, fetch))
        y = norm(run_ref(pristine, prefix, lim, loader))
        acc.evals += 1
        acc.states += 1
        acc.transitions += 1
        acc.traces += 1
        d = jm.diff(x, y)
        c2 = dict(case, tape=list(prefix), limit=lim)
        if d:
            acc.violation(c2, y, x, f'under limit {lim} the run differs from the reference counter in: {d}')
            ok = False
            break
        # reference-free checks
        res = x['result']
        if res[0] == 'raise' and res[2].startswith(MSG):
            if not budget_names_limit(res[2], lim):
                acc.violation(c2, f'{MSG} ({lim})', res[2], 'the error names a number that is not the limit')
                ok = False
            if x['count'] != lim + 1:
                acc.violation(c2, lim + 1, x['count'], 'statementCount after the abort is not L + 1 (exactly L statements started)')
                ok = False
            if n is not None and lim >= n:
                acc.violation(c2, 'completes', res, f'aborted under limit {lim} although the complete run starts only {n} statements')
                ok = False
        else:
            if x['count'] > lim:
                acc.violation(c2, f'<= {lim}', x['count'], 'more statements started than the limit allows')
                ok = False
            if full is None:
                full = x
            elif jm.diff(x, full):
                acc.violation(c2, full, x, 'two limits >= N give different behaviour')
                ok = False
        if not ok:
            break
    if ok and n is not None:
        # the complete run under the largest limits and unlimited (only after the bounded sweep agreed)
        for lim in (10 ** 9, 0):
            x = norm(run_impl(model, prefix, lim, fetch))
            acc.evals += 1
            acc.states += 1
            acc.transitions += 1
            if full is not None and jm.diff(x, full):
                acc.violation(dict(case, tape=list(prefix), limit=lim), full, x, f'limit {lim} behaves differently from limit N')
        # an options object reused for a second run: the counter starts again at zero (completing and aborting limits)
        for lim in sorted({n + 1, max(1, n - 1), max(1, n // 2)}):
            first = norm(run_impl(model, prefix, lim, fetch))
            again = norm(run_impl_reused_options(model, prefix, lim, fetch))
            acc.evals += 2
            acc.states += 1
            acc.transitions += 1
            if jm.diff(first, again):
                acc.violation(dict(case, tape=list(prefix), limit=lim, reuse='same options object, second run'), first, again,
                              'a second run with the same options object behaves differently (the statement counter is not reset at entry)')
                break
        # prefix property: every aborted run's log is a prefix of the complete log
        if full is not None:
            for lim in range(1, n):
                x = run_impl(model, prefix, lim, fetch)
                acc.evals += 1
                if x['logs'] != full['logs'][:len(x['logs'])]:
                    acc.violation(dict(case, tape=list(prefix), limit=lim), full['logs'], x['logs'], 'log of the aborted run is not a prefix of the complete run')
                    break
    if model != pristine:
        acc.violation(case, 'model unchanged', 'modified', 'execution modified the model')
    acc.outcome((n, tuple(probe['logs'][:4])))
    return n


def sweep_paths(model, case, acc, bound, fetch=None, loader=None, effects_only=False):
    """Explore tapes (conditions) with the reference at the probe limit, sweep limits on each path."""
    paths = []

    def run_pair(prefix):
        y = run_ref(model, prefix, PROBE, loader)
        return y['points'], None

    def on_run(prefix, points, verdict):
        paths.append(list(prefix))
        return True

    explore(run_pair, bound, 6, on_run, max_runs=200)
    best = 0
    for prefix in paths:
        n = sweep(model, case, acc, prefix, fetch, loader, effects_only)
        best = max(best, n or PROBE)
    if best >= 3:
        acc.nontrivial += 1


# ------------------------------------------------------------------ families

def check_list(case, acc):
    model = jm.build(case['code'])
    sweep_paths(model, dict(case, statements=jm.describe(case['code'])), acc, 2)


def fam_lists(arg):
    length, firsts = arg
    acc = Acc('lists')
    for first in firsts:
        for code in jm.lists(length, first):
            acc.cases += 1
            check_list({'code': code}, acc)
        acc.sample({'code': jm.describe([first, 7, 2, 5][:max(1, length)])})
    return acc.result()


def check_fnlist(case, acc):
    model = jm.build(case['code'])
    sweep_paths(model, dict(case, statements=jm.describe(case['code'])), acc, 2)


def fam_fnlists(arg):
    length, pos, block = arg
    acc = Acc('fnlists')
    for code in jm.lists_with_fn(length, pos, block):
        acc.cases += 1
        check_fnlist({'code': code}, acc)
    acc.sample({'code': jm.describe([['fn', block[0]], jm.CALL_FF][:length])})
    return acc.result()


def structured_specs(tier):
    depths = (1, 2) if tier == 'quick' else (1, 2, 3)
    for depth in depths:
        for idx in chains.chains(depth):
            levels = chains.chain_levels(idx)
            decos = (0, 3) if depth < 3 else (0,)
            for spec in chains.specs_for_chain(levels, decos, ('counter',), ('global', 'func')):
                if depth == 3 and spec['leaf'] not in (0, 2):
                    continue
                yield spec


def check_structured(case, acc):
    bs = load_impl()
    src = ast.source(chains.build(case['spec']))
    model = bs.parse_script(src)
    sweep_paths(model, dict(case, source=src), acc, 1)


def fam_structured(arg):
    acc = Acc('structured')
    for spec in arg:
        acc.cases += 1
        check_structured({'spec': spec}, acc)
    if arg:
        acc.sample({'spec': arg[0], 'source': ast.source(chains.build(arg[0]))})
    return acc.result()


def with_function_conditions(body):
    """Replace every cc() condition by a call of the script function qq() (which asks cc()): statements run by a
    function that is called from a condition count like any others."""
    def e(x):
        k = x[0]
        if k == 'call':
            if x[1] == 'cc':
                return ('call', 'qq', [])
            return ('call', x[1], [e(a) for a in x[2]])
        if k == 'bin':
            return ('bin', x[1], e(x[2]), e(x[3]))
        if k in ('not', 'neg', 'grp'):
            return (k, e(x[1]))
        return x

    def b(body):
        out = []
        for s in body:
            k = s[0]
            if k == 'expr':
                out.append(('expr', e(s[1])))
            elif k == 'assign':
                out.append(('assign', s[1], e(s[2])))
            elif k == 'if':
                out.append(('if', [(e(c), b(sub)) for c, sub in s[1]], b(s[2]) if s[2] is not None else None))
            elif k == 'while':
                out.append(('while', e(s[1]), b(s[2])))
            elif k == 'for':
                out.append(('for', s[1], s[2], e(s[3]), b(s[4])))
            elif k == 'return':
                out.append(('return', e(s[1]) if s[1] is not None else None))
            elif k == 'func':
                out.append(('func', s[1], s[2], s[3], b(s[4])))
            else:
                out.append(s)
        return out
    return [('func', 'qq', [], False, [('expr', ('call', 'systemLog', [('str', 'q')])), ('return', ('call', 'cc', []))])] + b(body)


def fcond_specs(tier):
    depths = (1, 2) if tier == 'quick' else (1, 2, 3)
    for depth in depths:
        for idx in chains.chains(depth):
            levels = chains.chain_levels(idx)
            decos = (0, 3) if depth < 3 else (0,)
            for spec in chains.specs_for_chain(levels, decos, ('counter',), ('global', 'func')):
                if spec['leaf'] in (0, 2) or depth == 1:
                    yield spec


def check_fcond(case, acc):
    bs = load_impl()
    src = ast.source(with_function_conditions(chains.build(case['spec'])))
    model = bs.parse_script(src)
    sweep_paths(model, dict(case, source=src), acc, 1)


def fam_fcond(arg):
    acc = Acc('fcond')
    for spec in arg:
        acc.cases += 1
        check_fcond({'spec': spec}, acc)
    if arg:
        acc.sample({'spec': arg[0], 'source': ast.source(with_function_conditions(chains.build(arg[0])))})
    return acc.result()


DATA = "arrayNew(objectNew('a', 1), objectNew('a', 2), objectNew('a', 3))"
CALLPATHS = [
    ('recursion', "function rec(n):\n    systemLog('r' + n)\n    if n > 0:\n        rec(n - 1)\n    endif\nendfunction\nrec(3)\nsystemLog('end')\n"),
    ('recursion-cond', "function rec(n):\n    systemLog('r' + n)\n    if cc():\n        rec(n + 1)\n    endif\n    systemLog('u' + n)\nendfunction\nrec(0)\n"),
    ('indexof-callback', "function pred(v):\n    systemLog('p' + v)\n    return v == 20\nendfunction\nix = arrayIndexOf(arrayNew(10, 20, 30), pred)\nsystemLog('ix' + ix)\n"),
    ('indexof-callback-in-function', "function pred(v):\n    systemLog('p' + v)\n    return v == 30\nendfunction\nfunction find():\n    return arrayIndexOf(arrayNew(10, 20, 30), pred)\nendfunction\nix = find()\nsystemLog('ix' + ix)\n"),
    ('partial', "function add(a, b):\n    systemLog('a' + a + b)\n    return a + b\nendfunction\npp = systemPartial(add, 1)\nrr = pp(2)\nsystemLog('r' + rr)\n"),
    ('partial-callback', "function eqq(a, b):\n    systemLog('e' + b)\n    return a == b\nendfunction\nix = arrayIndexOf(arrayNew(10, 20, 30), systemPartial(eqq, 20))\nsystemLog('ix' + ix)\n"),
    ('filter', f"function keep(a):\n    systemLog('k' + a)\n    return a > 1\nendfunction\ndd = dataFilter({DATA}, 'keep(a)')\nsystemLog('end')\n"),
    ('filter-variables', f"function keep(a):\n    systemLog('k' + a)\n    return a > 1\nendfunction\ndd = dataFilter({DATA}, 'keep(a)', objectNew('vv', 1))\nsystemLog('end')\n"),
    ('calc', f"function dbl(a):\n    systemLog('d' + a)\n    return a * 2\nendfunction\ndd = dataCalculatedField({DATA}, 'b', 'dbl(a)')\nsystemLog('end')\n"),
    ('calc-variables', f"function dbl(a):\n    systemLog('d' + a)\n    return a * 2\nendfunction\ndd = dataCalculatedField({DATA}, 'b', 'dbl(a)', objectNew('vv', 1))\nsystemLog('end')\n"),
    ('join', f"function key(a):\n    systemLog('j' + a)\n    return a\nendfunction\ndd = dataJoin({DATA}, {DATA}, 'key(a)')\nsystemLog('end')\n"),
    ('join-variables', f"function key(a):\n    systemLog('j' + a)\n    return a\nendfunction\ndd = dataJoin({DATA}, {DATA}, 'key(a)', null, false, objectNew('vv', 1))\nsystemLog('end')\n"),
    ('filter-variables-nested-call', f"function weight(a):\n    systemLog('w' + a)\n    return a * 2\nendfunction\ndd = dataFilter({DATA}, 'weight(a) > kk', objectNew('kk', 3))\nsystemLog('end')\n"),
    ('filter-variables-grouped-call', f"function keep(a):\n    systemLog('k' + a)\n    return a > 1\nendfunction\ndd = dataFilter({DATA}, '(keep(a))', objectNew('vv', 1))\nsystemLog('end')\n"),
    ('calc-variables-nested-call', f"function weight(a):\n    systemLog('w' + a)\n    return a * 2\nendfunction\ndd = dataCalculatedField({DATA}, 'b', 'weight(a) > kk', objectNew('kk', 3))\nsystemLog('end')\n"),
    ('join-variables-grouped-call', f"function key(a):\n    systemLog('j' + a)\n    return a\nendfunction\ndd = dataJoin({DATA}, {DATA}, '(key(a))', null, false, objectNew('vv', 1))\nsystemLog('end')\n"),
] + [
    # a variables argument that is EMPTY or only restates an existing global: the options copy the helper makes then equals the caller's options
    (f'{kind}-variables-{vname}-{dname}', src)
    for dname, data in (('3rows', DATA), ('1row', "arrayNew(objectNew('a', 2))"))
    for vname, vexpr in (('empty', 'objectNew()'), ('restated', "objectNew('x', x)"), ('null', 'null'))
    for kind, src in (
        ('filter', f"function keep(a):\n    systemLog('k' + a)\n    return a > 1\nendfunction\ndd = dataFilter({data}, 'keep(a)', {vexpr})\nsystemLog('end')\n"),
        ('calc', f"function dbl(a):\n    systemLog('d' + a)\n    return a * 2\nendfunction\ndd = dataCalculatedField({data}, 'b', 'dbl(a)', {vexpr})\nsystemLog('end')\n"),
        ('join', f"function key(a):\n    systemLog('j' + a)\n    return a\nendfunction\ndd = dataJoin({data}, {data}, 'key(a)', null, false, {vexpr})\nsystemLog('end')\n"))
] + [
    ('function-in-if-condition', "function chk(n):\n    systemLog('c' + n)\n    return n > 1\nendfunction\nif chk(1):\n    systemLog('a')\nelif chk(2):\n    systemLog('b')\nelse:\n    systemLog('c')\nendif\nsystemLog('end')\n"),
    ('function-in-while-condition', "function more():\n    nn = systemGlobalGet('nn') + 1\n    systemGlobalSet('nn', nn)\n    systemLog('m' + nn)\n    return nn < 3\nendfunction\nnn = 0\nwhile more():\n    systemLog('body')\nendwhile\nsystemLog('end')\n"),
    ('function-in-for-values-and-jumpif', "function vals():\n    systemLog('v')\n    return arrayNew(1, 2)\nendfunction\nfunction yes():\n    systemLog('y')\n    return true\nendfunction\nfor w in vals():\n    systemLog('w' + w)\nendfor\njumpif (yes()) done\nsystemLog('skipped')\ndone:\nsystemLog('end')\n"),
    ('filter-variables-twice-in-loop', f"function keep(a):\n    systemLog('k' + a)\n    return a > 1\nendfunction\nix = 0\nwhile ix < 2:\n    dd = dataFilter({DATA}, 'keep(a)', objectNew('vv', ix))\n    ix = ix + 1\nendwhile\nsystemLog('end')\n"),
    ('callback-in-loop-in-function', "function pred(v):\n    systemLog('p' + v)\n    return v == 20\nendfunction\nfunction outer():\n    for w in arrayNew(1, 2):\n        arrayIndexOf(arrayNew(10, 20), pred)\n    endfor\nendfunction\nouter()\nsystemLog('end')\n"),
]


def check_callpath(case, acc):
    bs = load_impl()
    name, src = CALLPATHS[case['i']]
    model = bs.parse_script(src)
    sweep_paths(model, dict(case, name=name, source=src), acc, 2, effects_only=True)


def fam_callpaths(arg):
    acc = Acc('callpaths')
    for i in arg:
        acc.cases += 1
        check_callpath({'i': i}, acc)
        acc.sample({'name': CALLPATHS[i][0], 'source': CALLPATHS[i][1]})
    return acc.result()


SELFCOUNT = [
    ('sort-comparator', "function cmp(a, b):\n    systemLog('c' + a + ',' + b)\n    return a - b\nendfunction\nss = arraySort(arrayNew(3, 1, 2, 5, 4), cmp)\nsystemLog('end')\n"),
    ('sort-comparator-in-return', "function cmp(a, b):\n    systemLog('c' + a + ',' + b)\n    return a - b\nendfunction\nreturn arraySort(arrayNew(3, 1, 2), cmp)\n"),
    ('sort-comparator-in-function', "function cmp(a, b):\n    systemLog('c' + a + ',' + b)\n    nn = a - b\n    return nn\nendfunction\nfunction run():\n    return arraySort(arrayNew(2, 1, 3), cmp)\nendfunction\nrr = run()\nsystemLog('end')\n"),
    ('datasort-then-filter-callback', "function keep(a):\n    systemLog('k' + a)\n    return a > 1\nendfunction\ndd = dataSort(arrayNew(objectNew('a', 2), objectNew('a', 1)), arrayNew(arrayNew('a')))\nee = dataFilter(dd, 'keep(a)')\nsystemLog('end')\n"),
    ('partial-comparator', "function cmp3(k, a, b):\n    systemLog('c' + a + ',' + b)\n    return (a - b) * k\nendfunction\nss = arraySort(arrayNew(3, 1, 2), systemPartial(cmp3, 1))\nsystemLog('end')\n"),
]


def check_selfcount(case, acc):
    """Reference-free: scripts whose callback count depends on a library algorithm (sorting). N and the complete
    behaviour come from the implementation's own unlimited run; every smaller limit must abort exactly at L + 1."""
    bs = load_impl()
    name, src = SELFCOUNT[case['i']]
    model = bs.parse_script(src)
    full = run_impl(model, [], 10 ** 9)
    c2 = dict(case, name=name, source=src)
    acc.evals += 1
    if full['result'][0] != 'ok':
        acc.violation(c2, 'completes', full['result'], 'the unlimited run does not complete')
        return
    n = full['count']
    for lim in list(range(1, n + 3)):
        x = run_impl(model, [], lim)
        acc.evals += 1
        acc.states += 1
        acc.transitions += 1
        acc.traces += 1
        c3 = dict(c2, limit=lim)
        if lim >= n:
            if jm.diff(x, full):
                acc.violation(c3, full, x, f'limit {lim} >= N = {n} behaves differently from the unlimited run')
                return
            continue
        res = x['result']
        if res[0] != 'raise' or not str(res[2]).startswith(MSG) or not budget_names_limit(res[2], lim):
            acc.violation(c3, f'{MSG} ({lim})', res, f'the run starts {n} statements but is not aborted under limit {lim}')
            return
        if x['count'] != lim + 1:
            acc.violation(c3, lim + 1, x['count'], 'statementCount after the abort is not L + 1')
            return
        if x['logs'] != full['logs'][:len(x['logs'])]:
            acc.violation(c3, full['logs'], x['logs'], 'log of the aborted run is not a prefix of the complete run')
            return
    acc.nontrivial += 1
    acc.outcome((name, n))


def fam_selfcount(arg):
    acc = Acc('selfcount')
    for i in arg:
        acc.cases += 1
        check_selfcount({'i': i}, acc)
        acc.sample({'name': SELFCOUNT[i][0], 'source': SELFCOUNT[i][1]})
    return acc.result()


def include_trees(depth):
    """Every tree of fan-out <= 2 to the depth bound: a tree is a tuple of child trees."""
    if depth == 0:
        return [()]
    sub = include_trees(depth - 1)
    out = [()]
    out.extend((a,) for a in sub)
    out.extend((a, b) for a in sub for b in sub)
    return out


INCLUDE_STYLES = ('adjacent', 'separated', 'loop')


def include_files(tree, style):
    """Virtual file system for one include tree: name -> text. Node names are paths in the tree."""
    files = {}

    def node(t, name):
        lines = [f"systemLog('{name}-in')"]
        kids = []
        for k, child in enumerate(t):
            cname = f'{name}{k}'
            kids.append(cname)
            node(child, cname)
        if style == 'loop' and kids:
            lines += ['ix = 0', 'while ix < 2:']
            lines += [f"    include '{c}.bare'" for c in kids]
            lines += ['    ix = ix + 1', 'endwhile']
        else:
            for j, c in enumerate(kids):
                if style == 'separated' and j:
                    lines.append(f"systemLog('{name}-mid')")
                lines.append(f"include '{c}.bare'")
        lines.append(f"systemLog('{name}-out')")
        files[name + '.bare'] = '\n'.join(lines) + '\n'

    node(tree, 'n')
    return files


def check_include(case, acc):
    bs = load_impl()
    depth = case['depth']
    tree = include_trees(depth)[case['t']]
    style = case['style']
    files = include_files(tree, style)
    model = bs.parse_script(files['n.bare'])
    cache = {}

    def loader(url):
        key = urls.normalize(url)
        if key not in files:
            return None
        if key not in cache:
            cache[key] = bs.parse_script(files[key])['statements']
        return cache[key]

    def fetch(req):
        return files.get(urls.normalize(req['url']))

    sweep_paths(model, dict(case, files=files), acc, 0, fetch=fetch, loader=loader)


INCLUDE_CALLS = [
    ('partial-made-in-main-called-in-include', {
        'n.bare': "function work(k, a):\n    systemLog('w' + k + a)\n    nn = a + 1\n    return nn\nendfunction\npf = systemPartial(work, 'p')\nsystemLog('main')\ninclude 'c.bare'\nsystemLog('back')\n",
        'c.bare': "systemLog('child')\nr1 = pf(1)\nr2 = pf(2)\nsystemLog('child-end')\n"}),
    ('partial-made-in-include-called-in-main', {
        'n.bare': "function work(k, a):\n    systemLog('w' + k + a)\n    nn = a + 1\n    return nn\nendfunction\ninclude 'c.bare'\nr1 = pf(1)\nr2 = pf(2)\nsystemLog('end')\n",
        'c.bare': "pf = systemPartial(work, 'q')\nsystemLog('child')\n"}),
    ('function-defined-in-include-called-in-main-and-sibling', {
        'n.bare': "include 'c.bare'\nr1 = work(1)\ninclude 'd.bare'\nsystemLog('end')\n",
        'c.bare': "function work(a):\n    systemLog('w' + a)\n    return a\nendfunction\n",
        'd.bare': "r2 = work(2)\nr3 = work(3)\n"}),
    ('callback-made-in-include', {
        'n.bare': "include 'c.bare'\nix = arrayIndexOf(arrayNew(10, 20, 30), pred)\nsystemLog('ix' + ix)\n",
        'c.bare': "function pred(v):\n    systemLog('p' + v)\n    return v == 30\nendfunction\n"}),
]


def check_include_call(case, acc):
    bs = load_impl()
    name, files = INCLUDE_CALLS[case['i']]
    model = bs.parse_script(files['n.bare'])
    cache = {}

    def loader(url):
        key = urls.normalize(url)
        if key not in files:
            return None
        if key not in cache:
            cache[key] = bs.parse_script(files[key])['statements']
        return cache[key]

    def fetch(req):
        return files.get(urls.normalize(req['url']))

    sweep_paths(model, dict(case, name=name, files=files), acc, 0, fetch=fetch, loader=loader)


def fam_include_calls(arg):
    acc = Acc('include_calls')
    for i in arg:
        acc.cases += 1
        check_include_call({'i': i}, acc)
        acc.sample({'name': INCLUDE_CALLS[i][0], 'files': INCLUDE_CALLS[i][1]})
    return acc.result()


def fam_includes(arg):
    depth, style, ts = arg
    acc = Acc('includes')
    for t in ts:
        acc.cases += 1
        check_include({'depth': depth, 't': t, 'style': style}, acc)
    if ts:
        acc.sample({'files': include_files(include_trees(depth)[ts[-1]], style)})
    return acc.result()


def families(tier):
    load_impl()
    maxlen = 4 if tier == 'quick' else 5
    list_shards = []
    for length in range(1, maxlen + 1):
        for firsts in split(list(range(jm.NP)), jm.NP if length >= 3 else 1):
            list_shards.append((length, firsts))
    nfn = len(jm.FN_BODIES)
    fnlen = 2 if tier == 'quick' else 3
    fn_shards = []
    for length in range(1, fnlen + 1):
        for pos in range(length):
            for block in split(list(range(nfn)), 1 if length < 2 else (4 if length == 2 else 19)):
                fn_shards.append((length, pos, block))
    specs = list(structured_specs(tier))
    fspecs = list(fcond_specs(tier))
    depth = 3
    ntrees = len(include_trees(depth))
    inc_shards = [(depth, style, ts) for style in INCLUDE_STYLES for ts in split(list(range(ntrees)), 8)]
    return [
        Family('lists', fam_lists, list_shards, f'every jump-level statement list of length 1..{maxlen} x every tape with <= 2 true conditions x every limit',
               expected=sum(jm.NP ** k for k in range(1, maxlen + 1))),
        Family('fnlists', fam_fnlists, fn_shards, f'every list of length <= {fnlen} with one function variant x tapes x limits',
               expected=sum(k * nfn * jm.NP ** (k - 1) for k in range(1, fnlen + 1))),
        Family('structured', fam_structured, split(specs, 48), 'parsed counter-controlled nesting chains (global and function scope) x tapes with <= 1 deviation x every limit',
               expected=len(specs)),
        Family('fcond', fam_fcond, split(fspecs, 48), 'the counter-controlled nesting chains with every if/elif/while guard condition computed by a script function (statements run from a condition are counted) x tapes with <= 1 deviation x every limit', expected=len(fspecs)),
        Family('include_calls', fam_include_calls, [[i] for i in range(len(INCLUDE_CALLS))], 'function values crossing an include boundary: a partial made in the includer and called in the included script and vice versa, a function defined in an include and called later, a callback defined in an include - every limit', expected=len(INCLUDE_CALLS)),
        Family('selfcount', fam_selfcount, [[i] for i in range(len(SELFCOUNT))], 'scripts whose callback count depends on a library algorithm (arraySort comparators): reference-free sweep of every limit against the unlimited run', expected=len(SELFCOUNT)),
        Family('callpaths', fam_callpaths, [[i] for i in range(len(CALLPATHS))], 'hand-written call paths: recursion, callbacks, systemPartial, data helpers with/without variables',
               expected=len(CALLPATHS)),
        Family('includes', fam_includes, inc_shards, f'every include tree of depth <= {depth}, fan-out <= 2 x {{adjacent, separated, inside a loop}} x every limit',
               expected=ntrees * len(INCLUDE_STYLES)),
    ]


_CHECKS = {'include_calls': check_include_call, 'selfcount': check_selfcount, 'fcond': check_fcond, 'lists': check_list, 'fnlists': check_fnlist, 'structured': check_structured, 'callpaths': check_callpath, 'includes': check_include}


def replay(family, case):
    acc = Acc(family)
    _CHECKS[family](case, acc)
    res = acc.result()
    return {'differs': bool(res['nviol'] or res['nknown']), 'violations': res['violations'] + res['known_violations']}
