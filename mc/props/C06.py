"""C06 The parser is total and its diagnostics point at the offending source (DESIGN 4, C06; appendix A.4)."""

import itertools
import json

from ..common import load_impl
from ..engine.shard import Acc, Family, split
from ..gen import c06src as gen
from ..ref import blocks

LEVEL = 'exploration'
RULE = ('bounded exhaustive enumeration of source texts, each parsed by the real parse_script: (keywords) every sequence of '
        '<= n lines over the 13 block keyword lines, verdict and admissible fault lines from the reference push-down '
        'automaton; (soup) every line of <= k tokens over a 33-token statement/expression vocabulary, alone and as line 2 of '
        'a 3-line program with start line 7; (mutants) every single-token deletion, duplication and adjacent swap, every '
        'deleted closing keyword and a trailing backslash on the last line of a generated corpus (one nesting chain per '
        'program, unique number literal per statement) and of the shipped include files; (columns) eight statement kinds x '
        'fault tokens x tails with the fault at every column up to 400; (caret) every (line length, column) in 0..400 x '
        '1..len+1 constructed directly; (nesting) parenthesis/unary/call nesting to the depth bound in every statement kind; '
        '(contin) backslash runs 1..8 with the fault in every piece; (bsonly) backslash-only physical lines before every piece of '
        'a continued statement and as the last lines of the input; (linechars) FF, VT, FS, GS, RS, NEL, U+2028, U+2029 and a lone CR '
        'inside a comment, a string literal and as white space, before and on a faulty line; (includes) every sequence of <= 4 lines over three include lines, an assignment, a comment and a blank, at top level and in a function body; (openers) unclosed-block scenarios whose opening line is continued over 1..3 fragments; (overlap) faulty lines whose faulty expression text also occurs earlier in the line; (crlines) fault lines given as an iterable of CR-terminated lines or as a str ending in a lone CR; (numlit) number-literal near misses in every expression position of every statement kind and through parse_expression; (prefix) every prefix of 1..3 comment/blank/statement '
        'lines x start line {1,7} on base texts of the other families. A case is non-trivial when the text is rejected '
        '(keywords, soup, mutants, prefix), when the line is long enough to be elided (columns, caret), when the depth '
        'exceeds 1 or the text is faulty (nesting, contin, bsonly, linechars).')
ASSUMPTIONS = [
    'trusted: mc/ref/blocks.py - the block automaton of appendix A.4 and the independent logical-line joiner (comment lines '
    'skipped - also between continuation pieces -, pieces trimmed and joined by one space); a BLANK line between continuation '
    'pieces is treated as UNSPECIFIED for the line text',
    'admissible fault lines: the line at which the automaton is stuck or the opening line of the innermost block left '
    'unclosed by it; at end of input any unclosed opening line',
    'which texts over the soup vocabulary are accepted is not judged (no reference grammar for statements here): only '
    'totality, position sanity and line accounting',
    'line accounting uses the implementation on single lines: a line that parses alone as a simple statement must appear, '
    'in order, in the model of every accepted text that contains it',
    'the documented line split is LF with an optional CR before it; no other character ends a physical line',
    'a continuation pending at end of input is always an error (appendix A.4, fix F11), whatever its pieces hold',
    'formatted message: the last two lines of str(error) are the (possibly elided) source line and the caret line',
]

_IMPL = {}


def impl():
    if not _IMPL:
        load_impl()
        from bare_script.parser import BareScriptParserError, parse_script  # pylint: disable=import-outside-toplevel,import-error
        _IMPL['parse'] = parse_script
        _IMPL['err'] = BareScriptParserError
    return _IMPL['parse'], _IMPL['err']


def run(text, start=1):
    """-> ('ok', model) | ('err', exception) | ('host', exception)"""
    parse, perr = impl()
    try:
        model = parse(text, start)
    except perr as exc:
        return 'err', exc
    except BaseException as exc:  # pylint: disable=broad-exception-caught
        if isinstance(exc, (KeyboardInterrupt, SystemExit)):
            raise
        return 'host', exc
    if not isinstance(model, dict) or not isinstance(model.get('statements'), list):
        return 'host', TypeError(f'parse_script returned {type(model).__name__}')
    return 'ok', model


def obs(res):
    kind, val = res
    if kind == 'ok':
        return ['ok', len(val['statements'])]
    if kind == 'err':
        return ['BareScriptParserError', getattr(val, 'error', None), getattr(val, 'line_number', None), getattr(val, 'column_number', None),
                getattr(val, 'line', None)]
    return ['host exception', type(val).__name__, str(val)[:120]]


# ---------------------------------------------------------------------------------------------------------------------
# model walkers

def walk(node):
    stack = [node]
    while stack:
        cur = stack.pop()
        if isinstance(cur, dict):
            yield cur
            stack.extend(cur.values())
        elif isinstance(cur, list):
            stack.extend(cur)


def numbers_in(model):
    out = set()
    for node in walk(model):
        if 'number' in node and isinstance(node['number'], (int, float)) and not isinstance(node['number'], bool):
            out.add(float(node['number']))
    return out


def calls_in(model):
    out = {}
    for node in walk(model):
        fn = node.get('function')
        if isinstance(fn, dict) and 'args' in fn and isinstance(fn.get('name'), str):
            out[fn['name']] = out.get(fn['name'], 0) + 1
    return out


def function_defs_in(model):
    return sum(1 for st in model['statements'] if isinstance(st, dict) and 'function' in st)


EXPR_KEYS = ('group', 'unary', 'function', 'binary')


def expr_depth(node):
    """Longest chain of nested group/unary/call nodes (iterative)."""
    best = 0
    stack = [(node, 0)]
    while stack:
        cur, d = stack.pop()
        if isinstance(cur, dict):
            for k, v in cur.items():
                nd = d + 1 if k in ('group', 'unary') or (k == 'function' and isinstance(v, dict) and 'args' in v) else d
                if nd > best:
                    best = nd
                stack.append((v, nd))
        elif isinstance(cur, list):
            for v in cur:
                stack.append((v, d))
    return best


def flatten(model):
    """Statement stream of a model: function bodies in place, include lists split, everything else as canonical JSON."""
    out = []
    stack = [iter(model['statements'])]
    while stack:
        try:
            st = next(stack[-1])
        except StopIteration:
            stack.pop()
            continue
        if isinstance(st, dict) and 'function' in st and isinstance(st['function'].get('statements'), list):
            stack.append(iter(st['function']['statements']))
        elif isinstance(st, dict) and 'include' in st:
            for inc in st['include'].get('includes', []):
                out.append(json.dumps(['include', inc], sort_keys=True))
        else:
            out.append(json.dumps(st, sort_keys=True))
    return out


_ALONE = {}


def alone(line):
    """Statement stream of a line parsed on its own, or None if it does not parse alone (block keyword, fault)."""
    got = _ALONE.get(line)
    if got is None:
        if len(_ALONE) > 200000:
            _ALONE.clear()
        kind, val = run(line)
        got = (flatten(val),) if kind == 'ok' else (None,)
        _ALONE[line] = got
    return got[0]


def accounting_problem(model, lls):
    """Every logical line that parses alone as simple statement(s) must appear, in order, in the accepted model."""
    stream = flatten(model)
    pos = 0
    for ll in lls:
        if ll.pending or ll.interrupted:
            continue
        want = alone(ll.text)
        if not want:
            continue
        for entry in want:
            try:
                pos = stream.index(entry, pos) + 1
            except ValueError:
                return (f'the statement of line {ll.start} ({ll.text.strip()[:60]!r}) in the model, after the statements of the lines before it',
                        f'{len(stream)} statements, that one missing', 'an accepted text lost a line: its statement is not in the model')
    return None


def dangling_problem(text, res, lls):
    """A.4: end of input is accepted only if no continuation is pending. A text whose last logical line still waits for its
    continuation (whatever the pieces hold - also a line that holds only a backslash) must be rejected."""
    if not lls or not lls[-1].pending or res[0] != 'ok':
        return None
    last = lls[-1]
    if last.text.strip() == '':
        return (f'BareScriptParserError: the continuation opened at line {last.start} is still pending at end of input', obs(res),
                'text ending in a pending continuation (backslash-only line) is accepted')
    phys = blocks.physical_lines(text)
    completed = '\n'.join(phys[:last.start - 1] + [last.text])
    kind, val = run(completed)
    if kind == 'ok' and flatten(val) == flatten(res[1]):
        return (f'BareScriptParserError: the continuation opened at line {last.start} is still pending at end of input', obs(res),
                'text ending in a pending continuation is accepted (the pending line was treated as complete)')
    return (f'BareScriptParserError: the continuation opened at line {last.start} is still pending at end of input', obs(res),
            'text ending in a pending continuation is accepted and the pending line is missing from the model')


# ---------------------------------------------------------------------------------------------------------------------
# diagnostics oracle

def caret_problem(message, line, column):
    if not isinstance(message, str):
        return ('a message string', type(message).__name__, 'str(error) is not a string')
    parts = message.split('\n')
    if len(parts) < 4 or parts[-1] != '':
        return ('message ending in source line, caret line, newline', message[-80:], 'formatted message has no source/caret lines')
    shown, caret = parts[-3], parts[-2]
    if not caret.endswith('^') or caret[:-1].strip(' ') != '':
        return ('blanks followed by one caret', caret[-40:], 'caret line is malformed')
    ci = len(caret) - 1
    if column <= len(line):
        if ci >= len(shown) or shown[ci] != line[column - 1]:
            return (f'caret under {line[column - 1]!r} (column {column})', f'caret at offset {ci} under {shown[ci:ci + 1]!r} in {shown[:40]!r}...',
                    'caret does not sit under the character at column_number')
    else:
        if ci > len(shown) or (line and (ci == 0 or shown[ci - 1] != line[-1])):
            return ('caret just after the last character of the line', f'caret at offset {ci}, shown line has {len(shown)} characters',
                    'caret for an end-of-line column is not at the end of the shown line')
    return None


def diag_problem(exc, start, lls, admissible=None, colrange=None, acc=None):
    """Position oracle for one BareScriptParserError. lls: logical lines of the text (reference joiner).
    admissible: set of 1-based physical line numbers (relative to the text) that may be blamed, or None.
    colrange: (lo, hi) inclusive 1-based column range, or None."""
    ln = getattr(exc, 'line_number', None)
    if not isinstance(ln, int) or isinstance(ln, bool):
        return ('a 1-based line number', ln, 'line_number is missing')
    rel = ln - start + 1
    target = None
    for ll in lls:
        if ll.start == rel or (ll.pending and ll.start <= rel <= ll.end):
            target = ll
            break
    if target is None:
        return (f'start line + (first physical line of a logical line) - 1, one of {[start + ll.start - 1 for ll in lls][:12]}', ln,
                'line_number does not name a logical source line of the text')
    if admissible is not None and target.start not in admissible:
        return (f'line number in {sorted(start + a - 1 for a in admissible)}', ln, 'the error blames a line that is not at fault')
    line = getattr(exc, 'line', None)
    if not isinstance(line, str):
        return ('the line text', line, 'line is not a string')
    if target.interrupted:
        if acc is not None:
            acc.unspecified += 1
    elif target.pending:
        if line != target.text and line not in target.raws:
            return (target.text, line, 'line is not the text of the pending logical line')
    elif line != target.text:
        return (target.text, line, 'line is not the text of the logical line that line_number names')
    col = getattr(exc, 'column_number', None)
    if not isinstance(col, int) or isinstance(col, bool) or not 1 <= col <= len(line) + 1:
        return (f'1 <= column_number <= {len(line) + 1}', col, 'column_number is outside the line')
    if colrange is not None and not colrange[0] <= col <= colrange[1]:
        return (f'column in {colrange[0]}..{colrange[1]} (the fault token or the blanks directly before it)', col,
                'column_number does not point at the fault')
    return caret_problem(str(exc), line, col)


def fault_range(line, idx):
    """Columns (1-based, inclusive) of the blanks directly before line[idx] up to line[idx] itself."""
    lo = idx
    while lo > 0 and line[lo - 1] in ' \t':
        lo -= 1
    return (lo + 1, idx + 1)


class Seen:
    """De-duplicates outcome digests locally so that hashing is not paid per case."""

    def __init__(self, acc):
        self.acc = acc
        self.seen = set()

    def add(self, key):
        if key not in self.seen:
            self.seen.add(key)
            self.acc.outcome(key)


# ---------------------------------------------------------------------------------------------------------------------
# (a) keyword-line sequences

KW_KINDS = [k for k, _ in gen.KEYWORD_LINES]
KW_TEXT = [t for _, t in gen.KEYWORD_LINES]
NKW = len(KW_TEXT)


def text_keywords(case):
    return '\n'.join(KW_TEXT[i] for i in case['idx'])


def check_keywords(case, acc):
    idx = case['idx']
    text = text_keywords(case)
    verdict = blocks.run_blocks([(KW_KINDS[i], n + 1) for n, i in enumerate(idx)])
    res = run(text)
    acc.evals += 1
    if res[0] == 'host':
        acc.violation(dict(case, text=text), 'a model or BareScriptParserError', obs(res), 'another exception escapes parse_script')
        return ('host',)
    if verdict.accept:
        if res[0] != 'ok':
            acc.violation(dict(case, text=text), 'accepted (block structure is balanced)', obs(res), 'a well-formed keyword sequence is rejected')
            return ('reject-valid',)
        model = res[1]
        calls = calls_in(model)
        want_vv = sum(1 for i in idx if KW_KINDS[i] == 'other')
        want_cc = sum(1 for i in idx if KW_KINDS[i] in ('if', 'elif', 'while'))
        want_pk = sum(1 for i in idx if KW_KINDS[i] == 'for')
        want_fn = sum(1 for i in idx if KW_KINDS[i] == 'function')
        if calls.get('vv', 0) != want_vv or calls.get('cc', 0) < want_cc or calls.get('pk', 0) < want_pk or function_defs_in(model) != want_fn:
            acc.violation(dict(case, text=text), {'vv': want_vv, 'cc>=': want_cc, 'pk>=': want_pk, 'functions': want_fn},
                          {'calls': calls, 'functions': function_defs_in(model)}, 'the model does not account for every line')
        return ('ok', len(idx))
    acc.nontrivial += 1
    if res[0] == 'ok':
        acc.violation(dict(case, text=text), f'BareScriptParserError at one of the lines {sorted(verdict.admissible)} ({verdict.reason})', obs(res),
                      'a malformed block structure is accepted silently')
        return ('accept-invalid',)
    exc = res[1]
    lls = [blocks.Logical(n + 1, n + 1, KW_TEXT[i], [KW_TEXT[i]]) for n, i in enumerate(idx)]
    prob = diag_problem(exc, 1, lls, verdict.admissible)
    if prob is not None:
        acc.violation(dict(case, text=text, reference=repr(verdict)), prob[0], prob[1], prob[2])
    return ('err', verdict.reason, exc.line_number if isinstance(exc.line_number, int) else None)


def fam_keywords(arg):
    maxlen, heads = arg
    acc = Acc('keywords')
    seen = Seen(acc)
    for head in heads:
        if len(head) < 2:
            tails = [()]
        else:
            tails = itertools.chain.from_iterable(itertools.product(range(NKW), repeat=n) for n in range(0, maxlen - 1))
        for tail in tails:
            idx = list(head + tail)
            acc.cases += 1
            out = check_keywords({'idx': idx}, acc)
            seen.add(out)
            if out[0] == 'ok' and len(idx) >= 4 and len(acc.samples) < 1:
                acc.sample({'text': text_keywords({'idx': idx}), 'verdict': 'accepted'})
            elif out[0] == 'err' and len(idx) == maxlen and len(acc.samples) < 2 and idx[-1] == 9:
                acc.sample({'text': text_keywords({'idx': idx}), 'verdict': list(out)})
    return acc.result()


def keyword_heads():
    return [()] + [(i,) for i in range(NKW)] + [(i, j) for i in range(NKW) for j in range(NKW)]


# ---------------------------------------------------------------------------------------------------------------------
# (b) token soup

VOCAB = gen.VOCAB
NV = len(VOCAB)
SOUP_BEFORE = 'aa = 801'
SOUP_AFTER = 'bb = 802'


def text_soup(case):
    return ' '.join(VOCAB[i] for i in case['tok'])


def check_text(text, start, acc, case, want_line=None, must_have=()):
    """Generic oracle for one text: totality, position sanity, dangling continuation, line accounting.
    want_line: the only physical line (1-based) an error may blame, or None."""
    res = run(text, start)
    acc.evals += 1
    if res[0] == 'host':
        acc.violation(dict(case, text=text, start=start), 'a model or BareScriptParserError', obs(res), 'another exception escapes parse_script')
        return res
    lls = blocks.logical_lines(text)
    if res[0] == 'err':
        prob = diag_problem(res[1], start, lls, None if want_line is None else {want_line}, None, acc)
        if prob is not None:
            acc.violation(dict(case, text=text, start=start), prob[0], prob[1], prob[2])
        return res
    prob = dangling_problem(text, res, lls) or accounting_problem(res[1], lls)
    if prob is None and must_have:
        have = numbers_in(res[1])
        missing = [n for n in must_have if float(n) not in have]
        if missing:
            prob = (f'number literals {list(must_have)} in the model', f'missing {missing}', 'an accepted text lost a line: its literal is not in the model')
    if prob is not None:
        acc.violation(dict(case, text=text, start=start), prob[0], prob[1], prob[2])
    return res


def check_soup(case, acc):
    line = text_soup(case)
    r1 = check_text(line, 1, acc, dict(case, form='alone'), 1)
    r2 = check_text(SOUP_BEFORE + '\n' + line + '\n' + SOUP_AFTER, 7, acc, dict(case, form='embedded'), 2, (801, 802))
    return (r1[0], r2[0], getattr(r1[1], 'column_number', None), getattr(r2[1], 'column_number', None))


def fam_soup(arg):
    maxlen, heads = arg
    acc = Acc('soup')
    seen = Seen(acc)
    for head in heads:
        if len(head) < 2:
            tails = [()]
        else:
            tails = itertools.chain.from_iterable(itertools.product(range(NV), repeat=n) for n in range(0, maxlen - 1))
        for tail in tails:
            tok = list(head + tail)
            acc.cases += 1
            out = check_soup({'tok': tok}, acc)
            seen.add(out)
            if out[0] == 'err':
                acc.nontrivial += 1
            if len(tok) == maxlen and len(acc.samples) < 2 and (out[0] == 'ok') == (len(acc.samples) == 0):
                acc.sample({'line': text_soup({'tok': tok}), 'alone': out[0], 'embedded': out[1], 'columns': [out[2], out[3]]})
    return acc.result()


def soup_heads():
    return [()] + [(i,) for i in range(NV)] + [(i, j) for i in range(NV) for j in range(NV)]


# ---------------------------------------------------------------------------------------------------------------------
# (c) mutated valid programs

SHIP_PARTS = 8


def program(case):
    if case['src'] == 'corpus':
        return gen.corpus(case['depth'])[case['prog']]
    return gen.shipped()[case['prog']]


NUM_SUFFIXES = ('e', 'e+', 'E5', 'em', '.', '_0')     # glued to the right of a number token: 1001e, 1001e+, 1001E5, 1001em, 1001., 1001_0


def program_mutations(lines, every_token=True):
    """All mutation descriptors of a program, simplest first."""
    muts = [['none']]
    for n, line in enumerate(lines):
        if blocks.is_comment(line):
            continue
        spans, ops = gen.line_mutations(line, every_token, n)
        muts.extend([op, n, i] for op, i in ops)
        for i, (a, _) in enumerate(spans):
            if line[a].isdigit():
                muts.extend(['suf', n, i, k] for k in range(len(NUM_SUFFIXES)))
    for n, line in enumerate(lines):
        if blocks.classify(line) in ('endif', 'endwhile', 'endfor', 'endfunction'):
            muts.append(['closer', n])
    muts.append(['backslash'])
    return muts


def count_mutations(lines, every_token=True):
    """Closed form of len(program_mutations(lines)): per code line with n tokens 3n-1 mutants (or 3, or 2 when n == 1), plus
    len(NUM_SUFFIXES) per number token."""
    total = 2
    for line in lines:
        if blocks.is_comment(line):
            continue
        n = len(gen.lex(line))
        if n:
            total += (3 * n - 1) if every_token else (3 if n >= 2 else 2)
        total += len(NUM_SUFFIXES) * sum(1 for a, _ in gen.lex(line) if line[a].isdigit())
        if line.strip() in ('endif', 'endwhile', 'endfor', 'endfunction'):
            total += 1
    return total


def apply_mutation(lines, mut):
    """-> (mutated physical lines, set of indices of lines whose text changed)"""
    out = list(lines)
    op = mut[0]
    if op == 'none':
        return out, set()
    if op == 'backslash':
        out[-1] = out[-1] + ' \\'
        return out, {len(out) - 1}
    if op == 'closer':
        del out[mut[1]]
        return out, set()
    n, i = mut[1], mut[2]
    if op == 'suf':
        end = gen.lex(lines[n])[i][1]
        out[n] = lines[n][:end] + NUM_SUFFIXES[mut[3]] + lines[n][end:]
        return out, {n}
    out[n] = gen.mutate_line(lines[n], gen.lex(lines[n]), op, i)
    return out, {n}


def text_mutants(case):
    _, lines = program(case)
    return '\n'.join(apply_mutation(lines, case['mut'])[0])


def check_mutants(case, acc):
    label, lines = program(case)
    mut = case['mut']
    out, changed = apply_mutation(lines, mut)
    text = '\n'.join(out)
    case = dict(case, program=label)
    res = run(text)
    acc.evals += 1
    if res[0] == 'host':
        acc.violation(dict(case, line=lines[mut[1]] if len(mut) > 1 else None), 'a model or BareScriptParserError', obs(res),
                      'another exception escapes parse_script')
        return ('host',)
    lls = blocks.logical_lines(text)
    detail = dict(case, line=out[mut[1]] if len(mut) > 2 else None)
    if mut[0] == 'none':
        if res[0] != 'ok':
            acc.violation(detail, 'the valid program parses', obs(res), 'a valid program is rejected')
            return ('reject-valid',)
    if mut[0] in ('closer', 'none'):
        verdict = blocks.run_blocks([(blocks.classify(ll.text), ll.start) for ll in lls])
        if verdict.accept != (mut[0] == 'none'):
            raise AssertionError(f'reference automaton: {verdict} for {case}')
        if mut[0] == 'closer':
            if res[0] == 'ok':
                acc.violation(detail, f'BareScriptParserError at one of the lines {sorted(verdict.admissible)} ({verdict.reason})', obs(res),
                              'a program with one closing keyword deleted is accepted silently')
                return ('accept-invalid',)
            prob = diag_problem(res[1], 1, lls, verdict.admissible, None, acc)
            if prob is not None:
                acc.violation(dict(detail, reference=repr(verdict)), prob[0], prob[1], prob[2])
            return ('err', 'closer')
    if res[0] == 'err':
        prob = diag_problem(res[1], 1, lls, None, None, acc)
        if prob is not None:
            acc.violation(detail, prob[0], prob[1], prob[2])
        return ('err', mut[0], res[1].line_number - (mut[1] + 1) if len(mut) > 2 and isinstance(res[1].line_number, int) else None)
    # accepted: nothing may be lost
    prob = dangling_problem(text, res, lls) or accounting_problem(res[1], lls)
    if prob is None and case['src'] == 'corpus':
        have = numbers_in(res[1])
        for n, line in enumerate(out):
            if blocks.is_comment(line):
                continue
            # literals of the original line that are still number tokens of the (possibly mutated) line
            orig = lines[n] if mut[0] != 'closer' else line
            alive = gen.number_tokens(orig) & gen.number_tokens(line)
            missing = sorted(t for t in alive if float(t) not in have)
            if missing:
                prob = (f'the literal(s) {missing} of line {n + 1} in the model', 'absent', 'an accepted text lost a line: its unique literal is not in the model')
                break
    if prob is not None:
        acc.violation(detail, prob[0], prob[1], prob[2])
    return ('ok', mut[0])


def fam_mutants(arg):
    src, depth, every_token, parts = arg
    acc = Acc('mutants')
    seen = Seen(acc)
    for p, part, nparts in parts:
        base = {'src': src, 'depth': depth, 'prog': p}
        _, lines = program(base)
        muts = program_mutations(lines, every_token)
        for mut in (split(muts, nparts)[part] if nparts > 1 else muts):
            acc.cases += 1
            out = check_mutants(dict(base, mut=mut), acc)
            seen.add(out)
            if out[0] == 'err':
                acc.nontrivial += 1
            elif out[0] == 'ok' and mut[0] not in ('none',):
                acc.count('mutants_still_accepted')
                if len(acc.samples) < 1 and len(mut) > 2:
                    acc.sample({'program': program(base)[0], 'mutation': mut, 'mutated_line': apply_mutation(lines, mut)[0][mut[1]],
                                'result': 'accepted, all lines accounted for'})
        if len(acc.samples) < 2:
            acc.sample({'program': program(base)[0], 'lines': len(lines), 'mutations': count_mutations(lines, every_token)})
    return acc.result()


# ---------------------------------------------------------------------------------------------------------------------
# (d) fault columns

STMT_KINDS = ('assign', 'expr', 'return', 'jumpif', 'if', 'elif', 'while', 'for')
HEADS = {'assign': 'xx = ', 'expr': '', 'return': 'return ', 'jumpif': 'jumpif (', 'if': 'if ', 'elif': 'elif ', 'while': 'while ', 'for': 'for vx in '}
CLOSE = {'assign': '', 'expr': '', 'return': '', 'jumpif': ') lbl', 'if': ':', 'elif': ':', 'while': ':', 'for': ':'}
AFTER = {'if': 'endif', 'elif': 'endif', 'while': 'endwhile', 'for': 'endfor'}
FAULTS = ('@', ')', '1')
TAILS = ('', ' b', ' + cc(b)  ')
MAXCOL = 400


def wrap(kind, stmt_line):
    """A three-line program whose line 2 is the statement line."""
    first = 'if cc():' if kind == 'elif' else 'aa = 801'
    return [first, stmt_line, AFTER.get(kind, 'bb = 802')]


def fault_ok(kind, fault):
    # ')' inside 'jumpif ( ... ) lbl' may equally be read as the end of the condition: which token is then at fault is open
    return not (kind == 'jumpif' and fault == ')')


def column_min(kind, fault):
    """Smallest 0-based index the fault token can have."""
    return len(HEADS[kind]) + (2 if fault == '1' else 0)


def build_fault_line(kind, fault, tail, f):
    """The line of the given kind whose fault token starts at 0-based index f: indent + head + chain of L operands + fault."""
    h = len(HEADS[kind])
    if f < h + 2:
        ind, count = f - h, 0
    else:
        count, ind = divmod(f - h + 2, 4)
    body = (' + '.join(['a'] * count) + ' ' if count else '') + fault + tail
    line = ' ' * ind + HEADS[kind] + body + CLOSE[kind]
    assert line[f:f + len(fault)] == fault and 0 <= ind <= 3, (kind, fault, tail, f)
    return line, count


def text_columns(case):
    line, _ = build_fault_line(case['kind'], case['fault'], TAILS[case['tail']], case['f'])
    return '\n'.join(wrap(case['kind'], line))


def check_columns(case, acc):
    kind, fault, f = case['kind'], case['fault'], case['f']
    line, count = build_fault_line(kind, fault, TAILS[case['tail']], f)
    text = '\n'.join(wrap(kind, line))
    res = run(text)
    acc.evals += 1
    detail = dict(case, line=line if len(line) < 100 else line[:60] + ' ... ' + line[-30:], length=len(line), operands=count)
    if res[0] != 'err':
        acc.violation(detail, f'BareScriptParserError at line 2, column {f + 1}', obs(res),
                      'another exception escapes parse_script' if res[0] == 'host' else 'a faulty line is accepted')
        return ('bad',)
    lls = blocks.logical_lines(text)
    prob = diag_problem(res[1], 1, lls, {2}, fault_range(line, f), acc)
    if prob is not None:
        acc.violation(detail, prob[0], prob[1], prob[2])
    return (kind, res[1].column_number - f if isinstance(res[1].column_number, int) else None, len(line) > 120)


def columns_cases():
    out = []
    for kind in STMT_KINDS:
        for fault in FAULTS:
            if fault_ok(kind, fault):
                for tail in range(len(TAILS)):
                    out.append((kind, fault, tail))
    return out


def columns_expected():
    return sum(MAXCOL - column_min(kind, fault) for kind, fault, _ in columns_cases())


def fam_columns(arg):
    acc = Acc('columns')
    seen = Seen(acc)
    for kind, fault, tail, fs in arg:
        for f in fs:
            acc.cases += 1
            out = check_columns({'kind': kind, 'fault': fault, 'tail': tail, 'f': f}, acc)
            seen.add(out)
            if out[-1] is True:
                acc.nontrivial += 1
        if fs and len(acc.samples) < 2:
            acc.sample({'kind': kind, 'fault': fault, 'line': build_fault_line(kind, fault, TAILS[tail], fs[0])[0][:100], 'fault_column': fs[0] + 1})
    return acc.result()


# ---------------------------------------------------------------------------------------------------------------------
# (d2) direct construction of the error object: caret under elision

def caret_lines(length):
    return [''.join(chr(0x100 + i) for i in range(length)), ''.join(chr(0x21 + (i * 7) % 94) for i in range(length))]


def check_caret(case, acc):
    _, perr = impl()
    length, col = case['len'], case['col']
    for which, line in enumerate(caret_lines(length)):
        for line_number in (None, 7):
            try:
                exc = perr('Syntax error', line, col, line_number)
            except BaseException as err:  # pylint: disable=broad-exception-caught
                acc.violation(dict(case, text=which, line_number=line_number), 'an error object', repr(err)[:100], 'constructing the error raises')
                continue
            acc.evals += 1
            prob = None
            if exc.line != line or exc.column_number != col or exc.line_number != line_number:
                prob = ([line[:20], col, line_number], [str(exc.line)[:20], exc.column_number, exc.line_number], 'attributes differ from the constructor arguments')
            prob = prob or caret_problem(str(exc), line, col)
            if prob is None and line_number is not None and str(line_number) not in str(exc).split('\n', 1)[0]:
                prob = ('the line number in the first message line', str(exc).split('\n', 1)[0], 'the message does not mention the line number')
            if prob is not None:
                acc.violation(dict(case, text=which, line_number=line_number), prob[0], prob[1], prob[2])


def fam_caret(lengths):
    acc = Acc('caret')
    seen = Seen(acc)
    _, perr = impl()
    for length in lengths:
        for col in range(1, length + 2):
            acc.cases += 1
            check_caret({'len': length, 'col': col}, acc)
            if length > 120:
                acc.nontrivial += 1
                shown = str(perr('Syntax error', 'x' * length, col)).split('\n')[-3]
                seen.add((shown.startswith('... '), shown.endswith(' ...')))
        if length in (130, 131, 400):
            acc.sample({'length': length, 'column': 70, 'message': str(perr('Syntax error', caret_lines(length)[1], 70, 7))})
    seen.add('short')
    return acc.result()


# ---------------------------------------------------------------------------------------------------------------------
# (e) nesting

SHAPES = ('paren', 'not', 'neg', 'call', 'args', 'mixed', 'right')
SHAPE_VARIANTS = {
    'paren': ('valid', 'unclosed', 'extra', 'fault'), 'not': ('valid', 'extra', 'fault'), 'neg': ('valid', 'extra', 'fault'),
    'call': ('valid', 'unclosed', 'extra', 'fault'), 'args': ('valid', 'unclosed', 'extra', 'fault'),
    'mixed': ('valid', 'unclosed', 'extra', 'fault'), 'right': ('valid', 'unclosed', 'extra', 'fault'),
}


def nest_expr(shape, depth, core):
    if shape == 'paren':
        return '(' * depth + core + ')' * depth
    if shape == 'not':
        return '!' * depth + core
    if shape == 'neg':
        return '-' * depth + core
    if shape == 'call':
        return 'ff(' * depth + core + ')' * depth
    if shape == 'args':
        return 'ff(1, ' * depth + core + ')' * depth
    if shape == 'right':
        return '1 + (' * depth + core + ')' * depth
    opens, closes = [], []
    for i in range(depth):
        o, c = (('(', ')'), ('!', ''), ('gg(', ', 2)'))[i % 3]
        opens.append(o)
        closes.append(c)
    return ''.join(opens) + core + ''.join(reversed(closes))


def build_nesting(case):
    shape, depth, kind, variant = case['shape'], case['depth'], case['stmt'], case['variant']
    expr = nest_expr(shape, depth, '@' if variant == 'fault' else 'xx')
    fault_at = None
    if variant == 'unclosed':
        cut = expr.rindex(')')
        expr = expr[:cut] + expr[cut + 1:]
    elif variant == 'extra':
        expr = expr + ' )'
        fault_at = len(expr) - 1
    elif variant == 'fault':
        fault_at = expr.index('@')
    line = '  ' + HEADS[kind] + expr + CLOSE[kind]
    if fault_at is not None:
        fault_at += 2 + len(HEADS[kind])
    return line, fault_at


def text_nesting(case):
    return '\n'.join(wrap(case['stmt'], build_nesting(case)[0]))


def check_nesting(case, acc):
    line, fault_at = build_nesting(case)
    kind, variant, depth = case['stmt'], case['variant'], case['depth']
    text = '\n'.join(wrap(kind, line))
    res = run(text)
    acc.evals += 1
    detail = dict(case, line=line if len(line) < 120 else line[:80] + ' ...')
    if res[0] == 'host':
        acc.violation(detail, 'a model or BareScriptParserError', obs(res), 'another exception escapes parse_script')
        return ('host',)
    if variant == 'valid':
        if res[0] != 'ok':
            acc.violation(detail, 'the valid nested expression parses', obs(res), 'a valid nested expression is rejected')
            return ('reject-valid',)
        got = expr_depth(res[1])
        if got < depth:
            acc.violation(detail, f'expression nesting depth >= {depth} in the model', got, 'the model lost nesting levels')
        return ('ok', min(got, 3))
    if res[0] == 'ok':
        acc.violation(detail, 'BareScriptParserError at line 2', obs(res), 'a faulty line is accepted')
        return ('accept-invalid',)
    colrange = None
    if fault_at is not None and not (variant == 'extra' and not fault_ok(kind, ')')):
        colrange = fault_range(line, fault_at)
    prob = diag_problem(res[1], 1, blocks.logical_lines(text), {2}, colrange, acc)
    if prob is not None:
        acc.violation(detail, prob[0], prob[1], prob[2])
    return ('err', variant, kind)


def nesting_cases(maxdepth):
    return [(shape, depth) for depth in range(1, maxdepth + 1) for shape in SHAPES]


def fam_nesting(arg):
    acc = Acc('nesting')
    seen = Seen(acc)
    for shape, depth in arg:
        for kind in STMT_KINDS:
            for variant in SHAPE_VARIANTS[shape]:
                acc.cases += 1
                case = {'shape': shape, 'depth': depth, 'stmt': kind, 'variant': variant}
                out = check_nesting(case, acc)
                seen.add(out)
                if depth > 1 or variant != 'valid':
                    acc.nontrivial += 1
        if len(acc.samples) < 2 and depth in (3, 50):
            acc.sample({'shape': shape, 'depth': depth, 'line': build_nesting({'shape': shape, 'depth': depth, 'stmt': 'jumpif', 'variant': 'valid'})[0][:120]})
    return acc.result()


# ---------------------------------------------------------------------------------------------------------------------
# (e2) continuation runs

CONT_WS = (' \\', '\\', ' \\  ', '\t\\\t')
CONT_IND = ('', '    ')
MAXRUN = 8


def build_contin(case):
    """-> (physical lines, kind of expectation, line number to blame, literals that must be in the model)"""
    run_len, pos, kind = case['run'], case['pos'], case['stmt']
    ws, ind = CONT_WS[case['ws']], CONT_IND[case['ind']]
    terms = [str(101 + j) for j in range(run_len + 1)]
    if 0 <= pos <= run_len:
        terms[pos] = '@'
    pieces = []
    for j, term in enumerate(terms):
        piece = (HEADS[kind] + term) if j == 0 else (ind + '+ ' + term)
        if j == run_len:
            piece += CLOSE[kind]
        pieces.append(piece)
    dangling = pos == run_len + 2
    lines = [wrap(kind, '')[0]]
    ncomment = case.get('cm', 0)
    for j, piece in enumerate(pieces):
        lines.append(piece + (ws if j < run_len or dangling else ''))
        if j == 0 and ncomment:
            lines.append('    # a comment between the pieces, with a backslash \\')
    literals = [float(t) for t in terms if t != '@']
    if dangling:
        return lines, 'dangling', 2, literals
    if pos == run_len + 1:
        lines.append('vv(802 @)')
        lines.append(wrap(kind, '')[2])
        return lines, 'after', 2 + run_len + 1 + ncomment, literals
    lines.append('vv(802)')
    lines.append(wrap(kind, '')[2])
    if pos == -1:
        return lines, 'valid', None, literals + [802.0]
    return lines, 'fault', 2, literals


def text_contin(case):
    return '\n'.join(build_contin(case)[0])


def check_contin(case, acc):
    lines, expect, blame, literals = build_contin(case)
    text = '\n'.join(lines)
    res = run(text)
    acc.evals += 1
    detail = dict(case, text=text)
    if res[0] == 'host':
        acc.violation(detail, 'a model or BareScriptParserError', obs(res), 'another exception escapes parse_script')
        return ('host',)
    lls = blocks.logical_lines(text)
    if expect == 'valid':
        if res[0] != 'ok':
            acc.violation(detail, 'the valid continued statement parses', obs(res), 'a valid continued line is rejected')
            return ('reject-valid',)
        have = numbers_in(res[1])
        missing = [n for n in literals if n not in have]
        prob = accounting_problem(res[1], lls)
        if missing:
            acc.violation(detail, f'literals {literals} in the model', f'missing {missing}', 'a continuation piece was dropped')
        elif prob is not None:
            acc.violation(detail, prob[0], prob[1], prob[2])
        return ('ok',)
    if expect == 'dangling':
        if res[0] == 'ok':
            prob = dangling_problem(text, res, lls)
            acc.violation(detail, prob[0], prob[1], prob[2])
            return ('dangling-accepted',)
        prob = diag_problem(res[1], 1, lls, None, None, acc)
        if prob is not None:
            acc.violation(detail, prob[0], prob[1], prob[2])
        return ('dangling-rejected', res[1].line_number)
    if res[0] == 'ok':
        acc.violation(detail, f'BareScriptParserError at line {blame}', obs(res), 'a faulty line is accepted')
        return ('accept-invalid',)
    target = next(ll for ll in lls if ll.start == blame)
    prob = diag_problem(res[1], 1, lls, {blame}, fault_range(target.text, target.text.index('@')), acc)
    if prob is not None:
        acc.violation(detail, prob[0], prob[1], prob[2])
    return ('err', expect, res[1].line_number)


def contin_cases():
    return [(r, pos) for r in range(1, MAXRUN + 1) for pos in range(-1, r + 3)]


def fam_contin(arg):
    acc = Acc('contin')
    seen = Seen(acc)
    for run_len, pos in arg:
        for kind in STMT_KINDS:
            for ws in range(len(CONT_WS)):
                for ind in range(len(CONT_IND)):
                    for cm in (0, 1):
                        acc.cases += 1
                        case = {'run': run_len, 'pos': pos, 'stmt': kind, 'ws': ws, 'ind': ind, 'cm': cm}
                        out = check_contin(case, acc)
                        seen.add(out)
                        if pos != -1:
                            acc.nontrivial += 1
        if len(acc.samples) < 2 and run_len == 3:
            acc.sample({'run': run_len, 'fault_piece': pos, 'text': text_contin({'run': run_len, 'pos': pos, 'stmt': 'if', 'ws': 0, 'ind': 1})})
    return acc.result()


# ---------------------------------------------------------------------------------------------------------------------
# (g) characters that some line splitters treat as line boundaries (the documented split is LF with an optional CR before it)

LINECHARS = ('\x0c', '\x0b', '\x1c', '\x1d', '\x1e', '\x85', '\u2028', '\u2029', '\r')
LC_CLASSES = ('comment', 'ctrail', 'string', 'space', 'slead', 'strail')
LC_SPACE = ('space', 'slead', 'strail')    # the character stands where white space may stand
LC_PLACES = [(pos, cls) for pos in (1, 2, 3) for cls in LC_CLASSES] + [(0, 'string'), (0, 'space')]
EOLS = ('\n', '\r\n')
LC_STMT_LINE = 5


def build_linechars(case, ch):
    """Six physical lines: three plain assignments (one of them replaced by the carrier of the character when pos is 1..3),
    then the statement of the given kind wrapped as in wrap() - it is line 5 and carries the character itself when pos is 0."""
    pos, cls, kind = case['pos'], case['cls'], case['stmt']
    lines = ['p1 = 901', 'p2 = 902', 'p3 = 903']
    if pos:
        lines[pos - 1] = {'comment': f'  # note{ch}qq = 977', 'ctrail': f'  # note qq = 977{ch}', 'string': f"ss = 'ab{ch}cd = 977'",
                          'space': f'ww = 5 +{ch}977', 'slead': f'{ch}ww = 5 + 977', 'strail': f'ww = 5 + 977{ch}'}[cls]
        expr = 'vv(5)'
    else:
        expr = f'vv("a{ch}b")' if cls == 'string' else f'vv({ch}5)'
    if case['faulty']:
        expr += ' @'
    stmt = HEADS[kind] + expr + CLOSE[kind]
    return lines + wrap(kind, stmt), stmt


def text_linechars(case):
    return EOLS[case['eol']].join(build_linechars(case, LINECHARS[case['ch']])[0])


def strings_in(model):
    return [node['string'] for node in walk(model) if isinstance(node.get('string'), str)]


def check_linechars(case, acc):
    ch = LINECHARS[case['ch']]
    pos, cls, start = case['pos'], case['cls'], case['start']
    lines, stmt = build_linechars(case, ch)
    eol = EOLS[case['eol']]
    text = eol.join(lines)
    plain = eol.join(build_linechars(case, ' ' if cls in LC_SPACE else 'x')[0])
    res = run(text, start)
    ref = run(plain, start)
    acc.evals += 2
    detail = dict(case, char=f'U+{ord(ch):04X}', text=text)
    if res[0] == 'host':
        acc.violation(detail, 'a model or BareScriptParserError', obs(res), 'another exception escapes parse_script')
        return ('host',)
    lls = blocks.logical_lines(text)
    carrier = pos or LC_STMT_LINE
    if res[0] == 'err' and cls in LC_SPACE and isinstance(res[1].line_number, int) and res[1].line_number - start + 1 == carrier \
            and (not case['faulty'] or pos):
        # the implementation does not take the character for white space: whether it should is not documented
        acc.unspecified += 1
        prob = diag_problem(res[1], start, lls, {carrier}, None, acc)
        if prob is not None:
            acc.violation(detail, prob[0], prob[1], prob[2])
        return ('not-space',)
    if case['faulty']:
        if ref[0] != 'err':
            raise AssertionError(f'the faulty text without the character is not rejected: {plain!r}')
        if res[0] == 'ok':
            acc.violation(detail, f'BareScriptParserError at line {start + LC_STMT_LINE - 1}', obs(res), 'a faulty line is accepted')
            return ('accept-invalid',)
        prob = diag_problem(res[1], start, lls, {LC_STMT_LINE}, fault_range(stmt, stmt.index('@')), acc)
        if prob is not None:
            acc.violation(detail, prob[0], prob[1],
                          prob[2] + ' (a character that is not a documented line break moved or split the reported line)')
        return ('err', res[1].line_number - start if isinstance(res[1].line_number, int) else None)
    if ref[0] != 'ok':
        raise AssertionError(f'the valid text without the character is rejected: {plain!r}')
    if res[0] != 'ok':
        acc.violation(detail, 'accepted like the same text with the character replaced', obs(res),
                      'a valid text is rejected because of a character inside a comment / string literal')
        return ('reject-valid',)
    got, want = flatten(res[1]), flatten(ref[1])
    if len(got) != len(want):
        acc.violation(detail, f'{len(want)} statements (as with the character replaced by {"a blank" if cls in LC_SPACE else "x"})', f'{len(got)} statements',
                      'the character changed the number of statements: it was taken for a line break')
    elif cls in ('comment', 'ctrail') and 977.0 in numbers_in(res[1]):
        acc.violation(detail, 'the comment produces no statement', 'number 977 in the model', 'the tail of a comment became a statement')
    elif cls == 'string' and (f'ab{ch}cd = 977' if pos else f'a{ch}b') not in strings_in(res[1]):
        acc.violation(detail, 'one string literal holding the character', strings_in(res[1]), 'a string literal holding the character did not stay one literal')
    elif cls in LC_SPACE and got != want:
        acc.violation(detail, 'the model of the same text with a blank', obs(res), 'white space the implementation accepts changed the model')
    else:
        prob = accounting_problem(res[1], lls)
        if prob is not None:
            acc.violation(detail, prob[0], prob[1], prob[2])
    return ('ok', len(got))


def fam_linechars(chars):
    acc = Acc('linechars')
    seen = Seen(acc)
    for ci in chars:
        for pos, cls in LC_PLACES:
            for kind in STMT_KINDS:
                for faulty in (False, True):
                    for eol in range(len(EOLS)):
                        for start in STARTS:
                            acc.cases += 1
                            case = {'ch': ci, 'pos': pos, 'cls': cls, 'stmt': kind, 'faulty': faulty, 'eol': eol, 'start': start}
                            out = check_linechars(case, acc)
                            seen.add(out)
                            if faulty:
                                acc.nontrivial += 1
        acc.sample({'char': f'U+{ord(LINECHARS[ci]):04X}', 'text': text_linechars({'ch': ci, 'pos': 2, 'cls': 'comment', 'stmt': 'while', 'faulty': True, 'eol': 0}),
                    'expected': 'error at line 5, its column on the @'})
    return acc.result()


# ---------------------------------------------------------------------------------------------------------------------
# (h) physical lines that hold only a backslash

BS_LINES = ('\\', '  \\', '\\  ', '\t\\ ')
BS_TRAILS = ([], [''], ['# c'], ['', '   # c \\', ''])
BS_CONTEXTS = {'none': [], 'stmt': ['aa = 801'], 'cont': ['xx = 101 \\'], 'block': ['if cc():', 'vv(1)', 'endif'], 'open': ['if cc():', 'vv(1)']}


def build_bsonly(case):
    """-> (physical lines, expectation, line to blame (1-based) or None, literals that must be in the model)"""
    empty = [BS_LINES[case['bs']]] * case['n']
    if case['part'] == 'eof':
        ctx = BS_CONTEXTS[case['ctx']]
        return ctx + empty + BS_TRAILS[case['trail']], 'eof', None, []
    run_len, at, pos, kind = case['run'], case['at'], case['pos'], case['stmt']
    terms = [str(101 + j) for j in range(run_len + 1)]
    if 0 <= pos <= run_len:
        terms[pos] = '@'
    lines = [wrap(kind, '')[0]]
    for j, term in enumerate(terms):
        if j == at:
            lines.extend(empty)
        piece = (HEADS[kind] + term) if j == 0 else ('    + ' + term)
        lines.append(piece + (CLOSE[kind] if j == run_len else ' \\'))
    literals = [float(t) for t in terms if t != '@']
    if pos == run_len + 1:
        lines.append('vv(802 @)')
        lines.append(wrap(kind, '')[2])
        return lines, 'after', len(lines) - 1, literals
    lines.append('vv(802)')
    lines.append(wrap(kind, '')[2])
    if pos == -1:
        return lines, 'valid', None, literals + [802.0]
    return lines, 'fault', 2, literals


def text_bsonly(case):
    return '\n'.join(build_bsonly(case)[0])


def check_bsonly(case, acc):
    lines, expect, blame, literals = build_bsonly(case)
    text = '\n'.join(lines)
    res = run(text)
    acc.evals += 1
    detail = dict(case, text=text)
    if res[0] == 'host':
        acc.violation(detail, 'a model or BareScriptParserError', obs(res), 'another exception escapes parse_script')
        return ('host',)
    lls = blocks.logical_lines(text)
    if expect == 'eof':
        pending = lls[-1]
        if not pending.pending:
            raise AssertionError(f'reference joiner: no pending continuation in {text!r}')
        if res[0] == 'ok':
            prob = dangling_problem(text, res, lls)
            acc.violation(detail, prob[0], prob[1], prob[2])
            return ('eof-accepted',)
        prob = diag_problem(res[1], 1, lls, {pending.start} | ({1} if case['ctx'] == 'open' else set()), None, acc)
        if prob is not None:
            acc.violation(detail, prob[0], prob[1], prob[2])
        return ('eof-rejected', res[1].line_number - pending.start if isinstance(res[1].line_number, int) else None)
    if expect == 'valid':
        if res[0] != 'ok':
            acc.violation(detail, 'the valid continued statement parses', obs(res), 'a valid statement with a backslash-only line is rejected')
            return ('reject-valid',)
        have = numbers_in(res[1])
        missing = [n for n in literals if n not in have]
        prob = accounting_problem(res[1], lls)
        if missing:
            acc.violation(detail, f'literals {literals} in the model', f'missing {missing}', 'a continuation piece was dropped')
        elif prob is not None:
            acc.violation(detail, prob[0], prob[1], prob[2])
        return ('ok',)
    if res[0] == 'ok':
        acc.violation(detail, f'BareScriptParserError at line {blame}', obs(res), 'a faulty line is accepted')
        return ('accept-invalid',)
    target = next(ll for ll in lls if ll.start == blame)
    prob = diag_problem(res[1], 1, lls, {blame}, fault_range(target.text, target.text.index('@')), acc)
    if prob is not None:
        acc.violation(detail, prob[0], prob[1], prob[2])
    return ('err', expect, res[1].line_number, res[1].column_number - target.text.index('@'))


def bsonly_cases(maxrun):
    return [(r, at) for r in range(0, maxrun + 1) for at in range(0, r + 1)]


def bsonly_expected(maxrun):
    return sum((r + 1) * (r + 3) for r in range(0, maxrun + 1)) * 2 * len(BS_LINES) * len(STMT_KINDS) + len(BS_CONTEXTS) * 2 * len(BS_LINES) * len(BS_TRAILS)


def fam_bsonly(arg):
    part, items = arg
    acc = Acc('bsonly')
    seen = Seen(acc)
    if part == 'eof':
        for ctx in BS_CONTEXTS:
            for n in (1, 2):
                for b in range(len(BS_LINES)):
                    for trail in range(len(BS_TRAILS)):
                        acc.cases += 1
                        acc.nontrivial += 1
                        seen.add(check_bsonly({'part': 'eof', 'ctx': ctx, 'n': n, 'bs': b, 'trail': trail}, acc))
        acc.sample({'text': text_bsonly({'part': 'eof', 'ctx': 'block', 'n': 1, 'bs': 1, 'trail': 3}), 'expected': 'rejected: continuation pending at end of input'})
        return acc.result()
    for run_len, at in items:
        for n in (1, 2):
            for b in range(len(BS_LINES)):
                for kind in STMT_KINDS:
                    for pos in range(-1, run_len + 2):
                        acc.cases += 1
                        case = {'part': 'stmt', 'run': run_len, 'at': at, 'n': n, 'bs': b, 'stmt': kind, 'pos': pos}
                        seen.add(check_bsonly(case, acc))
                        if pos != -1:
                            acc.nontrivial += 1
        if len(acc.samples) < 2:
            acc.sample({'run': run_len, 'backslash_only_before_piece': at,
                        'text': text_bsonly({'part': 'stmt', 'run': run_len, 'at': at, 'n': 1, 'bs': 0, 'stmt': 'if', 'pos': run_len})})
    return acc.result()


# ---------------------------------------------------------------------------------------------------------------------
# (i) include lines: every include line is one include entry of the model

INC_LINES = ("include 'a.bare'", 'include <a.bare>', "include 'b.bare'", 'xx = 1', '# comment', '')
INC_ENTRY = {0: ('a.bare', False), 1: ('a.bare', True), 2: ('b.bare', False)}
INC_CONTEXTS = ('top', 'function')


def text_includes(case):
    lines = [INC_LINES[i] for i in case['idx']]
    if case['ctx'] == 'function':
        lines = ['function ff():'] + ['    ' + ln if ln else ln for ln in lines] + ['endfunction']
    return '\n'.join(lines)


def include_entries(model):
    """(url, system) of every include entry of the model in source order, function bodies in place; None if malformed."""
    out = []
    stack = [iter(model['statements'])]
    while stack:
        try:
            st = next(stack[-1])
        except StopIteration:
            stack.pop()
            continue
        if isinstance(st, dict) and 'function' in st and isinstance(st['function'].get('statements'), list):
            stack.append(iter(st['function']['statements']))
        elif isinstance(st, dict) and 'include' in st:
            incs = st['include'].get('includes') if isinstance(st['include'], dict) else None
            if not isinstance(incs, list) or not incs:
                return None
            for inc in incs:
                if not isinstance(inc, dict):
                    return None
                out.append((inc.get('url'), bool(inc.get('system', False))))
    return out


def check_includes(case, acc):
    idx = case['idx']
    text = text_includes(case)
    res = run(text)
    acc.evals += 1
    detail = dict(case, text=text)
    if res[0] != 'ok':
        acc.violation(detail, 'the valid text parses', obs(res),
                      'another exception escapes parse_script' if res[0] == 'host' else 'a valid text of include lines and assignments is rejected')
        return ('bad',)
    want = [INC_ENTRY[i] for i in idx if i in INC_ENTRY]
    got = include_entries(res[1])
    if got != want:
        acc.violation(detail, [list(w) for w in want], None if got is None else [list(g) for g in got],
                      'the include entries of the model (url, system) are not the include lines of the text in order: an include line was dropped, added or changed')
        return ('includes-differ',)
    assigns = sum(1 for entry in flatten(res[1]) if not entry.startswith('["include"'))
    if assigns != sum(1 for i in idx if i == 3):
        acc.violation(detail, f'{sum(1 for i in idx if i == 3)} assignment statements', assigns, 'the model does not account for every statement line')
    return (len(want), len(set(want)))


def fam_includes(arg):
    maxlen, heads = arg
    acc = Acc('includes')
    seen = Seen(acc)
    for ctx in INC_CONTEXTS:
        for head in heads:
            tails = [()] if len(head) < 1 else itertools.chain.from_iterable(itertools.product(range(len(INC_LINES)), repeat=n) for n in range(0, maxlen))
            for tail in tails:
                idx = list(head + tail)
                acc.cases += 1
                out = check_includes({'idx': idx, 'ctx': ctx}, acc)
                seen.add(out)
                incs = [i for i in idx if i in INC_ENTRY]
                if len(incs) != len(set(incs)):
                    acc.nontrivial += 1
                    if len(acc.samples) < 2 and len(idx) == maxlen and ctx == 'function':
                        acc.sample({'text': text_includes({'idx': idx, 'ctx': ctx}), 'include_entries_expected': [list(INC_ENTRY[i]) for i in incs]})
    return acc.result()


# ---------------------------------------------------------------------------------------------------------------------
# (j) unclosed-block diagnostics when the opening line is a continued line

OPN_PARTS = {'if': ['if cc()', '== 1', '|| vv():'], 'while': ['while aa', '< 3', '&& cc():'], 'for': ['for vx in', 'pk(1,', '2):'],
             'function': ['function ff(aa,', 'bb,', 'cc2):']}
OPN_WS = (' \\', '\\')
OPN_LAYOUTS = [(1, 0, 0)] + [(f, cm, ws) for f in (2, 3) for cm in (0, 1) for ws in (0, 1)]     # (fragments, comment between, spacing)
OPN_WRONG = {'if': 'endwhile', 'while': 'endfor', 'for': 'endif'}
OPN_SCENARIOS = {
    'if': ('eof', 'eof-inner', 'function-eof', 'endfunction', 'wrongcloser', 'elif1', 'elif2', 'elif2else'),
    'while': ('eof', 'eof-inner', 'function-eof', 'endfunction', 'wrongcloser'),
    'for': ('eof', 'eof-inner', 'function-eof', 'endfunction', 'wrongcloser'),
    'function': ('eof', 'open-block', 'nested'),
}
OPN_PRE = ([], ['aa = 801', '# c'])


def opener_lines(kind, layout):
    frags_n, comment, ws = layout
    parts = OPN_PARTS[kind]
    frags = [' '.join(parts)] if frags_n == 1 else ([parts[0], parts[1] + ' ' + parts[2]] if frags_n == 2 else list(parts))
    out = []
    for j, frag in enumerate(frags):
        out.append(('    ' if j else '') + frag + (OPN_WS[ws] if j < len(frags) - 1 else ''))
        if j == 0 and comment and len(frags) > 1:
            out.append('      # a comment between the fragments')
    return out


def text_openers(case):
    kind, scen = case['opener'], case['scen']
    opener = opener_lines(kind, OPN_LAYOUTS[case['layout']])
    lines = list(OPN_PRE[case['pre']])
    if kind == 'function':
        lines += opener + {'eof': ['vv(1)'], 'open-block': ['if cc():', 'vv(1)'], 'nested': ['vv(1)', 'function hh():', 'endfunction', 'endfunction']}[scen]
    elif scen == 'eof':
        lines += opener + ['vv(1)']
    elif scen == 'eof-inner':
        lines += ['while cc():'] + opener + ['vv(1)']
    elif scen == 'function-eof':
        lines += ['function gg():'] + opener + ['vv(1)']
    elif scen == 'endfunction':
        lines += ['function gg():'] + opener + ['vv(1)', 'endfunction', 'vv(2)']
    elif scen == 'wrongcloser':
        lines += opener + ['vv(1)', OPN_WRONG[kind]]
    else:
        lines += opener + ['vv(1)', 'elif cc():', 'vv(2)']
        if scen != 'elif1':
            lines += ['elif vv():', 'vv(3)']
        if scen == 'elif2else':
            lines += ['else:', 'vv(4)']
    return '\n'.join(lines)


def check_openers(case, acc):
    text = text_openers(case)
    start = case['start']
    lls = blocks.logical_lines(text)
    verdict = blocks.run_blocks([(blocks.classify(ll.text), ll.start) for ll in lls])
    if verdict.accept:
        raise AssertionError(f'reference automaton accepts {text!r}')
    res = run(text, start)
    acc.evals += 1
    detail = dict(case, text=text, reference=repr(verdict))
    if res[0] != 'err':
        acc.violation(detail, f'BareScriptParserError at one of the lines {sorted(start + a - 1 for a in verdict.admissible)} ({verdict.reason})', obs(res),
                      'another exception escapes parse_script' if res[0] == 'host' else 'a block left open is accepted silently')
        return ('bad', res[0])
    prob = diag_problem(res[1], start, lls, verdict.admissible, None, acc)
    if prob is not None:
        acc.violation(detail, prob[0], prob[1], prob[2] + ' (unclosed block whose opening line is continued over several physical lines)')
    return ('err', verdict.reason, res[1].line_number - start if isinstance(res[1].line_number, int) else None)


def openers_cases():
    return [(kind, scen) for kind in OPN_PARTS for scen in OPN_SCENARIOS[kind]]


def fam_openers(items):
    acc = Acc('openers')
    seen = Seen(acc)
    for kind, scen in items:
        for layout in range(len(OPN_LAYOUTS)):
            for pre in range(len(OPN_PRE)):
                for start in STARTS:
                    acc.cases += 1
                    case = {'opener': kind, 'scen': scen, 'layout': layout, 'pre': pre, 'start': start}
                    seen.add(check_openers(case, acc))
                    if layout:
                        acc.nontrivial += 1
        if len(acc.samples) < 2:
            acc.sample({'text': text_openers({'opener': kind, 'scen': scen, 'layout': 6, 'pre': 1}), 'expected': 'error at the first fragment of the opening line, line = joined text'})
    return acc.result()


# ---------------------------------------------------------------------------------------------------------------------
# (k) fault columns when the faulty expression text also occurs earlier in the line

# (statement kind, text before the fault token, fault token, text after it). The fault position is known by construction;
# for an expression that ends where an operand is expected the fault is the character that follows the expression text.
OVERLAPS = (
    ('assign', 'xx = ', '=', ' ='), ('assign', 'aa = aa ', 'aa', ''), ('assign', 'aa = aa + aa ', 'aa', ' + aa'), ('assign', 'x1 = 1 ', '1', ' 1'),
    ('assign', 'ab = ab(ab ', 'ab', ')'), ('assign', 'xx = xx ', '=', ' = xx'),
    ('expr', 'aa ', 'aa', ''), ('expr', 'aa + aa ', 'aa', ' + aa'), ('expr', 'vv(1) ', 'vv', '(1)'), ('expr', '1 ', '1', ' 1'), ('expr', '(aa) ', '(', 'aa) (aa)'),
    ('return', 'return return ', 'return', ''), ('return', 'return aa ', 'aa', ''), ('return', 'return 1 ', '1', ' 1'), ('return', 'return return +', '', ''),
    ('return', 'return (return) ', '(', 'return)'),
    ('jumpif', 'jumpif ((', ')', ' lbl'), ('jumpif', 'jumpif (if (', ')', ' lbl'), ('jumpif', 'jumpif (aa ', 'aa', ') aa'), ('jumpif', 'jumpif (lbl ', 'lbl', ') lbl'),
    ('jumpif', 'jumpif (jumpif ', 'jumpif', ') jumpif'),
    ('if', 'if if ', 'if', ':'), ('if', 'if aa ', 'aa', ':'), ('if', 'if 1 ', '1', ' 1:'), ('if', 'if (if) ', '(', 'if):'),
    ('elif', 'elif elif ', 'elif', ':'), ('elif', 'elif if ', 'if', ':'), ('elif', 'elif aa ', 'aa', ' :'),
    ('while', 'while while ', 'while', ':'), ('while', 'while aa ', 'aa', ':'), ('while', 'while 1 ', '1', ' 1 :'),
    ('for', 'for vx in in ', 'in', ':'), ('for', 'for vx in vx ', 'vx', ':'), ('for', 'for in in in ', 'in', ':'), ('for', 'for vx, ix in ix ', 'ix', ' :'),
)
OVL_INDENTS = ('', '  ', '\t')


def build_overlap(case):
    kind, before, fault, after = OVERLAPS[case['tpl']]
    before = OVL_INDENTS[case['indent']] + before
    return kind, before + fault + after, len(before)


def text_overlap(case):
    kind, line, _ = build_overlap(case)
    return '\n'.join(wrap(kind, line))


def check_overlap(case, acc):
    kind, line, idx = build_overlap(case)
    text = '\n'.join(wrap(kind, line))
    start = case['start']
    res = run(text, start)
    acc.evals += 1
    detail = dict(case, line=line, fault_column=idx + 1)
    if res[0] != 'err':
        acc.violation(detail, f'BareScriptParserError at line {start + 1}, column {idx + 1}', obs(res),
                      'another exception escapes parse_script' if res[0] == 'host' else 'a faulty line is accepted')
        return ('bad',)
    prob = diag_problem(res[1], start, blocks.logical_lines(text), {2}, fault_range(line, idx), acc)
    if prob is not None:
        acc.violation(detail, prob[0], prob[1], prob[2] + ' (the faulty expression text also occurs earlier in the line)')
    return (kind, res[1].column_number - idx if isinstance(res[1].column_number, int) else None)


def fam_overlap(tpls):
    acc = Acc('overlap')
    seen = Seen(acc)
    for tpl in tpls:
        for indent in range(len(OVL_INDENTS)):
            for start in STARTS:
                acc.cases += 1
                acc.nontrivial += 1
                seen.add(check_overlap({'tpl': tpl, 'indent': indent, 'start': start}, acc))
        if len(acc.samples) < 2:
            acc.sample({'line': build_overlap({'tpl': tpl, 'indent': 1})[1], 'fault_column': build_overlap({'tpl': tpl, 'indent': 1})[2] + 1})
    return acc.result()


# ---------------------------------------------------------------------------------------------------------------------
# (l) lines that still carry a carriage return when the parser sees them

# (expression text, 0-based index of the fault token in it, or None when the fault is the END of the expression)
CR_FAULTS = (
    ('@ + 1', 0),
    ('1 @ 2', 2), ('ff(1 @, 2)', 5), ('ff(1, @)', 6), ('!1 @', 3), ('aa + bb @', 8),
    ('1 +', None), ('ff(1,', None), ('ff(1', None), ('(1 +', None), ('1 + (', None), ('!', None), ('ff(', None),
)
CR_FORMS = ('iter', 'iter2', 'trail', 'trail-ws')     # iterable of lines ending in CR / in CR CR; str ending in a lone CR / in blank + CR
CR_INDENTS = ('', '  ')


def build_crlines(case):
    """-> (script argument for parse_script, the faulty line exactly as the parser receives it, content length, fault index or None,
    index of the statement's closing text or None)"""
    kind = case['stmt']
    expr, fidx = CR_FAULTS[case['fault']]
    ind = CR_INDENTS[case['indent']]
    content = ind + HEADS[kind] + expr + CLOSE[kind]
    base = len(ind) + len(HEADS[kind])
    close_at = base + len(expr) if CLOSE[kind] else None
    first, _, after = wrap(kind, '')
    form = case['form']
    if form in ('iter', 'iter2'):
        tail = '\r' if form == 'iter' else '\r\r'
        return [first + tail, content + tail, after + tail], content + tail, len(content), None if fidx is None else base + fidx, close_at
    tail = '\r' if form == 'trail' else ' \r'
    return first + '\n' + content + tail, content + tail, len(content), None if fidx is None else base + fidx, close_at


def check_crlines(case, acc):
    script, raw, clen, fidx, close_at = build_crlines(case)
    start = case['start']
    res = run(script, start)
    acc.evals += 1
    detail = dict(case, script=script)
    if res[0] != 'err':
        acc.violation(detail, f'BareScriptParserError at line {start + 1}', obs(res),
                      'another exception escapes parse_script' if res[0] == 'host' else 'a faulty line is accepted')
        return ('bad', res[0])
    exc = res[1]
    if exc.line_number != start + 1 or isinstance(exc.line_number, bool):
        acc.violation(detail, start + 1, exc.line_number, 'line_number is not the number of the faulty line (lines carrying a carriage return)')
        return ('line',)
    line = exc.line
    # whether the carriage return itself is kept in .line is not prescribed - it only has to be consistent with the column
    allowed = (raw, raw.rstrip('\r'), raw.rstrip())
    if not isinstance(line, str) or line not in allowed:
        acc.violation(detail, f'{raw!r} (with or without its trailing carriage return / blanks)', line, 'line is not the text of the faulty line')
        return ('text',)
    col = exc.column_number
    if not isinstance(col, int) or isinstance(col, bool) or not 1 <= col <= len(line) + 1:
        acc.violation(detail, f'1 <= column_number <= {len(line) + 1} for line {line!r}', col, 'column_number is outside the reported line')
        return ('range',)
    if fidx is not None:
        lo, hi = fault_range(raw, fidx)
    elif close_at is not None:
        lo, hi = fault_range(raw, close_at)
    else:
        lo, hi = clen + 1, len(line) + 1       # end of the expression: anywhere in the trailing blanks / CR or just past the line
    if not lo <= col <= hi:
        acc.violation(detail, f'column in {lo}..{hi} of {line!r}', col, 'column_number does not point at the fault (line carrying a carriage return)')
        return ('column',)
    prob = caret_problem(str(exc), line, col)
    if prob is not None:
        acc.violation(detail, prob[0], prob[1], prob[2] + ' (line carrying a carriage return)')
    return ('err', col - clen if fidx is None else col - fidx, line == raw)


def fam_crlines(kinds):
    acc = Acc('crlines')
    seen = Seen(acc)
    for kind in kinds:
        for fault in range(len(CR_FAULTS)):
            for form in CR_FORMS:
                for indent in range(len(CR_INDENTS)):
                    for start in STARTS:
                        acc.cases += 1
                        case = {'stmt': kind, 'fault': fault, 'form': form, 'indent': indent, 'start': start}
                        seen.add(check_crlines(case, acc))
                        if CR_FAULTS[fault][1] is None:
                            acc.nontrivial += 1
        acc.sample({'script': build_crlines({'stmt': kind, 'fault': 6, 'form': 'iter', 'indent': 1})[0], 'expected': 'error at line 2, column at the end of the expression, caret under it'})
    return acc.result()


# ---------------------------------------------------------------------------------------------------------------------
# (m) number-literal near misses: digit runs followed by letters, incomplete exponents, odd spellings

NUM_TOKENS = (
    '1e', '1e+', '1e-', '1E', '2.5E-', '1e5', '1E5', '1E+5', '1e+5', '10em', '1else', '1elif', '5endif', '2e)', '1.', '1..2', '.5', '1.5.2', '1.e+2',
    '1_000', '0x10', '1e+400', '1e-400', '-1e+400', '00', '-', '+', '+1', '-1e', '1e++2', '1ee2', '1e+2e+2', '1e+' + '9' * 40, '9' * 400, '1.' + '0' * 400,
    '\u0967\u0968', '1e+\u0663', '\u00b2', '1\uff11',      # Devanagari 12, exponent with an Arabic-Indic digit, superscript two, 1 + fullwidth 1
)
NUM_PLACES = ('{n}', '1 + {n}', '{n} + 1', 'ff({n})', 'ff(1, {n}, 2)', '(2){n}', "'s'{n}", 'aa {n}', '7{n}', '-{n}', '1 +{n}', 'aa{n}')
NUM_CONTEXTS = STMT_KINDS + ('pexpr',)


def text_numlit(case):
    expr = NUM_PLACES[case['place']].format(n=NUM_TOKENS[case['tok']])
    kind = NUM_CONTEXTS[case['ctx']]
    if kind == 'pexpr':
        return expr
    return '\n'.join(wrap(kind, '  ' + HEADS[kind] + expr + CLOSE[kind]))


def run_expression(text):
    impl()
    if 'pexpr' not in _IMPL:
        from bare_script.parser import parse_expression  # pylint: disable=import-outside-toplevel,import-error
        _IMPL['pexpr'] = parse_expression
    try:
        model = _IMPL['pexpr'](text)
    except _IMPL['err'] as exc:
        return 'err', exc
    except BaseException as exc:  # pylint: disable=broad-exception-caught
        if isinstance(exc, (KeyboardInterrupt, SystemExit)):
            raise
        return 'host', exc
    if not isinstance(model, dict):
        return 'host', TypeError(f'parse_expression returned {type(model).__name__}')
    return 'ok', {'statements': [{'expr': {'expr': model}}]}


def check_numlit(case, acc):
    text = text_numlit(case)
    kind = NUM_CONTEXTS[case['ctx']]
    start = case['start']
    res = run_expression(text) if kind == 'pexpr' else run(text, start)
    acc.evals += 1
    detail = dict(case, text=text if len(text) < 200 else text[:120] + ' ...', token=NUM_TOKENS[case['tok']][:40])
    if res[0] == 'host':
        acc.violation(detail, 'a model or BareScriptParserError', obs(res), 'another exception escapes the parser (number-literal near miss)')
        return ('host',)
    if res[0] == 'ok':
        if kind != 'pexpr':
            prob = accounting_problem(res[1], blocks.logical_lines(text))
            if prob is not None:
                acc.violation(detail, prob[0], prob[1], prob[2])
        return ('ok', len(numbers_in(res[1])))
    exc = res[1]
    if kind == 'pexpr':
        col = getattr(exc, 'column_number', None)
        if getattr(exc, 'line', None) != text:
            acc.violation(detail, text, getattr(exc, 'line', None), 'parse_expression error: line is not the expression text')
        elif not isinstance(col, int) or isinstance(col, bool) or not 1 <= col <= len(text) + 1:
            acc.violation(detail, f'1 <= column_number <= {len(text) + 1}', col, 'parse_expression error: column_number is outside the text')
        else:
            prob = caret_problem(str(exc), text, col)
            if prob is not None:
                acc.violation(detail, prob[0], prob[1], prob[2])
        return ('err', 'pexpr')
    prob = diag_problem(exc, start, blocks.logical_lines(text), {2}, None, acc)
    if prob is not None:
        acc.violation(detail, prob[0], prob[1], prob[2])
    return ('err', kind)


def fam_numlit(toks):
    acc = Acc('numlit')
    seen = Seen(acc)
    for tok in toks:
        for place in range(len(NUM_PLACES)):
            for ctx, kind in enumerate(NUM_CONTEXTS):
                for start in ((1,) if kind == 'pexpr' else STARTS):
                    acc.cases += 1
                    out = check_numlit({'tok': tok, 'place': place, 'ctx': ctx, 'start': start}, acc)
                    seen.add(out)
                    if out[0] == 'err':
                        acc.nontrivial += 1
        if len(acc.samples) < 2 and len(NUM_TOKENS[tok]) < 12:
            acc.sample({'token': NUM_TOKENS[tok], 'text': text_numlit({'tok': tok, 'place': 4, 'ctx': 3}), 'alone': check_numlit({'tok': tok, 'place': 0, 'ctx': 8, 'start': 1}, Acc('x'))[0]})
    return acc.result()


# ---------------------------------------------------------------------------------------------------------------------
# (f) prefix metamorphosis

PREFIX_LINES = ('# c', '', 'zz = 1')
PREFIXES = [list(p) for n in (1, 2, 3) for p in itertools.product(range(3), repeat=n)]
STARTS = (1, 7)
_TEXT_OF = {'keywords': text_keywords, 'soup': text_soup, 'mutants': text_mutants, 'columns': text_columns}


def prefix_bases(tier):
    """Base cases: a stated sub-space of the other families (all of it, no selection by outcome)."""
    quick = tier == 'quick'
    out = []
    for n in range(0, (3 if quick else 4) + 1):
        for idx in itertools.product(range(NKW), repeat=n):
            out.append(['keywords', {'idx': list(idx)}])
    for n in range(0, (2 if quick else 3) + 1):
        for tok in itertools.product(range(NV), repeat=n):
            out.append(['soup', {'tok': list(tok)}])
    depth = 3
    for p in range(4 if quick else 16):
        base = {'src': 'corpus', 'depth': depth, 'prog': p * 6}
        for mut in program_mutations(program(base)[1]):
            out.append(['mutants', dict(base, mut=mut)])
    for kind, fault, tail in columns_cases():
        if tail == (1 if quick else tail):
            for f in range(column_min(kind, fault), 140 if quick else 200):
                out.append(['columns', {'kind': kind, 'fault': fault, 'tail': tail, 'f': f}])
    return out


def prefix_expected(tier):
    quick = tier == 'quick'
    n = sum(NKW ** k for k in range(0, (3 if quick else 4) + 1)) + sum(NV ** k for k in range(0, (2 if quick else 3) + 1))
    for p in range(4 if quick else 16):
        n += count_mutations(gen.corpus(3)[p * 6][1])
    for kind, fault, tail in columns_cases():
        if tail == (1 if quick else tail):
            n += (140 if quick else 200) - column_min(kind, fault)
    return n * len(PREFIXES) * len(STARTS)


def check_prefix(case, acc, base_res=None):
    family, bcase = case['base']
    text = _TEXT_OF[family](bcase)
    if base_res is None:
        base_res = run(text)
        acc.evals += 1
    pre = [PREFIX_LINES[i] for i in case['prefix']]
    start = case['start']
    res = run('\n'.join(pre + [text]), start)
    acc.evals += 1
    detail = dict(case, text=text)
    if base_res[0] == 'host' or res[0] == 'host':
        if base_res[0] != 'host':
            acc.violation(detail, obs(base_res), obs(res), 'prefixed text raises another exception')
        return
    if base_res[0] == 'ok':
        nstat = sum(1 for i in case['prefix'] if i == 2)
        if res[0] != 'ok':
            acc.violation(detail, 'accepted like the text without prefix', obs(res), 'prepending comment/blank/statement lines turns an accepted text into a rejected one')
        elif res[1]['statements'][nstat:] != base_res[1]['statements'] or len(res[1]['statements']) != nstat + len(base_res[1]['statements']):
            acc.violation(detail, f'{nstat} prefix statements followed by the model of the text', obs(res), 'prepending lines changes the model of the text')
        return
    if res[0] != 'err':
        acc.violation(detail, obs(base_res), obs(res), 'prepending comment/blank/statement lines turns a rejected text into an accepted one')
        return
    b, e = base_res[1], res[1]
    want = [b.error, b.line, b.column_number, (b.line_number + len(pre) + start - 1) if isinstance(b.line_number, int) else 'a line number']
    got = [e.error, e.line, e.column_number, e.line_number]
    if want != got:
        which = ['error text', 'line', 'column_number', 'line_number'][[w == g for w, g in zip(want, got)].index(False)]
        acc.violation(detail, want, got, f'prefix of {len(pre)} line(s), start line {start}: {which} is not the base diagnostic shifted by the prefix length')


def fam_prefix(arg):
    tier, lo, hi = arg
    acc = Acc('prefix')
    seen = Seen(acc)
    bases = prefix_bases(tier)[lo:hi]
    for family, bcase in bases:
        base_res = run(_TEXT_OF[family](bcase))
        acc.evals += 1
        for prefix in PREFIXES:
            for start in STARTS:
                acc.cases += 1
                check_prefix({'base': [family, bcase], 'prefix': prefix, 'start': start}, acc, base_res)
                if base_res[0] == 'err':
                    acc.nontrivial += 1
        seen.add((family, base_res[0], getattr(base_res[1], 'line_number', None)))
        if len(acc.samples) < 2 and base_res[0] == 'err' and family != 'keywords':
            acc.sample({'base_family': family, 'text': _TEXT_OF[family](bcase)[-160:], 'base_error': obs(base_res)[1:4], 'prefixes': len(PREFIXES), 'starts': list(STARTS)})
    return acc.result()


# ---------------------------------------------------------------------------------------------------------------------

def families(tier):
    quick = tier == 'quick'
    kw_len = 6 if quick else 7
    soup_len = 4 if quick else 5
    depth = 3 if quick else 4
    nest = 50 if quick else 100
    bs_run = 3 if quick else 6
    inc_len = 4 if quick else 6
    ncorpus = len(gen.corpus(depth))
    corpus_expected = sum(count_mutations(lines) for _, lines in gen.corpus(depth))
    ship = gen.shipped()
    ship_expected = sum(count_mutations(lines) for _, lines in ship)
    col_shards = []
    for kind, fault, tail in columns_cases():
        fs = list(range(column_min(kind, fault), MAXCOL))
        col_shards.append([(kind, fault, tail, fs)])
    nbases = prefix_expected(tier) // (len(PREFIXES) * len(STARTS))
    cuts = [round(i * nbases / 64) for i in range(65)]
    return [
        Family('keywords', fam_keywords, [(kw_len, h) for h in split(keyword_heads(), 96)],
               f'every sequence of 0..{kw_len} lines over the {NKW} block keyword lines', expected=sum(NKW ** k for k in range(kw_len + 1))),
        Family('soup', fam_soup, [(soup_len, h) for h in split(soup_heads(), 128)],
               f'every line of 0..{soup_len} tokens over a {NV}-token vocabulary, alone (start line 1) and as line 2 of 3 (start line 7)',
               expected=sum(NV ** k for k in range(soup_len + 1))),
        Family('mutants', fam_mutants,
               [('corpus', depth, True, [(p, 0, 1) for p in ps]) for ps in split(list(range(ncorpus)), 48)]
               + [('shipped', 0, True, [(p, part, SHIP_PARTS)]) for p in range(len(ship)) for part in range(SHIP_PARTS)],
               f'{ncorpus} generated programs (every nesting chain of depth <= {depth} over function/if/if-elif-else/while/for) and the '
               f'{len(ship)} shipped include files: unmutated, every single-token deletion/duplication/adjacent swap, every closing keyword '
               'deleted, trailing backslash on the last line, each of 6 near-miss suffixes glued to every number token', expected=corpus_expected + ship_expected),
        Family('columns', fam_columns, col_shards,
               f'{len(STMT_KINDS)} statement kinds x fault tokens {list(FAULTS)} x {len(TAILS)} tails, fault token at every column up to {MAXCOL} '
               '(indent 0..3 + chain of up to 100 operands)', expected=columns_expected()),
        Family('caret', fam_caret, split(list(range(MAXCOL, -1, -1)), 32),
               f'BareScriptParserError constructed for every (line length, column) in 0..{MAXCOL} x 1..len+1, two position-dependent texts, '
               'with and without line number', expected=sum(n + 1 for n in range(MAXCOL + 1))),
        Family('nesting', fam_nesting, split(nesting_cases(nest), 32),
               f'{len(SHAPES)} nesting shapes x depth 1..{nest} x {len(STMT_KINDS)} statement kinds x valid/unclosed/extra/fault variants',
               expected=nest * len(STMT_KINDS) * sum(len(SHAPE_VARIANTS[s]) for s in SHAPES)),
        Family('contin', fam_contin, split(contin_cases(), 32),
               f'backslash runs 1..{MAXRUN} x fault in no/each piece/the next line/dangling x {len(STMT_KINDS)} statement kinds x '
               f'{len(CONT_WS)} backslash spacings x {len(CONT_IND)} indents x with/without a comment line between the pieces',
               expected=sum(r + 4 for r in range(1, MAXRUN + 1)) * len(STMT_KINDS) * len(CONT_WS) * len(CONT_IND) * 2),
        Family('linechars', fam_linechars, [[i] for i in range(len(LINECHARS))],
               f'{len(LINECHARS)} characters (FF, VT, FS, GS, RS, NEL, LS, PS, lone CR) x {len(LC_PLACES)} placements (inside / at the end of a comment, in a string '
               f'literal, as inner / leading / trailing white space of a statement on line 1..3; in a string / as white space on the statement line) x {len(STMT_KINDS)} statement kinds x '
               f'valid/faulty statement on line 5 x LF/CRLF line ends x start lines {list(STARTS)}',
               expected=len(LINECHARS) * len(LC_PLACES) * len(STMT_KINDS) * 2 * len(EOLS) * len(STARTS)),
        Family('bsonly', fam_bsonly, [('stmt', [c]) for c in bsonly_cases(bs_run)] + [('eof', [])],
               f'1..2 backslash-only lines (4 spacings) before every piece of a statement continued over 1..{bs_run + 1} pieces x '
               f'{len(STMT_KINDS)} kinds x fault in no/each piece/the next line; and as the last lines of the input after '
               f'{len(BS_CONTEXTS)} contexts x {len(BS_TRAILS)} blank/comment trailers', expected=bsonly_expected(bs_run)),
        Family('includes', fam_includes, [(inc_len, [()])] + [(inc_len, [(i,)]) for i in range(len(INC_LINES))],
               f'every sequence of 0..{inc_len} lines over {list(INC_LINES)} at top level and as a function body: the include entries of '
               'the model must be the include lines in order (same line repeated adjacently or with a statement/comment/blank between, '
               'plain and system form of one name)', expected=2 * sum(len(INC_LINES) ** k for k in range(inc_len + 1))),
        Family('openers', fam_openers, split(openers_cases(), 8),
               f'if/while/for/function opening line in {len(OPN_LAYOUTS)} layouts (1..3 physical fragments, with/without a comment line between, 2 '
               f'backslash spacings) x unclosed scenarios (end of input, inside another open block, inside a function, at endfunction, wrong '
               f'closer, if with 1..2 elif and else and no endif, function with an open block, nested function) x {len(OPN_PRE)} preambles x '
               f'start lines {list(STARTS)}', expected=len(openers_cases()) * len(OPN_LAYOUTS) * len(OPN_PRE) * len(STARTS)),
        Family('overlap', fam_overlap, split(list(range(len(OVERLAPS))), 8),
               f'{len(OVERLAPS)} faulty lines over the 8 statement kinds whose faulty expression text also occurs earlier in the line '
               f'(x = = =, aa = aa aa, return return return, jumpif (() lbl, if if if:, for vx in in in: ...) x {len(OVL_INDENTS)} indents x start lines '
               f'{list(STARTS)}', expected=len(OVERLAPS) * len(OVL_INDENTS) * len(STARTS)),
        Family('crlines', fam_crlines, [[k] for k in STMT_KINDS],
               f'{len(STMT_KINDS)} statement kinds x {len(CR_FAULTS)} faults (start / middle / call argument / end of the expression) x input forms '
               f'{list(CR_FORMS)} (iterable of lines ending in CR or CR CR; str ending in a lone CR or blank + CR) x {len(CR_INDENTS)} indents x '
               f'start lines {list(STARTS)}', expected=len(STMT_KINDS) * len(CR_FAULTS) * len(CR_FORMS) * len(CR_INDENTS) * len(STARTS)),
        Family('numlit', fam_numlit, split(list(range(len(NUM_TOKENS))), 13),
               f'{len(NUM_TOKENS)} number-literal near misses (1e, 1e+, 2.5E-, 1e5, 10em, 1else, 1., 1..2, .5, 1_000, 0x10, 1e+400, 00, non-ASCII digits, '
               f'400-digit runs ...) x {len(NUM_PLACES)} placements (alone, either side of an operator, call argument, glued to the right of ) / a string / '
               f'a digit / an identifier / an operator, after a unary minus) x {len(STMT_KINDS)} statement kinds (start lines {list(STARTS)}) and '
               'parse_expression directly', expected=len(NUM_TOKENS) * len(NUM_PLACES) * (len(STMT_KINDS) * len(STARTS) + 1)),
        Family('prefix', fam_prefix, [(tier, cuts[i], cuts[i + 1]) for i in range(64) if cuts[i + 1] > cuts[i]],
               f'{nbases} base texts (keyword sequences <= {3 if quick else 4} lines, soup lines <= {2 if quick else 3} tokens, all mutants of '
               f'{4 if quick else 16} corpus programs, fault columns up to {140 if quick else 200}) x {len(PREFIXES)} prefixes of 1..3 lines '
               f'over comment/blank/statement x start lines {list(STARTS)}', expected=prefix_expected(tier)),
    ]


_CHECKS = {'keywords': check_keywords, 'soup': check_soup, 'mutants': check_mutants, 'columns': check_columns, 'caret': check_caret,
           'nesting': check_nesting, 'contin': check_contin, 'prefix': check_prefix, 'linechars': check_linechars, 'bsonly': check_bsonly, 'includes': check_includes, 'openers': check_openers, 'overlap': check_overlap, 'crlines': check_crlines, 'numlit': check_numlit}


def replay(family, case):
    acc = Acc(family)
    case = {k: v for k, v in case.items() if k in ('idx', 'tok', 'src', 'depth', 'prog', 'mut', 'kind', 'fault', 'tail', 'f', 'len', 'col',
                                                    'shape', 'stmt', 'variant', 'run', 'pos', 'ws', 'ind', 'cm', 'base', 'ch', 'cls', 'faulty', 'eol', 'part', 'at', 'n', 'bs', 'ctx', 'trail', 'opener', 'scen', 'layout', 'pre', 'tpl', 'indent', 'form', 'place', 'prefix', 'start')}
    if family == 'prefix':
        check_prefix(case, acc)
    else:
        _CHECKS[family](case, acc)
    res = acc.result()
    return {'differs': bool(res['nviol'] or res['nknown']), 'violations': res['violations'] + res['known_violations']}
