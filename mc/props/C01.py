"""C01 Structured control flow runs with its source-level meaning (DESIGN 4/C01).

Programs are generated as ASTs, printed, parsed and run by the real code on every path with at most k non-default
environment answers; every execution is compared with the big-step reference (result, logs, final globals and the
sequence of decision points)."""

import itertools

from ..common import load_impl
from ..engine.shard import Acc, Family
from ..engine.tape import explore
from ..gen import ast, chains, harness, small
from ..gen import pools

LEVEL = 'model_checking'
RULE = ('programs: every nesting chain of the 11 (construct, branch slot) choices to the depth bound x loop decorations '
        '(guarded break/continue) x leaf variants (log, break, continue, return) x 2 condition styles x 3 scopes; every '
        'program of <= n statement nodes over the full statement alphabet; sibling pairs; function call graphs; '
        'truthiness of every pool value as if/elif/while condition. Each program is run on every tape (path) with at '
        'most k non-default environment answers. A state is a (program, tape prefix) node, a transition one decision, '
        'a validated trace one complete execution compared with the big-step reference. A program is non-trivial when '
        'its explored paths produce at least two distinct observations.')
ASSUMPTIONS = [
    'ref/bigstep.py is the source-level meaning (written from the language documentation)',
    'the final value of a for-loop index variable after the loop is not compared (undocumented)',
    'programs never mutate the array they iterate',
    'known finding F7 (continue bound to a while skips the condition test) is classified by a signature, see known_findings.json',
]

MAX_TAPE = 12


def check_program(body, case, acc, bound, presets=None, max_runs=40000):
    """Explore one program. Returns the number of distinct observations."""
    prog = harness.Program(body, presets)
    prog.parse()
    acc.evals += 1
    if prog.model is None:
        acc.violation(dict(case, source=prog.source), 'a model (the program is well formed)', prog.parse_error, 'parse_script rejected a well-formed program')
        return 0
    seen = set()

    def run_pair(prefix):
        x = prog.run_impl(prefix)
        y = prog.run_ref(prefix)
        acc.evals += 1
        d = harness.diff_obs(x, y)
        verdict = None
        if d is not None:
            known = None
            if prog.f7_candidate:
                yq = prog.run_ref(prefix, quirk_f7=True)
                if harness.diff_obs(x, yq) is None:
                    known = 'F7'
            verdict = (d, x, y, known)
        seen.add((x['result'], tuple(x['logs'])))
        return x['points'], verdict

    def on_run(prefix, points, verdict):
        acc.states += 1
        acc.traces += 1
        if verdict is None:
            return True
        d, x, y, known = verdict
        acc.violation(dict(case, source=prog.source, tape=list(prefix)),
                      harness.brief(y), harness.brief(x),
                      d, known=known)
        # keep exploring below a node that only shows the known finding; stop below an unknown violation and below a
        # node that ran into the horizon (an endless loop offers thousands of decision points; counted as pruned)
        if x['result'] == ('horizon',):
            acc.pruned += 1
            return False
        return known is not None

    runs, decisions, capped = explore(run_pair, bound, MAX_TAPE, on_run, max_runs=max_runs)
    acc.transitions += decisions
    if capped:
        acc.capped = True
    if len(seen) > 1:
        acc.nontrivial += 1
    for o in itertools.islice(seen, 4):
        acc.outcome(o)
    return len(seen)


# ---------------------------------------------------------------- chain family

# per tier: (depth, decoration set, styles, scopes, deviation bound); shallower chains get the full product
CHAIN_PLAN = {
    'quick': [
        (1, (0, 1, 2, 3), chains.STYLES, chains.SCOPES, 3),
        (2, (0, 1, 2, 3), chains.STYLES, chains.SCOPES, 3),
        (3, (0, 3), chains.STYLES, ('global', 'func'), 2),
    ],
    'thorough': [
        (1, (0, 1, 2, 3), chains.STYLES, chains.SCOPES, 4),
        (2, (0, 1, 2, 3), chains.STYLES, chains.SCOPES, 4),
        (3, (0, 1, 2, 3), chains.STYLES, chains.SCOPES, 3),
        (4, (0, 3), ('counter',), ('global', 'func'), 2),
    ],
}


def check_chain(case, acc):
    body = chains.build(case['spec'])
    return check_program(body, case, acc, case['bound'])


def fam_chain(arg):
    tier, plan_ix, head = arg
    depth, deco_set, styles, scopes, bound = CHAIN_PLAN[tier][plan_ix]
    acc = Acc('chain')
    for tail in itertools.product(range(len(chains.CONSTRUCTS)), repeat=depth - len(head)):
        levels = chains.chain_levels(tuple(head) + tail)
        for spec in chains.specs_for_chain(levels, deco_set, styles, scopes):
            acc.cases += 1
            check_chain({'spec': spec, 'bound': bound}, acc)
            if acc.cases % 997 == 1:
                acc.sample({'spec': spec, 'source': ast.source(chains.build(spec))})
    return acc.result()


def chain_family(tier):
    shards = []
    expected = 0
    n = len(chains.CONSTRUCTS)
    desc = []
    for plan_ix, (depth, deco_set, styles, scopes, bound) in enumerate(CHAIN_PLAN[tier]):
        hl = min(depth, 2 if depth < 4 else 3)
        for head in itertools.product(range(n), repeat=hl):
            shards.append((tier, plan_ix, list(head)))
        for idx in chains.chains(depth):
            expected += chains.count_for_chain(chains.chain_levels(idx), deco_set, styles, scopes)
        desc.append(f'depth {depth}: decorations {list(deco_set)}, styles {list(styles)}, scopes {list(scopes)}, deviation bound {bound}')
    return Family('chain', fam_chain, shards,
                  'every nesting chain of the 11 (construct, slot) choices x decorations x leaves x styles x scopes; ' + '; '.join(desc) + f'; tape length <= {MAX_TAPE}',
                  expected=expected)


# ---------------------------------------------------------------- small-program family

def small_bounds(tier):
    return {'quick': (4, 3), 'thorough': (5, 3)}[tier]   # (max nodes, deviation bound)


def check_small(case, acc):
    body = small.decode(case['prog'])
    return check_program(body, case, acc, case['bound'])


def fam_small(arg):
    tier, nodes, first = arg
    acc = Acc('small')
    _, bound = small_bounds(tier)
    for prog in small.programs(nodes, first):
        acc.cases += 1
        check_small({'prog': prog, 'bound': bound}, acc)
        if acc.cases % 1499 == 1:
            acc.sample({'prog': prog, 'source': ast.source(small.decode(prog))})
    return acc.result()


def small_family(tier):
    maxn, bound = small_bounds(tier)
    shards = []
    expected = 0
    for nodes in range(1, maxn + 1):
        for first in small.first_choices(nodes):
            shards.append((tier, nodes, first))
        expected += small.count(nodes)
    return Family('small', fam_small, shards,
                  f'every program of <= {maxn} statement nodes over the statement alphabet of mc/gen/small.py; deviation bound {bound}',
                  expected=expected)


# ---------------------------------------------------------------- truthiness family

TRUTH_SHAPES = ('if', 'elif', 'while', 'not-if', 'and-or', 'neg-if', 'neg-while', 'group-if', 'notnot-elif')


def truth_pool():
    by = pools.leaves_full()
    extra = [('[]', []), ('[0]', [0]), ('{}', {}), ('{a:0}', {'a': 0}), ("'0'", '0'), ("' '", ' '), ('0.0', 0.0), ('nan-free-tiny', 5e-324)]
    return by + extra


def check_truth(case, acc):
    label, value = truth_pool()[case['i']]
    shape = case['shape']
    log = lambda k: ('expr', ('call', 'systemLog', [('str', k)]))  # noqa: E731
    gv = ('var', 'gv')
    if shape == 'if':
        body = [('if', [(gv, [log('T')])], [log('F')]), log('end')]
    elif shape == 'elif':
        body = [('if', [(('call', 'cc', []), [log('A')]), (gv, [log('T')])], [log('F')]), log('end')]
    elif shape == 'while':
        body = [('while', gv, [log('T'), ('break',)]), log('end')]
    elif shape == 'not-if':
        body = [('if', [(('not', gv), [log('N')])], [log('P')]), ('return', ('not', gv))]
    elif shape == 'neg-if':
        # the whole condition is a unary minus (truthy iff gv is a non-zero number)
        body = [('if', [(('neg', gv), [log('T')])], [log('F')]), log('end')]
    elif shape == 'neg-while':
        body = [('while', ('neg', gv), [log('T'), ('break',)]), log('end')]
    elif shape == 'group-if':
        body = [('if', [(('grp', gv), [log('T')])], [log('F')]), ('while', ('grp', ('not', gv)), [log('W'), ('break',)]), log('end')]
    elif shape == 'notnot-elif':
        body = [('if', [(('call', 'cc', []), [log('A')]), (('not', ('not', gv)), [log('T')]), (('neg', ('neg', gv)), [log('U')])], [log('F')]), log('end')]
    else:
        body = [('assign', 'aa', ('bin', '&&', gv, ('str', 'R'))), ('assign', 'oo', ('bin', '||', gv, ('str', 'R'))),
                ('if', [(('bin', '&&', gv, ('num', 1)), [log('T')])], [log('F')])]
    case = dict(case, label=label)
    return check_program(body, case, acc, 2, presets={'gv': value})


def fam_truth(arg):
    acc = Acc('truth')
    for i in arg:
        for shape in TRUTH_SHAPES:
            acc.cases += 1
            check_truth({'i': i, 'shape': shape}, acc)
        acc.sample({'value': truth_pool()[i][0], 'shapes': list(TRUTH_SHAPES)})
    return acc.result()


def truth_family(_tier):
    n = len(truth_pool())
    return Family('truth', fam_truth, [[i] for i in range(n)],
                  f'each of {n} pool values (all nine types, empty/zero/falsy corners) as condition of if, elif, while - plain, under !, under unary minus, in a group, doubly negated - and as && / || operand',
                  expected=n * len(TRUTH_SHAPES))



# ---------------------------------------------------------------- sibling family

def sibling_units():
    """Depth <= 2 chain bodies (loops fully decorated, leaf log / continue) - the units placed side by side."""
    out = []
    for depth in (1, 2):
        for idx in chains.chains(depth):
            levels = chains.chain_levels(idx)
            nl = sum(1 for c, _ in levels if c in chains.LOOPS)
            for leaf in ((0, 2) if nl else (0,)):
                decos = [3 if c in chains.LOOPS else 0 for c, _ in levels]
                out.append((depth, {'levels': levels, 'decos': decos, 'leaf': leaf, 'style': 'tape', 'scope': 'global'}))
    return out


SIB_CONTEXTS = ('global', 'function', 'loop')


def build_siblings(specs, context):
    body = []
    for k, spec in enumerate(specs):
        sub = chains.build(spec)
        body.extend(_rename_logs(sub, f's{k}'))
    if context == 'function':
        return [('func', 'ff', [], False, body), ('assign', 'rr', ('call', 'ff', [])), ('expr', ('call', 'systemLog', [('str', 'end')]))]
    if context == 'loop':
        return [('for', 'w', None, ('call', 'arrayNew', [('num', 1), ('num', 2)]), body), ('expr', ('call', 'systemLog', [('str', 'end')]))]
    return body


def _rename_logs(body, tag):
    """Make log texts and loop variables of sibling units distinct."""
    def ren_e(e):
        k = e[0]
        if k == 'str':
            return ('str', tag + e[1])
        if k == 'var' and (e[1].startswith('v') or e[1].startswith('i') or e[1].startswith('n')) and e[1][1:].isdigit():
            return ('var', tag + e[1])
        if k == 'call':
            return ('call', e[1], [ren_e(a) for a in e[2]])
        if k == 'bin':
            return ('bin', e[1], ren_e(e[2]), ren_e(e[3]))
        if k in ('not', 'neg', 'grp'):
            return (k, ren_e(e[1]))
        return e

    def ren_n(n):
        return tag + n if n and n[0] in 'vin' and n[1:].isdigit() else n

    def ren_b(b):
        out = []
        for s in b:
            k = s[0]
            if k == 'expr':
                out.append(('expr', ren_e(s[1])))
            elif k == 'assign':
                out.append(('assign', ren_n(s[1]), ren_e(s[2])))
            elif k == 'if':
                out.append(('if', [(ren_e(c), ren_b(sub)) for c, sub in s[1]], ren_b(s[2]) if s[2] is not None else None))
            elif k == 'while':
                out.append(('while', ren_e(s[1]), ren_b(s[2])))
            elif k == 'for':
                out.append(('for', ren_n(s[1]), ren_n(s[2]) if s[2] else None, ren_e(s[3]), ren_b(s[4])))
            elif k == 'return':
                out.append(('return', ren_e(s[1]) if s[1] is not None else None))
            else:
                out.append(s)
        return out
    return ren_b(body)


def check_siblings(case, acc):
    units = sibling_units()
    specs = [units[i][1] for i in case['units']]
    body = build_siblings(specs, case['context'])
    return check_program(body, case, acc, case['bound'])


def sibling_cases(tier):
    units = sibling_units()
    d1 = [i for i, (d, _) in enumerate(units) if d == 1]
    allu = list(range(len(units)))
    out = []
    if tier == 'quick':
        pairs = [(a, b) for a in allu for b in d1] + [(a, b) for a in d1 for b in allu if units[b][0] == 2]
        contexts = ('global', 'function')
    else:
        pairs = [(a, b) for a in allu for b in allu]
        contexts = SIB_CONTEXTS
    for ctx in contexts:
        for a, b in pairs:
            out.append({'units': [a, b], 'context': ctx, 'bound': 2})
    if tier == 'thorough':
        for ctx in ('global', 'function'):
            for t in itertools.product(d1, repeat=3):
                out.append({'units': list(t), 'context': ctx, 'bound': 2})
    return out


def fam_siblings(arg):
    acc = Acc('siblings')
    for case in arg:
        acc.cases += 1
        check_siblings(case, acc)
    if arg:
        c = arg[len(arg) // 2]
        acc.sample(dict(c, source=ast.source(build_siblings([sibling_units()[i][1] for i in c['units']], c['context']))))
    return acc.result()


# ---------------------------------------------------------------- function call graphs

FUNC_BODIES = ('plain', 'return-in-for', 'break-in-while', 'continue-in-for', 'return-in-while-in-if')
FUNC_SHAPES = ('chain', 'diamond', 'recursion')
FUNC_PLACES = ('top', 'in-if', 'in-loop')


def func_body(kind, name, callee):
    log = lambda k: ('expr', ('call', 'systemLog', [('str', name + k)]))  # noqa: E731
    call = [('assign', 'cv', ('call', callee, [('var', 'pa')])), ('expr', ('call', 'systemLog', [('bin', '+', ('str', name + '<-'), ('var', 'cv'))]))] if callee else []
    cc = ('call', 'cc', [])
    if kind == 'plain':
        return [log('a')] + call + [('return', ('bin', '+', ('str', name + ':'), ('var', 'pa')))]
    if kind == 'return-in-for':
        return [log('a'), ('for', 'v', 'i', ('call', 'pk', []), [log('b'), ('if', [(cc, [('return', ('var', 'v'))])], None)] + call + [log('c')]), ('return', ('str', name + '-end'))]
    if kind == 'break-in-while':
        return [log('a'), ('while', cc, [log('b')] + call + [('if', [(cc, [('break',)])], None), log('c')]), ('return', ('str', name + '-end'))]
    if kind == 'continue-in-for':
        return [log('a'), ('for', 'v', None, ('call', 'pk', []), [('if', [(cc, [('continue',)])], None), log('b')] + call), ('return', ('str', name + '-end'))]
    return [log('a'), ('if', [(('not', cc), [('while', cc, [log('b')] + call + [('return', ('str', name + '-w'))])])], [log('e')]), ('return', ('str', name + '-end'))]


def build_funcs(case):
    kinds = case['kinds']
    shape = case['shape']
    place = case['place']
    if shape == 'chain':
        callees = ['f2', 'f3', None]
    elif shape == 'diamond':
        callees = ['f2', 'f3', None]
    else:
        callees = [None, None, None]
    defs = []
    for k, name in enumerate(('f1', 'f2', 'f3')):
        body = func_body(FUNC_BODIES[kinds[k]], name, callees[k])
        if shape == 'diamond' and name == 'f1':
            body = [('assign', 'dv', ('call', 'f3', [('str', 'd')]))] + body
        if shape == 'recursion' and name == 'f1':
            body = [('if', [(('call', 'cc', []), [('return', ('bin', '+', ('str', 'rec:'), ('call', 'f1', [('var', 'pa')])))])], None)] + body
        defs.append(('func', name, ['pa'], False, body))
    # a global named like the parameter, and a call that omits the argument: the parameter is null inside the call
    main = [('assign', 'pa', ('str', 'gpa')),
            ('assign', 'rr', ('call', 'f1', [('str', 'x')])), ('expr', ('call', 'systemLog', [('bin', '+', ('str', 'rr='), ('var', 'rr'))])),
            ('assign', 'r0', ('call', 'f3', [])), ('expr', ('call', 'systemLog', [('bin', '+', ('str', 'r0='), ('var', 'r0'))]))]
    if shape == 'recursion':
        main += [('assign', 'r2', ('call', 'f2', [('num', 2)])), ('assign', 'r3', ('call', 'f3', [('num', 3)]))]
    if place == 'top':
        return defs + main
    if place == 'in-if':
        return [('if', [(('not', ('call', 'cc', [])), defs + main)], [('expr', ('call', 'systemLog', [('str', 'skipped')]))])]
    return [('for', 'w', None, ('call', 'arrayNew', [('num', 1), ('num', 2)]), defs + main), ('expr', ('call', 'systemLog', [('str', 'end')]))]


def check_funcs(case, acc):
    return check_program(build_funcs(case), case, acc, case['bound'])


def func_cases(tier):
    out = []
    nb = len(FUNC_BODIES)
    for shape in FUNC_SHAPES:
        for place in FUNC_PLACES:
            for kinds in itertools.product(range(nb), repeat=3):
                if tier == 'quick' and place != 'top' and kinds[2] != 0:
                    continue
                out.append({'kinds': list(kinds), 'shape': shape, 'place': place, 'bound': 2 if tier == 'quick' else 3})
    return out


def fam_funcs(arg):
    acc = Acc('funcs')
    for case in arg:
        acc.cases += 1
        check_funcs(case, acc)
    if arg:
        acc.sample(dict(arg[0], source=ast.source(build_funcs(arg[0]))))
    return acc.result()


def check_branch_end(case, acc):
    return check_program(chains.build_branch_end(case['spec']), case, acc, case['bound'])


def check_loop_tail(case, acc):
    return check_program(chains.build_loop_tail(case['spec']), case, acc, case['bound'])


def fam_loop_tail(arg):
    acc = Acc('loop_tails')
    for case in arg:
        acc.cases += 1
        check_loop_tail(case, acc)
    if arg:
        acc.sample(dict(arg[0], source=ast.source(chains.build_loop_tail(arg[0]['spec']))))
    return acc.result()


def fam_branch_end(arg):
    acc = Acc('branch_end')
    for case in arg:
        acc.cases += 1
        check_branch_end(case, acc)
    if arg:
        acc.sample(dict(arg[len(arg) // 2], source=ast.source(chains.build_branch_end(arg[len(arg) // 2]['spec']))))
    return acc.result()


# ---------------------------------------------------------------- recursion: locals of the caller survive the inner call

def _v(n):
    return ('var', n)


def _n(x):
    return ('num', x)


def _log(e):
    return ('expr', ('call', 'systemLog', [e]))


REC_PROGRAMS = {
    'fact': [('func', 'fact', ['nn'], False, [
        ('if', [(('bin', '<', _v('nn'), _n(2)), [('return', _n(1))])], None),
        ('assign', 'sub', ('call', 'fact', [('bin', '-', _v('nn'), _n(1))])),
        ('return', ('bin', '*', _v('nn'), _v('sub')))])],
    'fib': [('func', 'fib', ['nn'], False, [
        ('if', [(('bin', '<', _v('nn'), _n(2)), [('return', _v('nn'))])], None),
        ('assign', 'aa', ('call', 'fib', [('bin', '-', _v('nn'), _n(1))])),
        ('assign', 'bb', ('call', 'fib', [('bin', '-', _v('nn'), _n(2))])),
        _log(('bin', '+', ('str', 'fib'), _v('nn'))),
        ('return', ('bin', '+', _v('aa'), _v('bb')))])],
    'walk': [('func', 'walk', ['depth'], False, [
        _log(('bin', '+', ('str', 'in'), _v('depth'))),
        ('for', 'vv', 'ii', ('call', 'pk', []), [
            ('if', [(('bin', '<', _v('depth'), _n(2)), [('assign', 'got', ('call', 'walk', [('bin', '+', _v('depth'), _n(1))]))])], None),
            _log(('bin', '+', ('bin', '+', ('bin', '+', ('str', 'v'), _v('depth')), ('str', ':')), ('bin', '+', ('bin', '+', _v('vv'), ('str', ':')), _v('ii'))))]),
        _log(('bin', '+', ('str', 'out'), _v('depth'))),
        ('return', _v('depth'))])],
    'evenodd': [('func', 'isEven', ['nn'], False, [
        ('if', [(('bin', '==', _v('nn'), _n(0)), [('return', ('str', 'even'))])], None),
        ('assign', 'res', ('call', 'isOdd', [('bin', '-', _v('nn'), _n(1))])),
        _log(('bin', '+', ('str', 'e'), _v('nn'))),
        ('return', _v('res'))]),
                ('func', 'isOdd', ['nn'], False, [
                    ('if', [(('bin', '==', _v('nn'), _n(0)), [('return', ('str', 'odd'))])], None),
                    ('assign', 'res', ('call', 'isEven', [('bin', '-', _v('nn'), _n(1))])),
                    _log(('bin', '+', ('str', 'o'), _v('nn'))),
                    ('return', _v('res'))])],
    'countdown': [('func', 'down', ['nn'], False, [
        ('assign', 'kk', _n(0)),
        ('while', ('bin', '<', _v('kk'), _v('nn')), [
            ('assign', 'kk', ('bin', '+', _v('kk'), _n(1))),
            ('if', [(('call', 'cc', []), [('assign', 'inner', ('call', 'down', [('bin', '-', _v('nn'), _n(1))]))])], None),
            _log(('bin', '+', ('bin', '+', ('str', 'k'), _v('nn')), ('bin', '+', ('str', '/'), _v('kk'))))]),
        ('return', _v('kk'))])],
}
REDEF_PROGRAMS = {
    # two definitions of one name in the branches of an if inside a loop; the tape alternates them
    'if-else-in-loop': [('for', 'ww', None, ('call', 'arrayNew', [_n(1), _n(2), _n(3), _n(4)]), [
        ('if', [(('call', 'cc', []), [('func', 'gg', [], False, [('return', ('str', 'A'))])])],
         [('func', 'gg', [], False, [('return', ('str', 'B'))])]),
        _log(('bin', '+', ('bin', '+', ('str', 'w'), _v('ww')), ('call', 'gg', [])))])],
    # a default definition, conditionally overridden later in every round
    'default-then-override': [('for', 'ww', None, ('call', 'arrayNew', [_n(1), _n(2), _n(3)]), [
        ('func', 'gg', [], False, [('return', ('str', 'default'))]),
        ('if', [(('call', 'cc', []), [('func', 'gg', [], False, [('return', ('str', 'override'))])])], None),
        _log(('bin', '+', ('bin', '+', ('str', 'w'), _v('ww')), ('call', 'gg', [])))])],
    # redefinition between calls at top level, and inside a while loop driven by the tape
    'redefine-between-calls': [('func', 'gg', [], False, [('return', ('str', 'one'))]), _log(('call', 'gg', [])),
                               ('func', 'gg', [], False, [('return', ('str', 'two'))]), _log(('call', 'gg', [])),
                               ('while', ('call', 'cc', []), [('func', 'gg', [], False, [('return', ('str', 'three'))]), _log(('call', 'gg', [])),
                                                              ('func', 'gg', [], False, [('return', ('str', 'four'))])]),
                               _log(('call', 'gg', []))],
}


def check_redef(case, acc):
    return check_program(REDEF_PROGRAMS[case['name']] + [('return', ('call', 'gg', []))], case, acc, case['bound'])


def fam_redef(arg):
    acc = Acc('redefinition')
    for case in arg:
        acc.cases += 1
        check_redef(case, acc)
        acc.sample(dict(case, source=ast.source(REDEF_PROGRAMS[case['name']])))
    return acc.result()


REC_ENTRY = {'fact': 'fact', 'fib': 'fib', 'walk': 'walk', 'evenodd': 'isEven', 'countdown': 'down'}
REC_SITES = ('top', 'in-loop', 'surplus-and-missing')


def build_rec(case):
    name, arg, site = case['name'], case['arg'], case['site']
    defs = REC_PROGRAMS[name]
    entry = REC_ENTRY[name]
    call = ('call', entry, [_n(arg)])
    if site == 'top':
        main = [('assign', 'rr', call), _log(('bin', '+', ('str', 'rr='), _v('rr')))]
    elif site == 'in-loop':
        main = [('for', 'ww', None, ('call', 'arrayNew', [_n(1), _n(2)]), [('assign', 'rr', call), _log(('bin', '+', ('str', 'rr='), _v('rr')))])]
    else:
        # a surplus argument is ignored, a missing one is null - also when a global has the parameter's name
        main = [('assign', 'nn', _n(7)), ('assign', 'depth', _n(7)),
                ('assign', 'rr', ('call', entry, [_n(arg), ('str', 'surplus')])), _log(('bin', '+', ('str', 'rr='), _v('rr')))]
        if name in ('fact', 'fib'):     # with a null argument these two terminate at once; the others would recurse for ever
            main += [('assign', 'r0', ('call', entry, [])), _log(('bin', '+', ('str', 'r0='), _v('r0')))]
    return defs + main


def check_rec(case, acc):
    return check_program(build_rec(case), case, acc, case['bound'])


def rec_cases(tier):
    out = []
    for name in REC_PROGRAMS:
        for arg in range(0, 5 if tier == 'quick' else 7):
            for site in REC_SITES:
                if name in ('fact', 'fib', 'evenodd') and site == 'surplus-and-missing' and arg > 2:
                    continue
                out.append({'name': name, 'arg': arg, 'site': site, 'bound': 2 if tier == 'quick' else 3})
    return out


def fam_rec(arg):
    acc = Acc('recursion')
    for case in arg:
        acc.cases += 1
        check_rec(case, acc)
    if arg:
        acc.sample(dict(arg[0], source=ast.source(build_rec(arg[0]))))
    return acc.result()


# ---------------------------------------------------------------- identifiers that start with a keyword; empty loop bodies

KEYWORDS = ('return', 'if', 'elif', 'else', 'endif', 'while', 'endwhile', 'for', 'endfor', 'function', 'endfunction',
            'break', 'continue', 'include', 'jump', 'jumpif', 'async', 'in')
KW_USES = ('call-statement', 'assignment', 'expression', 'condition', 'loop')


def build_kw(case):
    kw = KEYWORDS[case['k']]
    fname = kw + 'Items'          # e.g. returnItems, ifItems, forItems
    vname = kw + 'Count'
    use = case['use']
    defs = [('func', fname, ['pa'], False, [_log(('bin', '+', ('str', fname + ':'), _v('pa'))), ('return', ('bin', '+', _v('pa'), _n(1)))])]
    if use == 'call-statement':
        main = [('func', 'outer', [], False, [('expr', ('call', fname, [_n(1)])), _log(('str', 'after-call')), ('return', ('str', 'outer-end'))]),
                ('assign', 'rr', ('call', 'outer', [])), ('expr', ('call', fname, [_n(2)])), _log(('str', 'end'))]
    elif use == 'assignment':
        main = [('assign', vname, _n(5)), ('assign', vname, ('bin', '+', _v(vname), _n(1))), _log(('bin', '+', ('str', 'v='), _v(vname)))]
    elif use == 'expression':
        main = [('assign', vname, _n(3)), ('assign', 'rr', ('bin', '+', ('call', fname, [_v(vname)]), _v(vname))), _log(('bin', '+', ('str', 'rr='), _v('rr')))]
    elif use == 'condition':
        main = [('assign', vname, _n(1)), ('if', [(_v(vname), [_log(('str', 'T'))])], [_log(('str', 'F'))]),
                ('if', [(('call', fname, [_n(0)]), [_log(('str', 'T2'))])], None)]
    else:
        main = [('assign', vname, ('call', 'arrayNew', [_n(1), _n(2)])), ('for', 'item', None, _v(vname), [_log(('bin', '+', ('str', 'i'), _v('item')))]),
                ('assign', 'nn', _n(0)), ('while', ('bin', '<', _v('nn'), ('call', fname, [_n(0)])), [('assign', 'nn', ('bin', '+', _v('nn'), _n(1))), _log(('str', 'w'))])]
    return defs + main + [('return', _v('rr'))]


def check_kw(case, acc):
    return check_program(build_kw(case), case, acc, 1)


def fam_kw(arg):
    acc = Acc('keyword_names')
    for case in arg:
        acc.cases += 1
        check_kw(case, acc)
    if arg:
        acc.sample(dict(arg[0], source=ast.source(build_kw(arg[0]))))
    return acc.result()


EMPTY_SHAPES = ('while-empty', 'while-comment', 'for-empty', 'for-comment', 'if-empty', 'nested-empty', 'while-empty-in-function', 'empty-then-loop')


def build_empty(case):
    shape = EMPTY_SHAPES[case['s']]
    cc = ('call', 'cc', [])
    pk = ('call', 'pk', [])
    cm = [('comment', 'nothing')]
    if shape == 'while-empty':
        body = [('while', cc, [])]
    elif shape == 'while-comment':
        body = [('while', cc, cm)]
    elif shape == 'for-empty':
        body = [('for', 'vv', 'ii', pk, [])]
    elif shape == 'for-comment':
        body = [('for', 'vv', None, pk, cm)]
    elif shape == 'if-empty':
        body = [('if', [(cc, [])], None), ('if', [(cc, []), (cc, [])], [])]
    elif shape == 'nested-empty':
        body = [('while', cc, [('for', 'vv', None, pk, []), ('if', [(cc, [])], None)])]
    elif shape == 'while-empty-in-function':
        body = [('func', 'ff', [], False, [('while', cc, []), ('for', 'vv', None, pk, cm), ('return', ('str', 'done'))]), ('assign', 'rr', ('call', 'ff', []))]
    else:
        body = [('while', cc, []), ('while', cc, [_log(('str', 'b'))]), ('for', 'vv', None, pk, []), ('for', 'ww', None, pk, [_log(('bin', '+', ('str', 'w'), _v('ww')))])]
    return [_log(('str', 'start'))] + body + [_log(('str', 'end'))]


def check_empty(case, acc):
    return check_program(build_empty(case), case, acc, case['bound'])


def fam_empty(arg):
    acc = Acc('empty_bodies')
    for case in arg:
        acc.cases += 1
        check_empty(case, acc)
        acc.sample(dict(case, source=ast.source(build_empty(case))))
    return acc.result()


# ---------------------------------------------------------------- every argument expression of a call is evaluated, once, left to right

CA_PARAMS = ((), ('p1',), ('p1', 'p2'))
CA_PLACES = ('statement', 'argument', 'operand', 'condition')


def call_arg_cases():
    return [{'params': p, 'rest': r, 'nargs': n, 'place': pl, 'bound': 1}
            for p in range(len(CA_PARAMS)) for r in ((False, True) if p else (False,)) for n in range(0, 5) for pl in CA_PLACES]


def build_call_args(case):
    log = lambda e: ('expr', ('call', 'systemLog', [e]))  # noqa: E731
    params = list(CA_PARAMS[case['params']])
    note = ('func', 'nt', ['tx'], False, [log(('bin', '+', ('str', 'arg '), ('var', 'tx'))), ('return', ('var', 'tx'))])
    body = [log(('str', 'in ff'))]
    for p in params[:-1] if case['rest'] else params:
        body.append(log(('bin', '+', ('str', p + '='), ('var', p))))
    if case['rest']:
        body.append(log(('bin', '+', ('str', 'rest#'), ('call', 'arrayLength', [('var', params[-1])]))))
    body.append(('return', ('var', params[0]) if params and not (case['rest'] and len(params) == 1) else ('str', 'none')))
    ff = ('func', 'ff', params, bool(case['rest']), body)
    call = ('call', 'ff', [('call', 'nt', [('str', f'a{k}')]) for k in range(case['nargs'])])
    place = case['place']
    if place == 'statement':
        use = [('expr', call)]
    elif place == 'argument':
        use = [('assign', 'rr', ('call', 'nt', [call]))]
    elif place == 'operand':
        use = [('assign', 'rr', ('bin', '+', ('call', 'nt', [('str', 'left')]), call))]
    else:
        use = [('if', [(call, [log(('str', 'then'))])], [log(('str', 'else'))])]
    return [note, ff] + use + [log(('str', 'end'))]


def check_call_args(case, acc):
    return check_program(build_call_args(case), case, acc, case['bound'])


def fam_call_args(arg):
    acc = Acc('call_args')
    for case in arg:
        acc.cases += 1
        check_call_args(case, acc)
    if arg:
        acc.sample(dict(arg[-1], source=ast.source(build_call_args(arg[-1]))))
    return acc.result()


def families(tier):
    load_impl()
    from ..engine.shard import split  # pylint: disable=import-outside-toplevel
    rc = rec_cases(tier)
    rdc = [{'name': n, 'bound': 4} for n in REDEF_PROGRAMS]
    kwc = [{'k': k, 'use': u} for k in range(len(KEYWORDS)) for u in KW_USES]
    emc = [{'s': i, 'bound': 3 if tier == 'quick' else 4} for i in range(len(EMPTY_SHAPES))]
    be = [{'spec': sp, 'bound': 2 if tier == 'quick' else 3} for sp in chains.branch_end_specs()]
    sc = sibling_cases(tier)
    fc = func_cases(tier)
    lt = [{'spec': sp, 'bound': 2 if tier == 'quick' else 3} for sp in chains.loop_tail_specs()]
    cac = call_arg_cases()
    return [Family('loop_tails', fam_loop_tail, split(lt, 16), "the outer loop's own continue / break (guarded, or bare at the end) placed before and / or after a COMPLETE nested loop of its body: 2 outer loops x 6 inner shapes x 2 exits x 4 placements x 2 scopes", expected=len(lt)),
            Family('call_args', fam_call_args, split(cac, 8), 'a script function with 0..2 parameters (optionally a "..." parameter) called with 0..4 arguments, each argument a logging call: every argument expression is evaluated exactly once, left to right, also the surplus ones; as a statement, as an argument, as a right operand and as a condition', expected=len(cac)),
            chain_family(tier), small_family(tier), truth_family(tier),
            Family('branch_end', fam_branch_end, split(be, 48), 'an if chain inside a loop where every branch independently ends in nothing / break / continue / return; 3 loop kinds x 4 chain shapes x endings x 2 scopes x 3 surroundings', expected=len(be)),
            Family('keyword_names', fam_kw, split(kwc, 9), 'function and variable names that START with a keyword (returnItems, ifCount, forItems, ...) used as call statement, assignment target, in expressions, conditions and loop headers', expected=len(kwc)),
            Family('empty_bodies', fam_empty, [[c] for c in emc], 'loops and ifs with empty and comment-only bodies (a back edge directly after the loop label)', expected=len(emc)),
            Family('redefinition', fam_redef, [[c] for c in rdc], 'two definitions of one function name alternating inside a loop (if/else branches, default + conditional override, redefinition between calls); deviation bound 4', expected=len(rdc)),
            Family('recursion', fam_rec, split(rc, 16), 'recursive functions that read their own locals / loop variables after the inner call returns (factorial, fibonacci, tree walk over a tape-chosen array, mutual recursion, loop + recursion) x argument values x call sites (top level, inside a loop, with surplus and missing arguments)', expected=len(rc)),
            Family('siblings', fam_siblings, split(sc, 64), 'ordered pairs (thorough: all pairs and depth-1 triples) of depth <= 2 chain bodies side by side in one block, at global scope, inside a function, inside a loop; deviation bound 2', expected=len(sc)),
            Family('funcs', fam_funcs, split(fc, 48), 'three functions: 5 body kinds each x call graph {chain, diamond, bounded recursion} x definition site {top level, inside an if block, inside a loop body}', expected=len(fc))]


_CHECKS = {'loop_tails': check_loop_tail, 'call_args': check_call_args, 'redefinition': check_redef, 'keyword_names': check_kw, 'empty_bodies': check_empty, 'recursion': check_rec, 'chain': check_chain, 'small': check_small, 'truth': check_truth, 'siblings': check_siblings, 'funcs': check_funcs, 'branch_end': check_branch_end}


def replay(family, case):
    acc = Acc(family)
    _CHECKS[family](case, acc)
    res = acc.result()
    return {'differs': bool(res['nviol'] or res['nknown']), 'violations': res['violations'] + res['known_violations']}
