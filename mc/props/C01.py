"""C01 Structured control flow runs with its source-level meaning (DESIGN 4/C01).

Programs are generated as ASTs, printed, parsed and run by the real code on every path with at most k non-default
environment answers; every execution is compared with the big-step reference (result, logs, final globals and the
sequence of decision points)."""

import itertools

from ..common import load_impl
from ..engine.shard import Acc, Family
from ..engine.tape import explore
from ..gen import ast, chains, harness, small
from ..gen import pools

LEVEL = 'model_checking'
RULE = ('programs: every nesting chain of the 11 (construct, branch slot) choices to the depth bound x loop decorations '
        '(guarded break/continue) x leaf variants (log, break, continue, return) x 2 condition styles x 3 scopes; every '
        'program of <= n statement nodes over the full statement alphabet; sibling pairs; function call graphs; '
        'truthiness of every pool value as if/elif/while condition. Each program is run on every tape (path) with at '
        'most k non-default environment answers. A state is a (program, tape prefix) node, a transition one decision, '
        'a validated trace one complete execution compared with the big-step reference. A program is non-trivial when '
        'its explored paths produce at least two distinct observations.')
ASSUMPTIONS = [
    'ref/bigstep.py is the source-level meaning (written from the language documentation)',
    'the final value of a for-loop index variable after the loop is not compared (undocumented)',
    'programs never mutate the array they iterate',
    'known finding F7 (continue bound to a while skips the condition test) is classified by a signature, see known_findings.json',
]

MAX_TAPE = 12


def check_program(body, case, acc, bound, presets=None, max_runs=4000):
    """Explore one program. Returns the number of distinct observations."""
    prog = harness.Program(body, presets)
    prog.parse()
    acc.evals += 1
    if prog.model is None:
        acc.violation(dict(case, source=prog.source), 'a model (the program is well formed)', prog.parse_error, 'parse_script rejected a well-formed program')
        return 0
    seen = set()

    def run_pair(prefix):
        x = prog.run_impl(prefix)
        y = prog.run_ref(prefix)
        acc.evals += 1
        d = harness.diff_obs(x, y)
        verdict = None
        if d is not None:
            known = None
            if prog.f7_candidate:
                yq = prog.run_ref(prefix, quirk_f7=True)
                if harness.diff_obs(x, yq) is None:
                    known = 'F7'
            verdict = (d, x, y, known)
        seen.add((x['result'], tuple(x['logs'])))
        return x['points'], verdict

    def on_run(prefix, points, verdict):
        acc.states += 1
        acc.traces += 1
        if verdict is None:
            return True
        d, x, y, known = verdict
        acc.violation(dict(case, source=prog.source, tape=list(prefix)),
                      harness.brief(y), harness.brief(x),
                      d, known=known)
        # keep exploring below a node that only shows the known finding; stop below an unknown violation and below a
        # node that ran into the horizon (an endless loop offers thousands of decision points; counted as pruned)
        if x['result'] == ('horizon',):
            acc.pruned += 1
            return False
        return known is not None

    runs, decisions, capped = explore(run_pair, bound, MAX_TAPE, on_run, max_runs=max_runs)
    acc.transitions += decisions
    if capped:
        acc.capped = True
    if len(seen) > 1:
        acc.nontrivial += 1
    for o in itertools.islice(seen, 4):
        acc.outcome(o)
    return len(seen)


# ---------------------------------------------------------------- chain family

# per tier: (depth, decoration set, styles, scopes, deviation bound); shallower chains get the full product
CHAIN_PLAN = {
    'quick': [
        (1, (0, 1, 2, 3), chains.STYLES, chains.SCOPES, 3),
        (2, (0, 1, 2, 3), chains.STYLES, chains.SCOPES, 3),
        (3, (0, 3), chains.STYLES, chains.SCOPES, 2),
    ],
    'thorough': [
        (1, (0, 1, 2, 3), chains.STYLES, chains.SCOPES, 4),
        (2, (0, 1, 2, 3), chains.STYLES, chains.SCOPES, 4),
        (3, (0, 1, 2, 3), chains.STYLES, chains.SCOPES, 3),
        (4, (0, 3), ('counter',), ('global', 'func'), 2),
    ],
}


def check_chain(case, acc):
    body = chains.build(case['spec'])
    return check_program(body, case, acc, case['bound'])


def fam_chain(arg):
    tier, plan_ix, head = arg
    depth, deco_set, styles, scopes, bound = CHAIN_PLAN[tier][plan_ix]
    acc = Acc('chain')
    for tail in itertools.product(range(len(chains.CONSTRUCTS)), repeat=depth - len(head)):
        levels = chains.chain_levels(tuple(head) + tail)
        for spec in chains.specs_for_chain(levels, deco_set, styles, scopes):
            acc.cases += 1
            check_chain({'spec': spec, 'bound': bound}, acc)
            if acc.cases % 997 == 1:
                acc.sample({'spec': spec, 'source': ast.source(chains.build(spec))})
    return acc.result()


def chain_family(tier):
    shards = []
    expected = 0
    n = len(chains.CONSTRUCTS)
    desc = []
    for plan_ix, (depth, deco_set, styles, scopes, bound) in enumerate(CHAIN_PLAN[tier]):
        hl = min(depth, 2 if depth < 4 else 3)
        for head in itertools.product(range(n), repeat=hl):
            shards.append((tier, plan_ix, list(head)))
        for idx in chains.chains(depth):
            expected += chains.count_for_chain(chains.chain_levels(idx), deco_set, styles, scopes)
        desc.append(f'depth {depth}: decorations {list(deco_set)}, styles {list(styles)}, scopes {list(scopes)}, deviation bound {bound}')
    return Family('chain', fam_chain, shards,
                  'every nesting chain of the 11 (construct, slot) choices x decorations x leaves x styles x scopes; ' + '; '.join(desc) + f'; tape length <= {MAX_TAPE}',
                  expected=expected)


# ---------------------------------------------------------------- small-program family

def small_bounds(tier):
    return {'quick': (4, 3), 'thorough': (5, 3)}[tier]   # (max nodes, deviation bound)


def check_small(case, acc):
    body = small.decode(case['prog'])
    return check_program(body, case, acc, case['bound'])


def fam_small(arg):
    tier, nodes, first = arg
    acc = Acc('small')
    _, bound = small_bounds(tier)
    for prog in small.programs(nodes, first):
        acc.cases += 1
        check_small({'prog': prog, 'bound': bound}, acc)
        if acc.cases % 1499 == 1:
            acc.sample({'prog': prog, 'source': ast.source(small.decode(prog))})
    return acc.result()


def small_family(tier):
    maxn, bound = small_bounds(tier)
    shards = []
    expected = 0
    for nodes in range(1, maxn + 1):
        for first in small.first_choices(nodes):
            shards.append((tier, nodes, first))
        expected += small.count(nodes)
    return Family('small', fam_small, shards,
                  f'every program of <= {maxn} statement nodes over the statement alphabet of mc/gen/small.py; deviation bound {bound}',
                  expected=expected)


# ---------------------------------------------------------------- truthiness family

TRUTH_SHAPES = ('if', 'elif', 'while', 'not-if', 'and-or')


def truth_pool():
    by = pools.leaves_full()
    extra = [('[]', []), ('[0]', [0]), ('{}', {}), ('{a:0}', {'a': 0}), ("'0'", '0'), ("' '", ' '), ('0.0', 0.0), ('nan-free-tiny', 5e-324)]
    return by + extra


def check_truth(case, acc):
    label, value = truth_pool()[case['i']]
    shape = case['shape']
    log = lambda k: ('expr', ('call', 'systemLog', [('str', k)]))  # noqa: E731
    gv = ('var', 'gv')
    if shape == 'if':
        body = [('if', [(gv, [log('T')])], [log('F')]), log('end')]
    elif shape == 'elif':
        body = [('if', [(('call', 'cc', []), [log('A')]), (gv, [log('T')])], [log('F')]), log('end')]
    elif shape == 'while':
        body = [('while', gv, [log('T'), ('break',)]), log('end')]
    elif shape == 'not-if':
        body = [('if', [(('not', gv), [log('N')])], [log('P')]), ('return', ('not', gv))]
    else:
        body = [('assign', 'aa', ('bin', '&&', gv, ('str', 'R'))), ('assign', 'oo', ('bin', '||', gv, ('str', 'R'))),
                ('if', [(('bin', '&&', gv, ('num', 1)), [log('T')])], [log('F')])]
    case = dict(case, label=label)
    return check_program(body, case, acc, 2, presets={'gv': value})


def fam_truth(arg):
    acc = Acc('truth')
    for i in arg:
        for shape in TRUTH_SHAPES:
            acc.cases += 1
            check_truth({'i': i, 'shape': shape}, acc)
        acc.sample({'value': truth_pool()[i][0], 'shapes': list(TRUTH_SHAPES)})
    return acc.result()


def truth_family(_tier):
    n = len(truth_pool())
    return Family('truth', fam_truth, [[i] for i in range(n)],
                  f'each of {n} pool values (all nine types, empty/zero/falsy corners) as condition of if, elif, while, under !, and as && / || operand',
                  expected=n * len(TRUTH_SHAPES))


def families(tier):
    load_impl()
    return [chain_family(tier), small_family(tier), truth_family(tier)]


_CHECKS = {'chain': check_chain, 'small': check_small, 'truth': check_truth}


def replay(family, case):
    acc = Acc(family)
    _CHECKS[family](case, acc)
    res = acc.result()
    return {'differs': bool(res['nviol'] or res['nknown']), 'violations': res['violations'] + res['known_violations']}
