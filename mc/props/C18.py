"""C18 Lint is pure, never fails, and its warnings are semantically justified (DESIGN 4/C18)."""

import copy
import itertools
import os
import re

from ..common import REPO_DIR, load_impl
from ..engine.shard import Acc, Family, split
from ..engine.tape import explore
from ..gen import ast, chains, harness, small
from ..gen import jumpmodels as jm

LEVEL = 'model_checking'
RULE = ('models: every jump-level list up to the length bound over the C08 alphabet extended with a dangling jump, a '
        'third label and function statements with duplicate names / duplicate and unused arguments / label-bearing '
        'bodies; parsed structured programs (nesting chains, all small programs) with unused variables, unused '
        'arguments and pointless statements; the shipped .bare scripts. On every model: lint_script does not raise, '
        'leaves the model deep-equal, gives the same list twice; unknown / unused / redefined label warnings and '
        'function / argument redefinition warnings are compared as per-scope name sets with an independent pass. '
        'Justification (model checking, implementation against itself): for every reported unused variable or argument '
        'the name is renamed, every reported unused label or pointless statement is deleted, and the edited model is run '
        'on every tape with <= 2 deviations: result, logs and final globals must not change. A state is a (model, edit, '
        'tape prefix) node. A model is non-trivial when lint reports at least one warning.')
ASSUMPTIONS = [
    'warnings are classified by keywords (unused/unknown/redefinition/duplicate/pointless + variable/argument/label/function) and their quoted names, not by exact wording; an unclassifiable warning is counted, never a violation',
    'the independent label pass: per scope, unknown = jump targets without a definition, redefined = defined more than once, unused = defined and never targeted',
]

_Q = re.compile(r'"([^"]*)"')
_IDX = re.compile(r'index (\d+)')


def classify(w):
    low = w.lower()
    q = _Q.findall(w)
    m = _IDX.search(w)
    idx = int(m.group(1)) if m else None
    is_global = 'global' in low
    func = None

    def fn(pos):
        return q[pos] if len(q) > pos and not is_global else None
    if 'pointless' in low:
        return ('pointless', None, q[0] if q else None, idx)
    if 'label' in low:
        func = fn(1)
        if 'unused' in low:
            return ('unused-label', q[0], func, idx)
        if 'unknown' in low:
            return ('unknown-label', q[0], func, idx)
        if 'redefinition' in low or 'duplicate' in low:
            return ('dup-label', q[0], func, idx)
    if 'argument' in low:
        if 'unused' in low:
            return ('unused-arg', q[0], q[1] if len(q) > 1 else None, idx)
        if 'duplicate' in low or 'redefinition' in low:
            return ('dup-arg', q[0], q[1] if len(q) > 1 else None, idx)
    if 'variable' in low and 'unused' in low:
        return ('unused-var', q[0], q[1] if len(q) > 1 else None, idx)
    if 'function' in low and ('redefinition' in low or 'duplicate' in low):
        return ('dup-func', q[0], None, idx)
    return ('other', None, None, idx)


def scopes_of(model):
    out = [(None, model['statements'])]
    for st in model['statements']:
        if 'function' in st:
            out.append((st['function']['name'], st['function']['statements']))
    return out


def expected_label_sets(model):
    unknown, unused, dup = {}, {}, {}
    for name, sts in scopes_of(model):
        defined = {}
        targets = set()
        for st in sts:
            if 'label' in st:
                defined[st['label']] = defined.get(st['label'], 0) + 1
            elif 'jump' in st:
                targets.add(st['jump']['label'])
        unknown.setdefault(name, set()).update(t for t in targets if t not in defined)
        unused.setdefault(name, set()).update(k for k in defined if k not in targets)
        dup.setdefault(name, set()).update(k for k, n in defined.items() if n > 1)
    return unknown, unused, dup


def in_place_edits(model):
    """Edits applied to the SAME model object that keep the number of statements: (description, do, undo)."""
    out = []
    for name, sts in scopes_of(model):
        for st in sts:
            if 'label' in st:
                old = st['label']
                out.append((f'rename label {old} in {name or "global"}', lambda st=st, old=old: st.__setitem__('label', old + '_x'),
                            lambda st=st, old=old: st.__setitem__('label', old)))
                break
    for st in model['statements']:
        if 'function' in st and st['function'].get('args'):
            f = st['function']
            out.append((f'duplicate an argument of {f["name"]}', lambda f=f: f['args'].append(f['args'][0]), lambda f=f: f['args'].pop()))
            break
    for name, sts in scopes_of(model):
        for st in sts:
            if 'expr' in st and 'name' not in st['expr'] and 'function' in st['expr']['expr']:
                old = st['expr']['expr']
                out.append((f'replace a call statement by a constant in {name or "global"}', lambda st=st: st['expr'].__setitem__('expr', {'number': 1}),
                            lambda st=st, old=old: st['expr'].__setitem__('expr', old)))
                break
    return out


def relint_in_place(model, pristine, case, acc):
    """lint, edit the same model object in place, lint again: the second result must be that of a fresh copy."""
    from bare_script.model import lint_script  # pylint: disable=import-outside-toplevel,import-error
    if model != pristine:
        return      # lint_script modified the model: already reported by the purity check, nothing more to learn here
    for desc, do, undo in in_place_edits(model):
        do()
        try:
            got = lint_script(model)
            want = lint_script(copy.deepcopy(model))
        except Exception as exc:  # pylint: disable=broad-exception-caught
            undo()
            acc.violation(dict(case, in_place_edit=desc), 'a list of warnings', ('raise', type(exc).__name__, str(exc)[:200]), 'lint_script raised after an in-place edit')
            continue
        undo()
        acc.evals += 2
        if got != want:
            acc.violation(dict(case, in_place_edit=desc), want, got, 'lint of a model edited in place differs from lint of an equal fresh model (stale state between calls)')
    if model != pristine:
        acc.violation(case, 'model unchanged after lint of an edited model (edit undone)', 'model differs', 'lint_script modified the model it linted after an in-place edit')
        model.clear()
        model.update(copy.deepcopy(pristine))


def purity_and_exactness(model, case, acc):
    """Returns the classified warnings (or None if lint failed)."""
    load_impl()
    from bare_script.model import lint_script  # pylint: disable=import-outside-toplevel,import-error
    pristine = copy.deepcopy(model)
    acc.evals += 1
    try:
        w1 = lint_script(model)
        w2 = lint_script(model)
    except Exception as exc:  # pylint: disable=broad-exception-caught
        acc.violation(case, 'a list of warnings', ('raise', type(exc).__name__, str(exc)[:200]), 'lint_script raised')
        return None
    if model != pristine:
        acc.violation(case, 'model unchanged', 'model modified', 'lint_script modified the model')
    if w1 != w2 or not isinstance(w1, list) or not all(isinstance(w, str) for w in w1):
        acc.violation(case, w1, w2, 'lint_script is not deterministic or does not return a list of strings')
        return None
    relint_in_place(model, pristine, case, acc)
    cls = [classify(w) for w in w1]
    unknown, unused, dup = expected_label_sets(model)
    names_funcs = [st['function']['name'] for st in model['statements'] if 'function' in st]
    got = {'unknown-label': {}, 'unused-label': {}, 'dup-label': {}}
    for kind, name, func, _ in cls:
        if kind in got:
            got[kind].setdefault(func, set()).add(name)
    for kind, exp in (('unknown-label', unknown), ('unused-label', unused), ('dup-label', dup)):
        for scope in set(exp) | set(got[kind]):
            e = exp.get(scope, set())
            g = got[kind].get(scope, set())
            if e != g:
                acc.violation(case, {'kind': kind, 'scope': scope, 'labels': sorted(e)}, {'labels': sorted(g), 'warnings': w1[:6]},
                              f'{kind} warnings are not exactly the labels the independent pass finds in scope {scope or "global"}')
    exp_dupf = {n for n in names_funcs if names_funcs.count(n) > 1}
    got_dupf = {name for kind, name, _, _ in cls if kind == 'dup-func'}
    if exp_dupf != got_dupf:
        acc.violation(case, sorted(exp_dupf), sorted(got_dupf), 'function redefinition warnings are not exactly the functions defined more than once')
    exp_dupa = {}
    for st in model['statements']:
        if 'function' in st:
            args = st['function'].get('args') or []
            exp_dupa.setdefault(st['function']['name'], set()).update(a for a in args if args.count(a) > 1)
    got_dupa = {}
    for kind, name, func, _ in cls:
        if kind == 'dup-arg':
            got_dupa.setdefault(func, set()).add(name)
    for f in set(exp_dupa) | set(got_dupa):
        if exp_dupa.get(f, set()) != got_dupa.get(f, set()):
            acc.violation(case, sorted(exp_dupa.get(f, set())), sorted(got_dupa.get(f, set())), f'duplicate-argument warnings of function {f} are not exact')
    acc.count('warnings', len(w1))
    acc.count('unclassified_warnings', sum(1 for c in cls if c[0] == 'other'))
    if w1:
        acc.nontrivial += 1
    acc.outcome(tuple(sorted({c[0] for c in cls})))
    return cls


# ---------------------------------------------------------------- edits

def find_function(model, name):
    for st in model['statements']:
        if 'function' in st and st['function']['name'] == name:
            return st['function']
    return None


def rename_in_expr(e, old, new):
    (k, v), = e.items()
    if k == 'variable' and v == old:
        e['variable'] = new
    elif k == 'binary':
        rename_in_expr(v['left'], old, new)
        rename_in_expr(v['right'], old, new)
    elif k == 'unary':
        rename_in_expr(v['expr'], old, new)
    elif k == 'group':
        rename_in_expr(v, old, new)
    elif k == 'function':
        for a in v.get('args', []):
            rename_in_expr(a, old, new)


def apply_edit(model, edit):
    """Returns an edited deep copy, or None if the edit cannot be located unambiguously."""
    kind, name, func, idx = edit
    m = copy.deepcopy(model)
    if kind in ('unused-var', 'unused-arg'):
        f = find_function(m, func)
        if f is None:
            return None
        new = name + '_renamed'
        if kind == 'unused-arg':
            if 'args' not in f or name not in f['args']:
                return None
            f['args'] = [new if a == name else a for a in f['args']]
        # only the definitions are renamed (assignment targets, the parameter): a variable that is really unused
        # is never read, so nothing else needs to change - a read that lint overlooked now sees null
        for st in f['statements']:
            if 'expr' in st and st['expr'].get('name') == name:
                st['expr']['name'] = new
        return m
    if kind == 'unused-label':
        sts = m['statements'] if func is None else (find_function(m, func) or {}).get('statements')
        if sts is None:
            return None
        pos = [i for i, st in enumerate(sts) if st.get('label') == name]
        if not pos:
            return None
        for i in reversed(pos):
            del sts[i]
        return m
    if kind == 'pointless':
        sts = m['statements'] if func is None else (find_function(m, func) or {}).get('statements')
        if sts is None or idx is None or idx >= len(sts) or 'expr' not in sts[idx] or 'name' in sts[idx]['expr']:
            return None
        del sts[idx]
        return m
    return None


def justify(model, cls, case, acc, runner, bound):
    """runner(model, prefix) -> observation dict with 'points'; differential between original and each edited model."""
    edits = [c for c in cls if c[0] in ('unused-var', 'unused-arg', 'unused-label', 'pointless')]
    for edit in edits:
        edited = apply_edit(model, edit)
        if edited is None:
            acc.count('edits_not_located')
            continue
        acc.count('edits_checked')

        def run_pair(prefix, edited=edited):
            x = runner(model, prefix)
            y = runner(edited, prefix)
            acc.evals += 1
            d = behaviour_diff(x, y)
            return x['points'], (d, x, y) if d else None

        def on_run(prefix, points, verdict, edit=edit):
            acc.states += 1
            acc.traces += 1
            if verdict is None:
                return True
            d, x, y = verdict
            acc.violation(dict(case, tape=list(prefix), edit=list(edit)), brief(x), brief(y),
                          f'acting on the warning changed the behaviour ({d}): the warning is not justified')
            return False

        _, decisions, capped = explore(run_pair, bound, 8, on_run, max_runs=300)
        acc.transitions += decisions
        acc.capped = acc.capped or capped


def is_horizon(res):
    return res == ('horizon',) or (res[0] == 'raise' and len(res) > 2 and str(res[2]).startswith('Exceeded maximum script statements'))


def behaviour_diff(x, y):
    if is_horizon(x['result']) and is_horizon(y['result']):
        # both runs are cut by the statement horizon (the edit changes statement counts, not behaviour):
        # only the common prefix is comparable
        n = min(len(x['logs']), len(y['logs']))
        m = min(len(x['points']), len(y['points']))
        if x['logs'][:n] != y['logs'][:n]:
            return 'logs before the horizon'
        if x['points'][:m] != y['points'][:m]:
            return 'decision points before the horizon'
        return None
    return next((k for k in ('result', 'logs', 'globals', 'points') if x[k] != y[k]), None)


def brief(o):
    return {'result': o['result'], 'logs': o['logs'][:30], 'globals': o.get('globals'), 'points': [p[2] for p in o['points'][:30]]}


def jump_runner(model, prefix):
    o = jm.run_impl(model, prefix, 60)
    return {'result': o['result'], 'logs': o['logs'], 'globals': {'x': o['x']}, 'points': o['points']}


def prog_runner_factory(body):
    prog = harness.Program(body)

    def runner(model, prefix):
        return prog.run_impl(prefix, model)
    return runner


# ---------------------------------------------------------------- jump-model family

def _fn(name, args, body):
    f = {'name': name, 'statements': body}
    if args is not None:
        f['args'] = args
    return {'function': f}


def _fn_last(name, args, body):
    return {'function': {'name': name, 'statements': body, 'args': args, 'lastArgArray': True}}


def extra_alphabet():
    lab = lambda n: {'label': n}  # noqa: E731
    jmp = lambda n: {'jump': {'label': n}}  # noqa: E731
    ass = lambda n, e: {'expr': {'name': n, 'expr': e}}  # noqa: E731
    one = {'number': 1}
    var = lambda n: {'variable': n}  # noqa: E731
    return [
        jmp('C'), {'jump': {'label': 'C', 'expr': jm.CALL_CC}}, lab('C'),
        {'expr': {'expr': {'binary': {'op': '+', 'left': var('x'), 'right': one}}}},      # pointless
        _fn('ff', None, []),
        _fn('ff', ['a'], [ass('y', var('a')), {'return': {'expr': var('y')}}]),
        _fn('ff', ['a', 'a'], [{'return': {'expr': var('a')}}]),
        _fn('ff', ['a', 'b'], [ass('u', one), {'return': {'expr': var('a')}}]),            # unused arg b, unused var u
        _fn('gg', None, [lab('A'), jmp('A')]),
        _fn('gg', None, [lab('A'), lab('A'), jmp('B')]),
        _fn('gg', None, [jmp('A'), lab('B'), {'expr': {'expr': one}}]),                    # unknown A, unused B, pointless
        {'expr': {'expr': {'function': {'name': 'gg', 'args': []}}}},
        lab('expr'), jmp('expr'), lab('nextexpr'), {'jump': {'label': 'return', 'expr': jm.CALL_CC}}, lab('return'),
        _fn('ff', None, [lab('jump'), jmp('jump'), {'function': {'name': 'gg', 'statements': [lab('A'), jmp('B')]}}]),   # a function statement inside a function body
        _fn_last('ff', ['a', 'a'], [{'return': {'expr': var('a')}}]),                     # duplicate argument, the second one is the "..." parameter
        _fn_last('gg', ['a', 'b'], [{'return': {'expr': var('a')}}]),                     # unused "..." parameter
        # labels that carry the parser's reserved prefix, hand-written: dangling, defined, defined twice
        jmp('__bareScriptDone0'), lab('__bareScriptDone0'),
        # names with characters that are special to str.format / % formatting, in every place a warning quotes a name
        _fn('f{0}', ['a{1}', 'b%s'], [lab('L{0}'), jmp('M%d'), ass('u{}', one), {'return': {'expr': var('a{1}')}}]),
        _fn('g%s', None, [lab('{'), lab('{'), jmp('}')]),
    ]


def q_alphabet():
    return [copy.deepcopy(s) for s in jm.P] + extra_alphabet()


def build_q(code):
    q = q_alphabet()
    return {'statements': [copy.deepcopy(q[i]) for i in code]}


def check_jump(case, acc):
    model = build_q(case['code'])
    cls = purity_and_exactness(model, case, acc)
    if cls is None:
        return
    names = [st['function']['name'] for st in model['statements'] if 'function' in st]
    if len(set(names)) == len(names) and case.get('justify', True):
        justify(model, cls, case, acc, jump_runner, 2)


N_CORE = 33      # the alphabet before the reserved-prefix labels and the format-special names were added


def fam_jump(arg):
    length, firsts = arg[0], arg[1]
    acc = Acc('jumpmodels')
    nq = arg[2] if len(arg) > 2 else len(q_alphabet())
    for first in firsts:
        for rest in itertools.product(range(nq), repeat=length - 1):
            acc.cases += 1
            check_jump({'code': [first] + list(rest)}, acc)
        acc.sample({'code': [first] + [(first * 7 + 3) % nq] * (length - 1)})
    if length == 0:
        acc.cases += 1
        check_jump({'code': []}, acc)
    return acc.result()


# ---------------------------------------------------------------- structured programs

def lint_small_body(prog):
    """A-small program inside a function with an unused argument, an unused variable and a pointless statement."""
    body = small.decode(prog)
    inner = [s for s in body]
    return [('func', 'hh', ['pa', 'pb', 'pc'], False,
             [('assign', 'uv', ('num', 1)), ('expr', ('bin', '+', ('var', 'pa'), ('num', 1))),
              # a parameter that is re-assigned on one path only and read afterwards (it is used: renaming it changes the other path)
              ('if', [(('call', 'cc', []), [('assign', 'pc', ('num', 2))])], None),
              ('expr', ('call', 'systemLog', [('bin', '+', ('str', 'pc='), ('var', 'pc'))])),
              ('assign', 'fl', ('not', ('call', 'cc', []))), ('if', [(('var', 'fl'), [('expr', ('call', 'systemLog', [('str', 'fl')]))])], None),
              ('assign', 'wl', ('num', 0)), ('while', ('bin', '<', ('var', 'wl'), ('num', 1)), [('expr', ('call', 'systemLog', [('str', 'wl')])), ('break',)])] + inner),
            ('assign', 'rr', ('call', 'hh', [('num', 7), ('num', 8), ('num', 9)])),
            ('expr', ('call', 'systemLog', [('bin', '+', ('str', 'rr='), ('var', 'rr'))]))]


def check_structured(case, acc):
    bs = load_impl()
    if 'spec' in case:
        body = chains.build(case['spec'])
    else:
        body = lint_small_body(case['prog'])
    src = ast.source(body)
    c2 = dict(case, source=src)
    try:
        model = bs.parse_script(src)
    except Exception as exc:  # pylint: disable=broad-exception-caught
        acc.violation(c2, 'a model', ('raise', type(exc).__name__, str(exc)[:200]), 'parse_script rejected a well-formed program')
        return
    cls = purity_and_exactness(model, c2, acc)
    if cls is None:
        return
    justify(model, cls, c2, acc, prog_runner_factory(body), case.get('bound', 2))


def fam_structured(arg):
    acc = Acc('structured')
    for case in arg:
        acc.cases += 1
        check_structured(case, acc)
    if arg:
        acc.sample(arg[len(arg) // 3])
    return acc.result()


def structured_cases(tier):
    out = []
    depths = (1, 2) if tier == 'quick' else (1, 2, 3)
    for depth in depths:
        for idx in chains.chains(depth):
            levels = chains.chain_levels(idx)
            decos = (0, 3) if depth < 3 else (0,)
            for spec in chains.specs_for_chain(levels, decos, ('tape',), ('global', 'func')):
                if depth == 3 and spec['leaf'] not in (0, 2):
                    continue
                out.append({'spec': spec, 'bound': 2 if depth < 3 else 1})
    maxn = 3 if tier == 'quick' else 4
    for n in range(1, maxn + 1):
        for first in small.first_choices(n):
            if first[1] == 'D':
                continue    # the body is wrapped in a function itself: no nested function definitions
            for prog in small.programs(n, first):
                if any(s[0] == 'D' for s in prog):
                    continue
                out.append({'prog': prog, 'bound': 2})
    return out


# ---------------------------------------------------------------- expression statements (pointless or not)

EXPR_OPS = ('+', '&&', '==', '<')


def expr_trees(n):
    """Every expression tree with exactly n internal nodes over {+, &&, unary -, !, group} and leaves {call, 0, x}."""
    leaves = [{'function': {'name': 'systemLog', 'args': [{'string': 'note'}]}}, {'number': 0}, {'variable': 'x'}]
    if n == 0:
        return leaves
    out = []
    for sub in expr_trees(n - 1):
        out.append({'unary': {'op': '-', 'expr': sub}})
        out.append({'unary': {'op': '!', 'expr': sub}})
        out.append({'group': sub})
    for k in range(n):
        for left in expr_trees(k):
            for right in expr_trees(n - 1 - k):
                for op in EXPR_OPS:
                    out.append({'binary': {'op': op, 'left': left, 'right': right}})
    return out


def all_expr_trees(maxn):
    out = []
    for n in range(maxn + 1):
        out.extend(expr_trees(n))
    return out


def check_exprstmt(case, acc):
    trees = all_expr_trees(case['maxn'])
    e = copy.deepcopy(trees[case['i']])
    stmt = {'expr': {'expr': e}}
    after = {'expr': {'expr': {'function': {'name': 'systemLog', 'args': [{'string': 'after'}]}}}}
    if case['scope'] == 'global':
        model = {'statements': [stmt, after, {'return': {'expr': {'variable': 'x'}}}]}
    else:
        model = {'statements': [{'function': {'name': 'hh', 'statements': [stmt, after, {'return': {'expr': {'number': 1}}}]}},
                                {'expr': {'name': 'x', 'expr': {'function': {'name': 'hh', 'args': []}}}}, {'return': {'expr': {'variable': 'x'}}}]}
    cls = purity_and_exactness(model, case, acc)
    if cls is None:
        return
    justify(model, cls, case, acc, jump_runner, 0)


def fam_exprstmt(arg):
    maxn, idxs = arg
    acc = Acc('exprstmts')
    for i in idxs:
        for scope in ('global', 'function'):
            acc.cases += 1
            check_exprstmt({'maxn': maxn, 'i': i, 'scope': scope}, acc)
    if idxs:
        acc.sample({'expression': all_expr_trees(maxn)[idxs[len(idxs) // 2]]})
    return acc.result()



# ---------------------------------------------------------------- the built-in if() as an expression statement

IF_CONDS = [{'number': 0}, {'number': 1}, None]                      # None: the tape function cc()
IF_ARMS = [{'function': {'name': 'systemLog', 'args': [{'string': 'note'}]}}, {'number': 0}, {'variable': 'x'},
           {'binary': {'op': '+', 'left': {'number': 1}, 'right': {'function': {'name': 'systemLog', 'args': [{'string': 'deep'}]}}}}]
IF_WRAPS = ('plain', 'operand', 'nested')


def if_cases():
    out = []
    for wrap in IF_WRAPS:
        for scope in ('global', 'function'):
            for c in range(len(IF_CONDS)):
                out.append({'wrap': wrap, 'scope': scope, 'cond': c, 'arms': []})
                for a in range(len(IF_ARMS)):
                    out.append({'wrap': wrap, 'scope': scope, 'cond': c, 'arms': [a]})
                    for b in range(len(IF_ARMS)):
                        out.append({'wrap': wrap, 'scope': scope, 'cond': c, 'arms': [a, b]})
    return out


def build_if(case):
    cond = copy.deepcopy(IF_CONDS[case['cond']]) or copy.deepcopy(jm.CALL_CC)
    call = {'function': {'name': 'if', 'args': [cond] + [copy.deepcopy(IF_ARMS[i]) for i in case['arms']]}}
    if case['wrap'] == 'operand':
        call = {'binary': {'op': '+', 'left': {'number': 0}, 'right': call}}
    elif case['wrap'] == 'nested':
        call = {'function': {'name': 'if', 'args': [{'number': 1}, call]}}
    stmt = {'expr': {'expr': call}}
    after = {'expr': {'expr': {'function': {'name': 'systemLog', 'args': [{'string': 'after'}]}}}}
    if case['scope'] == 'global':
        return {'statements': [stmt, after, {'return': {'expr': {'variable': 'x'}}}]}
    return {'statements': [{'function': {'name': 'hh', 'statements': [stmt, after, {'return': {'expr': {'number': 1}}}]}},
                           {'expr': {'name': 'x', 'expr': {'function': {'name': 'hh', 'args': []}}}}, {'return': {'expr': {'variable': 'x'}}}]}


def check_ifstmt(case, acc):
    model = build_if(case)
    cls = purity_and_exactness(model, case, acc)
    if cls is None:
        return
    if any(c[0] == 'pointless' for c in cls):
        acc.nontrivial += 1
    justify(model, cls, case, acc, jump_runner, 1)


def fam_ifstmt(arg):
    acc = Acc('ifstmts')
    for case in arg:
        acc.cases += 1
        check_ifstmt(case, acc)
    if arg:
        acc.sample({'case': arg[-1], 'statement': build_if(arg[-1])['statements'][0]})
    return acc.result()



# ---------------------------------------------------------------- reads at great nesting depth

DEEP_SHAPES = ('left-chain', 'right-chain', 'groups', 'negations', 'call-arguments', 'logical-chain')
DEEP_N = 130


def deep_expr(shape, name):
    e = {'variable': name}
    one = {'number': 1}
    for _ in range(DEEP_N):
        if shape == 'left-chain':
            e = {'binary': {'op': '+', 'left': e, 'right': one}}
        elif shape == 'right-chain':
            e = {'binary': {'op': '+', 'left': one, 'right': e}}
        elif shape == 'groups':
            e = {'group': e}
        elif shape == 'negations':
            e = {'unary': {'op': '-', 'expr': e}}
        elif shape == 'call-arguments':
            e = {'function': {'name': 'mathAbs', 'args': [e]}}
        else:
            e = {'binary': {'op': '&&', 'left': e, 'right': one}}
    return e


def deep_cases():
    return [{'shape': sh, 'as': a, 'kind': k} for sh in DEEP_SHAPES for a in ('local', 'argument') for k in ('return', 'jumpif')]


def check_deep_use(case, acc):
    """The only read of a local variable / an argument sits DEEP_N levels down an expression: it is a use."""
    as_arg = case['as'] == 'argument'
    name = 'ua' if as_arg else 'uv'
    e = deep_expr(case['shape'], name)
    log = lambda x: {'expr': {'expr': {'function': {'name': 'systemLog', 'args': [x]}}}}  # noqa: E731
    body = [] if as_arg else [{'expr': {'name': 'uv', 'expr': {'number': 5}}}]
    if case['kind'] == 'return':
        body += [{'return': {'expr': e}}]
    else:
        body += [{'jump': {'label': 'L', 'expr': e}}, log({'string': 'not-taken'}), {'label': 'L'}, {'return': {'expr': {'string': 'r'}}}]
    f = {'name': 'hh', 'statements': body}
    if as_arg:
        f['args'] = ['ua']
    model = {'statements': [{'function': f},
                            {'expr': {'name': 'rr', 'expr': {'function': {'name': 'hh', 'args': [{'number': 5}] if as_arg else []}}}},
                            log({'binary': {'op': '+', 'left': {'string': 'rr='}, 'right': {'variable': 'rr'}}}),
                            {'return': {'expr': {'variable': 'rr'}}}]}
    cls = purity_and_exactness(model, case, acc)
    if cls is None:
        return
    if any(c[0] in ('unused-var', 'unused-arg') for c in cls):
        acc.nontrivial += 1
    justify(model, cls, case, acc, usesite_runner, 0)


def fam_deep_uses(arg):
    acc = Acc('deep_uses')
    for case in arg:
        acc.cases += 1
        check_deep_use(case, acc)
    if arg:
        acc.sample(dict(arg[0], nesting_depth=DEEP_N))
    return acc.result()


# ---------------------------------------------------------------- the same warnings in every interpreter process

HASHSEEDS = ('1', '2', '3', '5', '8', '13')


def hashseed_models():
    lab = lambda n: {'label': n}  # noqa: E731
    jmp = lambda n: {'jump': {'label': n}}  # noqa: E731
    ass = lambda n: {'expr': {'name': n, 'expr': {'number': 1}}}  # noqa: E731
    names = ['alpha', 'beta', 'gamma', 'delta', 'eps', 'zeta', 'eta', 'theta']
    many_labels = [lab('u_' + n) for n in names] + [jmp('k_' + n) for n in names]
    return [
        ('global: 8 unused labels + 8 unknown targets', {'statements': copy.deepcopy(many_labels)}),
        ('function: 8 unused labels + 8 unknown targets', {'statements': [{'function': {'name': 'ff', 'statements': copy.deepcopy(many_labels)}}]}),
        ('function: 8 unused variables, 8 unused arguments', {'statements': [{'function': {'name': 'ff', 'args': ['a_' + n for n in names], 'statements': [ass('v_' + n) for n in names]}}]}),
        ('8 functions defined twice, duplicate arguments', {'statements': [{'function': {'name': 'f_' + n, 'args': ['a', 'a', 'b', 'b'], 'statements': [{'return': {'expr': {'variable': 'a'}}}]}} for n in names + names]}),
        ('labels defined twice in two scopes', {'statements': [lab(n) for n in names + names] + [jmp(n) for n in names]
                                                 + [{'function': {'name': 'ff', 'statements': [lab(n) for n in names + names] + [jmp(n) for n in names]}}]}),
    ]


_LINT_CHILD = ("import json, sys\nsys.path.insert(0, sys.argv[1])\nfrom bare_script.model import lint_script\n"
               "print(json.dumps(lint_script(json.load(sys.stdin))))\n")


def check_hashseed(case, acc):
    import json  # pylint: disable=import-outside-toplevel
    import os  # pylint: disable=import-outside-toplevel
    import subprocess  # pylint: disable=import-outside-toplevel
    import sys  # pylint: disable=import-outside-toplevel
    from ..common import REPO_DIR  # pylint: disable=import-outside-toplevel
    name, model = hashseed_models()[case['m']]
    outs = {}
    for seed in HASHSEEDS:
        env = dict(os.environ, PYTHONHASHSEED=seed)
        proc = subprocess.run([sys.executable, '-c', _LINT_CHILD, os.path.join(REPO_DIR, 'src')], input=json.dumps(model), capture_output=True, text=True, env=env, check=False)
        acc.evals += 1
        if proc.returncode != 0:
            acc.violation(dict(case, model=name, hashseed=seed), 'a list of warnings', proc.stderr.strip().splitlines()[-1:] or ['exit ' + str(proc.returncode)], 'lint_script raised in a fresh interpreter')
            return
        outs[seed] = json.loads(proc.stdout)
    first = outs[HASHSEEDS[0]]
    for seed in HASHSEEDS[1:]:
        if outs[seed] != first:
            acc.violation(dict(case, model=name, hashseeds=[HASHSEEDS[0], seed]), first[:8], outs[seed][:8],
                          'the same model gives different warning lists in two interpreter processes (string hash seeds differ)')
            return
    if first:
        acc.nontrivial += 1
    acc.outcome(len(first))


def fam_hashseed(arg):
    acc = Acc('hashseeds')
    for m in arg:
        acc.cases += 1
        check_hashseed({'m': m}, acc)
    acc.sample({'models': [n for n, _ in hashseed_models()], 'hash_seeds': list(HASHSEEDS)})
    return acc.result()


# ---------------------------------------------------------------- use sites of a local variable / an argument

USE_KINDS = ('return', 'assign-then-return', 'jumpif', 'call-argument')


def check_accessor(case, acc):
    """An expression statement  f(<effectful call>)  for every library function f: never pointless."""
    load_impl()
    from bare_script.library import SCRIPT_FUNCTIONS  # pylint: disable=import-outside-toplevel,import-error
    names = sorted(SCRIPT_FUNCTIONS)
    fname = names[case['i']]
    note = {'function': {'name': 'systemLog', 'args': [{'string': 'note'}]}}
    inner = {'function': {'name': 'arrayNew', 'args': [note]}} if case['wrap'] else note
    stmt = {'expr': {'expr': {'function': {'name': fname, 'args': [inner]}}}}
    after = {'expr': {'expr': {'function': {'name': 'systemLog', 'args': [{'string': 'after'}]}}}}
    if case['scope'] == 'global':
        model = {'statements': [stmt, after]}
    else:
        model = {'statements': [{'function': {'name': 'hh', 'statements': [stmt, after]}}, {'expr': {'expr': {'function': {'name': 'hh', 'args': []}}}}]}
    if fname in ('systemFetch', 'datetimeNow', 'datetimeToday', 'mathRandom'):
        return
    cls = purity_and_exactness(model, dict(case, function=fname), acc)
    if cls is None:
        return
    justify(model, cls, dict(case, function=fname), acc, usesite_runner, 0)


def fam_accessors(arg):
    acc = Acc('accessors')
    for i in arg:
        for wrap in (False, True):
            for scope in ('global', 'function'):
                acc.cases += 1
                check_accessor({'i': i, 'wrap': wrap, 'scope': scope}, acc)
    acc.sample({'statement': 'f(systemLog("note")) for every library function f'})
    return acc.result()


def check_callee(case, acc):
    """A local variable (or an argument) that holds a function and is used ONLY in callee position."""
    kind = case['kind']
    log = lambda x: {'expr': {'expr': {'function': {'name': 'systemLog', 'args': [x]}}}}  # noqa: E731
    target = {'function': {'name': 'tt', 'args': ['v'], 'statements': [log({'binary': {'op': '+', 'left': {'string': 't'}, 'right': {'variable': 'v'}}}), {'return': {'expr': {'variable': 'v'}}}]}}
    call_fv = {'function': {'name': 'fv', 'args': [{'number': 1}]}}
    if kind == 'local-return':
        body = [{'expr': {'name': 'fv', 'expr': {'variable': 'tt'}}}, {'return': {'expr': call_fv}}]
        f = {'name': 'hh', 'statements': body}
        args = []
    elif kind == 'local-statement':
        body = [{'expr': {'name': 'fv', 'expr': {'variable': 'tt'}}}, {'expr': {'expr': call_fv}}, {'return': {'expr': {'string': 'r'}}}]
        f = {'name': 'hh', 'statements': body}
        args = []
    elif kind == 'local-nested-argument':
        body = [{'expr': {'name': 'fv', 'expr': {'variable': 'tt'}}}, {'return': {'expr': {'function': {'name': 'arrayNew', 'args': [call_fv, call_fv]}}}}]
        f = {'name': 'hh', 'statements': body}
        args = []
    else:
        f = {'name': 'hh', 'args': ['fv'], 'statements': [{'jump': {'label': 'L', 'expr': call_fv}}, log({'string': 'not-taken'}), {'label': 'L'}, {'return': {'expr': {'string': 'r'}}}]}
        args = [{'variable': 'tt'}]
    model = {'statements': [target, {'function': f}, {'expr': {'name': 'rr', 'expr': {'function': {'name': 'hh', 'args': args}}}},
                            log({'binary': {'op': '+', 'left': {'string': 'rr='}, 'right': {'variable': 'rr'}}})]}
    cls = purity_and_exactness(model, case, acc)
    if cls is None:
        return
    justify(model, cls, case, acc, usesite_runner, 0)


CALLEE_KINDS = ('local-return', 'local-statement', 'local-nested-argument', 'argument-in-jump-condition')


def fam_callee(arg):
    acc = Acc('callee')
    for k in arg:
        acc.cases += 1
        check_callee({'kind': k}, acc)
    acc.sample({'kinds': list(CALLEE_KINDS)})
    return acc.result()


def use_trees(maxn):
    out = []
    for t in all_expr_trees(maxn):
        text = repr(t)
        if text.count("'variable': 'x'") == 1:
            out.append(t)
    return out


def _subst(e, name):
    (k, v), = e.items()
    if k == 'variable':
        return {'variable': name if v == 'x' else v}
    if k == 'binary':
        return {'binary': {'op': v['op'], 'left': _subst(v['left'], name), 'right': _subst(v['right'], name)}}
    if k == 'unary':
        return {'unary': {'op': v['op'], 'expr': _subst(v['expr'], name)}}
    if k == 'group':
        return {'group': _subst(v, name)}
    if k == 'function':
        return {'function': {'name': v['name'], 'args': [_subst(a, name) for a in v.get('args', [])]}}
    return copy.deepcopy(e)


def check_usesite(case, acc):
    tree = use_trees(case['maxn'])[case['i']]
    as_arg = case['as'] == 'argument'
    name = 'ua' if as_arg else 'uv'
    e = _subst(tree, name)
    kind = case['kind']
    log = lambda x: {'expr': {'expr': {'function': {'name': 'systemLog', 'args': [x]}}}}  # noqa: E731
    body = [] if as_arg else [{'expr': {'name': 'uv', 'expr': {'number': 5}}}]
    if kind == 'return':
        body += [{'return': {'expr': e}}]
    elif kind == 'assign-then-return':
        body += [{'expr': {'name': 'zz', 'expr': e}}, {'return': {'expr': {'variable': 'zz'}}}]
    elif kind == 'jumpif':
        body += [{'jump': {'label': 'L', 'expr': e}}, log({'string': 'not-taken'}), {'label': 'L'}, {'return': {'expr': {'string': 'r'}}}]
    else:
        body += [log({'binary': {'op': '+', 'left': {'string': 'v='}, 'right': e}}), {'return': {'expr': {'string': 'r'}}}]
    f = {'name': 'hh', 'statements': body}
    if as_arg:
        f['args'] = ['ua']
    model = {'statements': [{'function': f},
                            {'expr': {'name': 'rr', 'expr': {'function': {'name': 'hh', 'args': [{'number': 5}] if as_arg else []}}}},
                            log({'binary': {'op': '+', 'left': {'string': 'rr='}, 'right': {'variable': 'rr'}}}),
                            {'return': {'expr': {'variable': 'rr'}}}]}
    cls = purity_and_exactness(model, case, acc)
    if cls is None:
        return
    justify(model, cls, case, acc, usesite_runner, 0)


def usesite_runner(model, prefix):
    o = jm.run_impl(model, prefix, 200)
    return {'result': o['result'], 'logs': o['logs'], 'globals': {'x': o['x']}, 'points': o['points']}


def fam_usesites(arg):
    maxn, idxs = arg
    acc = Acc('usesites')
    for i in idxs:
        for kind in USE_KINDS:
            for how in ('variable', 'argument'):
                acc.cases += 1
                check_usesite({'maxn': maxn, 'i': i, 'kind': kind, 'as': how}, acc)
    if idxs:
        acc.sample({'expression': use_trees(maxn)[idxs[len(idxs) // 2]], 'kinds': list(USE_KINDS)})
    return acc.result()


# ---------------------------------------------------------------- shipped scripts

def shipped_files():
    d = os.path.join(REPO_DIR, 'src', 'bare_script', 'include')
    return sorted(f for f in os.listdir(d) if f.endswith('.bare'))


def check_shipped(case, acc):
    bs = load_impl()
    path = os.path.join(REPO_DIR, 'src', 'bare_script', 'include', case['file'])
    with open(path, encoding='utf-8') as fh:
        model = bs.parse_script(fh.read())
    acc.states += 1
    acc.transitions += 1
    acc.traces += 1
    purity_and_exactness(model, case, acc)


def fam_shipped(arg):
    acc = Acc('shipped')
    for f in arg:
        acc.cases += 1
        check_shipped({'file': f}, acc)
        acc.sample({'file': f})
    return acc.result()


def families(tier):
    load_impl()
    nq = len(q_alphabet())
    maxlen = 3 if tier == 'quick' else 4
    shards = [(0, [])]
    for length in range(1, maxlen + 1):
        # lists of length 4 (thorough) range over the N_CORE-statement core of the alphabet; the later additions are
        # covered in every list of length <= 3
        width = N_CORE if length >= 4 else nq
        for firsts in split(list(range(width)), width if length >= 3 else 2):
            shards.append((length, firsts, width))
    jump_expected = sum((N_CORE if k >= 4 else nq) ** k for k in range(maxlen + 1))
    sc = structured_cases(tier)
    files = shipped_files()
    maxn = 2 if tier == 'quick' else 3
    ntrees = len(all_expr_trees(maxn))
    nuse = len(use_trees(maxn))
    from bare_script.library import SCRIPT_FUNCTIONS  # pylint: disable=import-outside-toplevel,import-error
    nlib = len(SCRIPT_FUNCTIONS)
    return [
        Family('accessors', fam_accessors, split(list(range(nlib)), 8), 'an expression statement f(effectful call) and f(arrayNew(effectful call)) for every library function f, at global scope and in a function: a "pointless" verdict is refuted by deleting the statement', expected=nlib * 4),
        Family('callee', fam_callee, [list(CALLEE_KINDS)], 'a local variable / an argument that holds a function and is used only in callee position', expected=len(CALLEE_KINDS)),
        Family('usesites', fam_usesites, [(maxn, idxs) for idxs in split(list(range(nuse)), 32)],
               f'a function-local variable / an argument read exactly once, inside every expression tree with <= {maxn} internal nodes, in a return, an assignment, a jump condition and a call argument: an "unused" verdict is refuted by renaming the definition', expected=nuse * len(USE_KINDS) * 2),
        Family('exprstmts', fam_exprstmt, [(maxn, idxs) for idxs in split(list(range(ntrees)), 32)],
               f'every expression tree with <= {maxn} internal nodes over {{+, &&, ==, <, unary -, !, group}} and leaves {{logging call, 0, x}} as an expression statement, at global scope and inside a function: a "pointless" verdict is justified by deleting the statement', expected=2 * ntrees),
        Family('deep_uses', fam_deep_uses, [deep_cases()], f'the only read of a local variable / an argument sits {DEEP_N} levels down a left chain, a right chain, groups, negations, call arguments or an && chain, in a return and in a jump condition: an "unused" verdict is refuted by renaming', expected=len(deep_cases())),
        Family('hashseeds', fam_hashseed, [[m] for m in range(len(hashseed_models()))], f'models with 8 findings of one kind per scope linted in {len(HASHSEEDS)} fresh interpreter processes with different string hash seeds: identical warning lists', expected=len(hashseed_models())),
        Family('ifstmts', fam_ifstmt, split(if_cases(), 8), 'the built-in if() as an expression statement with 1..3 arguments: condition in {0, 1, tape call}, each arm in {logging call, 0, x, 1 + logging call}, plain / as an operand / as the selected arm of another if(), at global scope and inside a function: a "pointless" verdict is justified by deleting the statement on every tape',
               expected=len(IF_WRAPS) * 2 * len(IF_CONDS) * (1 + len(IF_ARMS) + len(IF_ARMS) ** 2)),
        Family('jumpmodels', fam_jump, shards, f'every list of length <= 3 over the {nq}-statement alphabet' + (f' and of length 4 over its first {N_CORE} statements' if maxlen >= 4 else '') + ' (C08 alphabet + dangling jumps, third label, pointless statement, 12 function statements (one with a nested function statement; two whose function / argument / variable / label names contain braces and percent signs), labels named like schema keys and with the reserved __bareScript prefix, with duplicate names/arguments and label-bearing bodies)',
               expected=jump_expected),
        Family('structured', fam_structured, split(sc, 48), 'parsed nesting chains (depth per tier) and every small program wrapped in a function with an unused argument, an unused variable and a pointless statement', expected=len(sc)),
        Family('shipped', fam_shipped, [files], 'the shipped .bare scripts found at run time', expected=len(files)),
    ]


_CHECKS = {'accessors': check_accessor, 'callee': check_callee, 'usesites': check_usesite, 'jumpmodels': check_jump, 'structured': check_structured, 'shipped': check_shipped, 'exprstmts': check_exprstmt, 'ifstmts': check_ifstmt, 'deep_uses': check_deep_use, 'hashseeds': check_hashseed}


def replay(family, case):
    acc = Acc(family)
    _CHECKS[family](case, acc)
    res = acc.result()
    return {'differs': bool(res['nviol'] or res['nknown']), 'violations': res['violations'] + res['known_violations']}
