"""C07 Lowered code is well formed: schema-valid with intact, unique jump targets (DESIGN 4/C07)."""

import itertools
import re

from ..common import load_impl
from ..engine.shard import Acc, Family, split
from ..engine.tape import explore
from ..gen import ast, chains, harness

LEVEL = 'model_checking'
RULE = ('every nesting chain of the 11 (construct, branch slot) choices to depth 4 x loop decorations x leaf variants x '
        'condition styles x three scopes (global, inside a function, function defined inside the outermost construct); '
        'every ordered pair of depth <= 2 chains placed in {global, function 1, function 2}; sibling pairs in one block. '
        'Static half on every program: validate_script accepts the model; per scope (global list, each function body) '
        'every jump label is defined exactly once in that scope, every defined label is targeted by a jump of that scope; '
        'lint_script reports no label warning. Dynamic half (model checking): on every tape with <= 2 deviations no run '
        'raises "Unknown jump label". A state is a (program, tape prefix) node of the dynamic half. A program is '
        'non-trivial when its lowering defines at least 3 labels.')
ASSUMPTIONS = [
    'generated programs never use the reserved __bareScript prefix themselves',
    'schema validity is decided by the package\'s own validate_script (the published schema)',
]

LABEL_WORDS = re.compile(r'label', re.I)


def label_facts(statements):
    """Independent pass over one scope: (defined counts, targets)."""
    defined = {}
    targets = set()
    for st in statements:
        if 'label' in st:
            defined[st['label']] = defined.get(st['label'], 0) + 1
        elif 'jump' in st:
            targets.add(st['jump']['label'])
    return defined, targets


def static_check(model, case, acc):
    bs = load_impl()
    from bare_script.model import lint_script, validate_script  # pylint: disable=import-outside-toplevel,import-error
    try:
        validate_script(model)
    except Exception as exc:  # pylint: disable=broad-exception-caught
        acc.violation(case, 'schema-valid model', ('raise', type(exc).__name__, str(exc)[:200]), 'validate_script rejects the model returned by parse_script')
        return 0
    scopes = [('global', model['statements'])]
    for st in model['statements']:
        if 'function' in st:
            scopes.append(('function ' + st['function']['name'], st['function']['statements']))
            for inner in st['function']['statements']:
                if 'function' in inner:
                    acc.violation(case, 'no nested function statement', inner['function']['name'], 'function statement inside a function body')
    nlabels = 0
    for name, sts in scopes:
        defined, targets = label_facts(sts)
        nlabels += len(defined)
        dup = sorted(k for k, n in defined.items() if n > 1)
        if dup:
            acc.violation(case, 'every label defined exactly once in its scope', {'scope': name, 'labels': dup}, 'label defined more than once in one scope')
        missing = sorted(t for t in targets if t not in defined)
        if missing:
            acc.violation(case, 'every jump targets a label of the same scope', {'scope': name, 'labels': missing}, 'jump to a label that is not defined in the same scope')
        unused = sorted(k for k in defined if k not in targets)
        if unused:
            acc.violation(case, 'every emitted label is the target of a jump', {'scope': name, 'labels': unused}, 'label that no jump of its scope targets')
    try:
        warnings = lint_script(model)
    except Exception as exc:  # pylint: disable=broad-exception-caught
        acc.violation(case, 'a list of warnings', ('raise', type(exc).__name__, str(exc)[:200]), 'lint_script raised')
        return nlabels
    bad = [w for w in warnings if LABEL_WORDS.search(w)]
    if bad:
        acc.violation(case, 'no label warning', bad[:3], 'lint_script reports a label warning for structured code')
    del bs
    return nlabels


def parse_or_violation(src, case, acc):
    bs = load_impl()
    acc.evals += 1
    try:
        return bs.parse_script(src)
    except Exception as exc:  # pylint: disable=broad-exception-caught
        acc.violation(case, 'a model (well-formed program)', ('raise', type(exc).__name__, str(exc)[:200]), 'parse_script rejected a well-formed program')
        return None


def dynamic_check(body, model, case, acc, bound):
    prog = harness.Program(body)
    prog.model = model

    def run_pair(prefix):
        x = prog.run_impl(prefix)
        acc.evals += 1
        return x['points'], x

    def on_run(prefix, points, x):
        acc.states += 1
        acc.traces += 1
        res = x['result']
        if res[0] == 'raise' and 'Unknown jump label' in res[2]:
            acc.violation(dict(case, tape=list(prefix)), 'no Unknown jump label error', res, 'structured code raised Unknown jump label')
            return False
        if res[0] == 'horizon':
            return False
        return True

    _, decisions, capped = explore(run_pair, bound, 10, on_run, max_runs=20000)
    acc.transitions += decisions
    acc.capped = acc.capped or capped


# ---------------------------------------------------------------- chains

CHAIN_PLAN = {
    'quick': [
        (1, (0, 1, 2, 3), chains.STYLES, chains.SCOPES, 2),
        (2, (0, 1, 2, 3), chains.STYLES, chains.SCOPES, 2),
        (3, (0, 1, 2, 3), chains.STYLES, chains.SCOPES, None),
        (4, (0, 3), ('tape',), ('global',), None),
    ],
    'thorough': [
        (1, (0, 1, 2, 3), chains.STYLES, chains.SCOPES, 3),
        (2, (0, 1, 2, 3), chains.STYLES, chains.SCOPES, 3),
        (3, (0, 1, 2, 3), chains.STYLES, chains.SCOPES, 1),
        (4, (0, 1, 2, 3), chains.STYLES, chains.SCOPES, None),
    ],
}


def check_chain(case, acc):
    body = chains.build(case['spec'])
    src = ast.source(body)
    c2 = dict(case, source=src)
    model = parse_or_violation(src, c2, acc)
    if model is None:
        return
    n = static_check(model, c2, acc)
    if n >= 3:
        acc.nontrivial += 1
    acc.outcome(n)
    if case.get('dyn') is not None:
        dynamic_check(body, model, c2, acc, case['dyn'])


def fam_chain(arg):
    tier, plan_ix, head = arg
    depth, deco_set, styles, scopes, dyn = CHAIN_PLAN[tier][plan_ix]
    acc = Acc('chain')
    for tail in itertools.product(range(len(chains.CONSTRUCTS)), repeat=depth - len(head)):
        levels = chains.chain_levels(tuple(head) + tail)
        for spec in chains.specs_for_chain(levels, deco_set, styles, scopes):
            acc.cases += 1
            check_chain({'spec': spec, 'dyn': dyn}, acc)
            if acc.cases % 4999 == 1:
                acc.sample({'spec': spec})
    return acc.result()


def chain_family(tier):
    shards = []
    expected = 0
    n = len(chains.CONSTRUCTS)
    desc = []
    for plan_ix, (depth, deco_set, styles, scopes, dyn) in enumerate(CHAIN_PLAN[tier]):
        hl = min(depth, 2)
        for head in itertools.product(range(n), repeat=hl):
            shards.append((tier, plan_ix, list(head)))
        for idx in chains.chains(depth):
            expected += chains.count_for_chain(chains.chain_levels(idx), deco_set, styles, scopes)
        desc.append(f'depth {depth}: decorations {list(deco_set)}, styles {list(styles)}, scopes {list(scopes)}, dynamic bound {dyn}')
    return Family('chain', fam_chain, shards, '; '.join(desc), expected=expected)


# ---------------------------------------------------------------- several functions in one script

PLACEMENTS = ('global+global', 'global+func', 'func+global', 'func+func', 'func+func+global-between')
QUICK_PLACEMENTS = ('global+func', 'func+func', 'func+func+global-between')


def pair_bodies():
    out = []
    for depth in (1, 2):
        for idx in chains.chains(depth):
            levels = chains.chain_levels(idx)
            nl = sum(1 for c, _ in levels if c in chains.LOOPS)
            for leaf in ((0, 2) if nl else (0,)):
                decos = [3 if c in chains.LOOPS else 0 for c, _ in levels]
                out.append({'levels': levels, 'decos': decos, 'leaf': leaf, 'style': 'tape', 'scope': 'global'})
    return out


def build_pair(spec_a, spec_b, placement):
    a = chains.build(spec_a)
    b = chains.build(spec_b)
    log = lambda k: ('expr', ('call', 'systemLog', [('str', k)]))  # noqa: E731
    if placement == 'global+global':
        return a + b
    if placement == 'global+func':
        return a + [('func', 'f2', [], False, b), ('expr', ('call', 'f2', []))]
    if placement == 'func+global':
        return [('func', 'f1', [], False, a), ('expr', ('call', 'f1', []))] + b
    if placement == 'func+func':
        return [('func', 'f1', [], False, a), ('func', 'f2', [], False, b), ('expr', ('call', 'f1', [])), ('expr', ('call', 'f2', []))]
    return [('func', 'f1', [], False, a), ('if', [(('call', 'cc', []), [log('m')])], None), ('func', 'f2', [], False, b),
            ('expr', ('call', 'f1', [])), ('expr', ('call', 'f2', []))]


def check_pair(case, acc):
    bodies = pair_bodies()
    body = build_pair(bodies[case['a']], bodies[case['b']], case['placement'])
    src = ast.source(body)
    c2 = dict(case, source=src)
    model = parse_or_violation(src, c2, acc)
    if model is None:
        return
    n = static_check(model, c2, acc)
    if n >= 3:
        acc.nontrivial += 1
    acc.outcome(n)
    if case.get('dyn') is not None:
        dynamic_check(body, model, c2, acc, case['dyn'])


def fam_pairs(arg):
    tier, rows = arg
    acc = Acc('pairs')
    nb = len(pair_bodies())
    for a in rows:
        for b in range(nb):
            for placement in (PLACEMENTS if tier == 'thorough' else QUICK_PLACEMENTS):
                acc.cases += 1
                dyn = 1 if (tier == 'thorough' or (a + b) % 13 == 0) else None
                check_pair({'a': a, 'b': b, 'placement': placement, 'dyn': dyn}, acc)
        acc.sample({'a': pair_bodies()[a], 'b': pair_bodies()[(a * 3 + 1) % nb], 'placement': 'func+func'})
    return acc.result()


def check_branch_end(case, acc):
    body = chains.build_branch_end(case['spec'])
    src = ast.source(body)
    c2 = dict(case, source=src)
    model = parse_or_violation(src, c2, acc)
    if model is None:
        return
    n = static_check(model, c2, acc)
    if n >= 3:
        acc.nontrivial += 1
    acc.outcome(n)
    dynamic_check(body, model, c2, acc, 2)


def check_loop_tail(case, acc):
    body = chains.build_loop_tail(case['spec'])
    src = ast.source(body)
    c2 = dict(case, source=src)
    model = parse_or_violation(src, c2, acc)
    if model is None:
        return
    n = static_check(model, c2, acc)
    if n >= 3:
        acc.nontrivial += 1
    acc.outcome(n)
    dynamic_check(body, model, c2, acc, 2)


def fam_loop_tail(arg):
    acc = Acc('loop_tails')
    for spec in arg:
        acc.cases += 1
        check_loop_tail({'spec': spec}, acc)
    if arg:
        acc.sample({'spec': arg[0], 'source': ast.source(chains.build_loop_tail(arg[0]))})
    return acc.result()


def fam_branch_end(arg):
    acc = Acc('branch_end')
    for spec in arg:
        acc.cases += 1
        check_branch_end({'spec': spec}, acc)
    if arg:
        acc.sample({'spec': arg[len(arg) // 2], 'source': ast.source(chains.build_branch_end(arg[len(arg) // 2]))})
    return acc.result()


def pair1_bodies():
    """Depth-1 bodies with EVERY decoration (a loop with and without break / continue guards) - the siblings of pairs1."""
    out = []
    for idx in chains.chains(1):
        levels = chains.chain_levels(idx)
        is_loop = levels[0][0] in chains.LOOPS
        for deco in (range(4) if is_loop else (0,)):
            for leaf in ((0, 2) if is_loop else (0,)):
                out.append({'levels': levels, 'decos': [deco], 'leaf': leaf, 'style': 'tape', 'scope': 'global'})
    return out


def check_pair1(case, acc):
    bodies = pair1_bodies()
    body = build_pair(bodies[case['a']], bodies[case['b']], case['placement'])
    src = ast.source(body)
    c2 = dict(case, source=src)
    model = parse_or_violation(src, c2, acc)
    if model is None:
        return
    n = static_check(model, c2, acc)
    if n >= 3:
        acc.nontrivial += 1
    acc.outcome(n)
    if case.get('dyn') is not None:
        dynamic_check(body, model, c2, acc, case['dyn'])


def fam_pairs1(arg):
    acc = Acc('pairs1')
    nb = len(pair1_bodies())
    for a in arg:
        for b in range(nb):
            for placement in PLACEMENTS:
                acc.cases += 1
                check_pair1({'a': a, 'b': b, 'placement': placement, 'dyn': 1 if placement in ('global+global', 'func+func') else None}, acc)
        acc.sample({'a': pair1_bodies()[a], 'placement': 'func+func'})
    return acc.result()


def misc_programs():
    """Small hand-written shapes no generator produces: empty bodies, include statements in every position."""
    from . import C01  # pylint: disable=import-outside-toplevel
    out = []
    for i in range(len(C01.EMPTY_SHAPES)):
        out.append(('empty:' + C01.EMPTY_SHAPES[i], ast.source(C01.build_empty({'s': i})), C01.build_empty({'s': i})))
    inc = [
        ('include-top', "include 'a.bare'\nsystemLog('x')\n"),
        ('include-system-top', "include <a.bare>\ninclude 'b.bare'\nsystemLog('x')\n"),
        ('include-in-function', "function ff():\n    include 'a.bare'\n    systemLog('x')\nendfunction\n"),
        ('include-in-function-in-block', "if true:\n    function ff():\n        include <a.bare>\n        include 'b.bare'\n        return 1\n    endfunction\nendif\n"),
        ('include-in-loop', "for v in arrayNew(1):\n    include 'a.bare'\nendfor\nwhile false:\n    include <b.bare>\nendwhile\n"),
        ('include-in-if-chain', "if cc():\n    include 'a.bare'\nelif cc():\n    include 'b.bare'\nelse:\n    include <c.bare>\nendif\n"),
        ('async-function', "async function ff(a, b...):\n    return a\nendfunction\n"),
        ('labels-and-jumps', "function ff():\n    jump end\n    mid:\n    jumpif (cc()) mid\n    end:\nendfunction\njump fin\nfin:\n"),
    ]
    for name, src in inc:
        out.append((name, src, None))
    return out


def check_misc(case, acc):
    name, src, body = misc_programs()[case['i']]
    c2 = dict(case, name=name, source=src)
    model = parse_or_violation(src, c2, acc)
    if model is None:
        return
    n = static_check_user_labels(model, c2, acc) if name == 'labels-and-jumps' else static_check(model, c2, acc)
    acc.nontrivial += 1
    acc.outcome((name, n))
    if body is not None:
        dynamic_check(body, model, c2, acc, 3)


def static_check_user_labels(model, case, acc):
    """Programs with user-written labels: only schema validity is checked (label discipline is the user's own)."""
    load_impl()
    from bare_script.model import validate_script  # pylint: disable=import-outside-toplevel,import-error
    try:
        validate_script(model)
    except Exception as exc:  # pylint: disable=broad-exception-caught
        acc.violation(case, 'schema-valid model', ('raise', type(exc).__name__, str(exc)[:200]), 'validate_script rejects the model returned by parse_script')
    return 0


def fam_misc(arg):
    acc = Acc('misc')
    for i in arg:
        acc.cases += 1
        check_misc({'i': i}, acc)
    acc.sample({'programs': [m[0] for m in misc_programs()]})
    return acc.result()


# ---------------------------------------------------------------- break / continue in places where no loop of the same function encloses them

ME_OUTER = ('none', 'while', 'for', 'if-in-while', 'for-in-function')
ME_FUNC = (False, True)                      # is the exit inside a function DEFINED at that place?
ME_WRAP = ('bare', 'if', 'else', 'elif', 'if-in-if', 'after-own-loop')
ME_EXIT = ('break', 'continue')


def misplaced_cases():
    return [{'outer': o, 'func': f, 'wrap': w, 'exit': e} for o in ME_OUTER for f in ME_FUNC for w in ME_WRAP for e in ME_EXIT]


def build_misplaced(case):
    """Source text in which a break / continue may have no enclosing loop in its own function. Whether the text is
    valid is for the parser to say: it must either raise BareScriptParserError or return a well-formed model."""
    ex = case['exit']
    wrap = case['wrap']
    if wrap == 'bare':
        inner = [ex]
    elif wrap == 'if':
        inner = ['if cc():', '    ' + ex, 'endif']
    elif wrap == 'else':
        inner = ['if cc():', "    systemLog('t')", 'else:', '    ' + ex, 'endif']
    elif wrap == 'elif':
        inner = ['if cc():', "    systemLog('t')", 'elif cc():', '    ' + ex, 'endif']
    elif wrap == 'if-in-if':
        inner = ['if cc():', '    if cc():', '        ' + ex, '    endif', 'endif']
    else:
        inner = ['for u in arrayNew(1):', "    systemLog('u')", 'endfor', 'if cc():', '    ' + ex, 'endif']
    if case['func']:
        inner = ['function gg():'] + ['    ' + ln for ln in inner] + ["    systemLog('g')", 'endfunction']
    ind = lambda lines: ['    ' + ln for ln in lines]  # noqa: E731
    outer = case['outer']
    if outer == 'none':
        lines = inner
    elif outer == 'while':
        lines = ['while cc():'] + ind(inner) + ['endwhile']
    elif outer == 'for':
        lines = ['for v in arrayNew(1, 2):'] + ind(inner) + ['endfor']
    elif outer == 'if-in-while':
        lines = ['while cc():', '    if cc():'] + ind(ind(inner)) + ['    endif', 'endwhile']
    else:
        lines = ['function ff():', '    for v in arrayNew(1, 2):'] + ind(ind(inner)) + ['    endfor', 'endfunction']
    return '\n'.join(["systemLog('start')"] + lines + ["systemLog('end')"]) + '\n'


def check_misplaced(case, acc):
    bs = load_impl()
    src = build_misplaced(case)
    c2 = dict(case, source=src)
    acc.evals += 1
    try:
        model = bs.parse_script(src)
    except bs.BareScriptParserError:
        acc.outcome('rejected')
        return
    except Exception as exc:  # pylint: disable=broad-exception-caught
        acc.violation(c2, 'a model or BareScriptParserError', ('raise', type(exc).__name__, str(exc)[:200]), 'parse_script raised another exception')
        return
    n = static_check(model, c2, acc)
    acc.nontrivial += 1
    acc.outcome(('accepted', n))


def fam_misplaced(arg):
    acc = Acc('misplaced_exits')
    for case in arg:
        acc.cases += 1
        check_misplaced(case, acc)
    if arg:
        acc.sample({'case': arg[-1], 'source': build_misplaced(arg[-1])})
    return acc.result()


def families(tier):
    load_impl()
    nb = len(pair_bodies())
    nb1 = len(pair1_bodies())
    nmisc = len(misc_programs())
    be = chains.branch_end_specs()
    return [
        Family('misplaced_exits', fam_misplaced, split(misplaced_cases(), 4), 'break / continue bare, inside if / else / elif / nested ifs, or after a complete loop of their own - at top level, in a while, a for, an if inside a while, and inside a function DEFINED at each of those places: the parser either rejects the text or returns a model whose every jump stays in its scope', expected=len(misplaced_cases())),
        Family('loop_tails', fam_loop_tail, split(chains.loop_tail_specs(), 16), "the outer loop's own continue / break (guarded, or bare at the end) before and / or after a COMPLETE nested loop of its body: 2 outer loops x 6 inner shapes x 2 exits x 4 placements x 2 scopes; static + dynamic (bound 2)", expected=len(chains.loop_tail_specs())),
        Family('branch_end', fam_branch_end, split(be, 32), 'an if chain (if / if-else / if-elif / if-elif-else) inside a loop (while, for, counter while) where every branch independently ends in nothing / break / continue / return; x 2 scopes x 3 surroundings; static + dynamic (bound 2)', expected=len(be)),
        Family('misc', fam_misc, [list(range(nmisc))], 'hand-written shapes: loops/ifs with empty and comment-only bodies (static + dynamic), include statements at top level, in functions, in loops and in if chains, an async function, user labels (schema validity)', expected=nmisc),
        chain_family(tier),
        Family('pairs1', fam_pairs1, split(list(range(nb1)), 16), f'every ordered pair of the {nb1} depth-1 bodies (each loop with every guard decoration and with/without a continue leaf) x 5 placements: a loop WITH a continue next to a loop WITHOUT one', expected=nb1 * nb1 * len(PLACEMENTS)),
        Family('pairs', fam_pairs, [(tier, r) for r in split(list(range(nb)), 48)],
               f'every ordered pair of {nb} depth <= 2 chain bodies x placements {list(PLACEMENTS if tier == "thorough" else QUICK_PLACEMENTS)}',
               expected=nb * nb * len(PLACEMENTS if tier == 'thorough' else QUICK_PLACEMENTS)),
    ]


_CHECKS = {'misplaced_exits': check_misplaced, 'loop_tails': check_loop_tail, 'misc': check_misc, 'pairs1': check_pair1, 'chain': check_chain, 'pairs': check_pair, 'branch_end': check_branch_end}


def replay(family, case):
    acc = Acc(family)
    _CHECKS[family](case, acc)
    res = acc.result()
    return {'differs': bool(res['nviol'] or res['nknown']), 'violations': res['violations'] + res['known_violations']}
