"""C04 Scoping, calling convention and host globals behave as documented (DESIGN 4/C04)."""

import itertools

from ..common import blamed_name, canon, load_impl, runtime_kind
from ..engine.shard import Acc, Family, split
from ..ref import values as rv

LEVEL = 'model_checking'
RULE = ('(a) calling convention: the full product parameters 0..3 x trailing "..." x supplied arguments 0..5 x call path '
        '{direct, through a variable, systemPartial with 1 and 2 bound arguments, arrayIndexOf predicate, arraySort '
        'comparator, from inside another script function, from a dataFilter expression}; the callee logs the JSON of its '
        'parameters, compared with the reference binding rule. (b) scoping: explicit-state breadth-first search to '
        'fixpoint over the live globals dictionary kept across successive execute_script / evaluate_expression calls; '
        'events are one-statement scripts (global assignment, function definitions that assign locals, calls, script '
        'functions shadowing a library function and an expression built-in, systemGlobalGet/Set at top level and inside '
        'a function, expression-mode evaluation with and without locals); every transition is compared with the '
        'reference environment model (result and complete user-visible globals). (c) host configurations: every subset '
        'of pre-populated host names {arrayLength, mathAbs, abs, x} x programs. A state is a distinct canonical globals '
        'state, a transition one event executed by the real interpreter. A calling-convention case is non-trivial when '
        'arguments and parameters differ in number or a "..." parameter is present.')
ASSUMPTIONS = [
    'expression-mode evaluation is given an options object that already carries statementCount (as after execute_script); with a fresh options dict a script function called from evaluate_expression fails on the missing counter and yields null - recorded as an observation in DESIGN.md, not claimed by this property',
    'reference binding rule: positional, missing null, surplus ignored, trailing "..." collects the rest as an array (empty if none)',
    'reference environment: per-call locals, one globals map, library added only for missing names, built-ins last and only in expression mode',
]

PATHS = ('direct', 'variable', 'partial1', 'partial2', 'partial-of-partial', 'indexof', 'sort', 'nested', 'datafilter')


def bind(nparams, last, args):
    out = []
    for i in range(nparams):
        if last and i == nparams - 1:
            out.append(list(args[i:]) if i < len(args) else [])
        else:
            out.append(args[i] if i < len(args) else None)
    return out


# a spelling is the separator of the parameter list, optionally prefixed by 'ASYNC|' (an `async function` header) and / or
# 'DOTS|' (blanks between the last parameter and its `...`)
HEADER_SPELLINGS = (', ', ',', ' ,\t', '\t,  ', ' , ', 'ASYNC|, ', 'DOTS|, ', 'ASYNC|DOTS| ,')


def callee_source(nparams, last, ret, sep=', '):
    ps = [f'p{i + 1}' for i in range(nparams)]
    # globals with the parameters' names: a missing parameter is null in the call, it must never fall through to these
    is_async = 'ASYNC|' in sep
    dots = ' \t...' if 'DOTS|' in sep else '...'
    sep = sep.replace('ASYNC|', '').replace('DOTS|', '')
    head = "p1 = 'G1'\np2 = 'G2'\np3 = 'G3'\n" + ('async function ff(' if is_async else 'function ff(') + sep.join(ps) + (dots if last and nparams else '') + '):'
    body = ["    systemLog('ff:' + jsonStringify(arrayNew(" + ', '.join(ps) + ')))']
    if ps:
        body.append("    systemLog('ty:' + " + " + ',' + ".join(f'systemType({p_})' for p_ in ps) + ')')
    body.append('    return ' + ret)
    return [head] + body + ['endfunction']


def convention_case(nparams, last, nargs, path, sep=', '):
    global _SEP  # pylint: disable=global-statement
    _SEP = sep
    return _convention_case(nparams, last, nargs, path)


_SEP = ', '


def _convention_case(nparams, last, nargs, path):
    """Returns (source, expected logs, expected result canonical or None if not compared)."""
    args = [10 * (i + 1) for i in range(nargs)]
    arg_text = ', '.join(str(a) for a in args)
    ps = [f'p{i + 1}' for i in range(nparams)]
    ret_array = 'arrayNew(' + ', '.join(ps) + ')'

    def log_of(actual):
        return 'ff:' + rv.json_text(bind(nparams, last and nparams > 0, actual))

    def logs_of(actual):
        bound = bind(nparams, last and nparams > 0, actual)
        out = [log_of(actual)]
        if bound:
            out.append('ty:' + ','.join(rv.rtype(v) for v in bound))
        return out

    if path == 'direct':
        src = callee_source(nparams, last, ret_array, _SEP) + [f'return ff({arg_text})']
        return src, logs_of(args), bind(nparams, last and nparams > 0, args)
    if path == 'variable':
        src = callee_source(nparams, last, ret_array, _SEP) + ['gf = ff', f'return gf({arg_text})']
        return src, logs_of(args), bind(nparams, last and nparams > 0, args)
    if path in ('partial1', 'partial2'):
        bound = [101] if path == 'partial1' else [101, 102]
        src = callee_source(nparams, last, ret_array, _SEP) + [f'pf = systemPartial(ff, {", ".join(map(str, bound))})', f'return pf({arg_text})']
        actual = bound + args
        return src, logs_of(actual), bind(nparams, last and nparams > 0, actual)
    if path == 'partial-of-partial':
        # systemPartial(systemPartial(ff, 101), 102, 103)(args): bound arguments accumulate left to right
        src = callee_source(nparams, last, ret_array, _SEP) + ['pf = systemPartial(systemPartial(ff, 101), 102, 103)', f'return pf({arg_text})']
        actual = [101, 102, 103] + args
        return src, logs_of(actual), bind(nparams, last and nparams > 0, actual)
    if path == 'indexof':
        # predicate called with one argument per element until the result is truthy (a non-empty array)
        elems = [7, 8]
        src = callee_source(nparams, last, ret_array, _SEP) + ['return arrayIndexOf(arrayNew(7, 8), ff)']
        logs = []
        result = -1
        for i, e in enumerate(elems):
            logs.extend(logs_of([e]))
            if len(bind(nparams, last and nparams > 0, [e])) > 0:
                result = i
                break
        return src, logs, result
    if path == 'sort':
        # comparator called with two arguments; which pairs and how often is the sort algorithm's business
        src = callee_source(nparams, last, '0', _SEP) + ['arraySort(arrayNew(2, 1), ff)', "return 'done'"]
        return src, ('each', logs_of([2, 1]) + logs_of([1, 2])), 'done'
    if path == 'nested':
        src = callee_source(nparams, last, ret_array, _SEP) + ['function outer(p1):', f'    return ff({arg_text})', 'endfunction', 'return outer(999)']
        return src, logs_of(args), bind(nparams, last and nparams > 0, args)
    if path == 'datafilter':
        inner = ', '.join(['a'] + [str(a) for a in args])
        src = callee_source(nparams, last, ret_array, _SEP) + [f"dd = dataFilter(arrayNew(objectNew('a', 5)), 'ff({inner})')", 'return arrayLength(dd)']
        actual = [5] + args
        keep = len(bind(nparams, last and nparams > 0, actual)) > 0
        return src, logs_of(actual), 1 if keep else 0
    raise ValueError(path)


def check_convention(case, acc):
    bs = load_impl()
    nparams, last, nargs, path = case['nparams'], case['last'], case['nargs'], case['path']
    src_lines, exp_logs, exp_res = convention_case(nparams, last, nargs, path, HEADER_SPELLINGS[case.get('sep', 0)])
    src = '\n'.join(src_lines) + '\n'
    logs = []
    acc.evals += 1
    acc.states += 1
    acc.transitions += 1
    acc.traces += 1
    c2 = dict(case, source=src)
    try:
        res = bs.execute_script(bs.parse_script(src), {'globals': {}, 'logFn': logs.append})
    except Exception as exc:  # pylint: disable=broad-exception-caught
        acc.violation(c2, {'logs': exp_logs, 'result': exp_res}, ('raise', type(exc).__name__, str(exc)[:200]), 'the call raised')
        return
    if isinstance(exp_logs, tuple):
        allowed = set(exp_logs[1])
        if not logs or any(entry not in allowed for entry in logs):
            acc.violation(c2, {'each log entry one of': sorted(allowed)}, logs, 'comparator callback received wrongly bound parameters')
    elif logs != exp_logs:
        acc.violation(c2, exp_logs, logs, 'parameters bound differently from the calling convention')
    if canon(res) != canon(exp_res):
        acc.violation(c2, canon(exp_res), canon(res), 'result differs from the reference binding')
    if nargs != nparams or last:
        acc.nontrivial += 1
    acc.outcome((tuple(logs[:1]), repr(res)[:40]))


def fam_convention(arg):
    acc = Acc('convention')
    for case in arg:
        acc.cases += 1
        check_convention(case, acc)
    mid = arg[len(arg) // 2]
    acc.sample(dict(mid, source='\n'.join(convention_case(mid['nparams'], mid['last'], mid['nargs'], mid['path'])[0])))
    return acc.result()


def convention_cases():
    out = []
    for nparams in range(4):
        for last in ((False, True) if nparams else (False,)):
            for nargs in range(6):
                for path in PATHS:
                    out.append({'nparams': nparams, 'last': last, 'nargs': nargs, 'path': path, 'sep': 0})
                    if path in ('direct', 'nested'):
                        # the same with other spellings of the header (blanks/tabs around the commas, async, blanks before ...)
                        for sep in range(1, len(HEADER_SPELLINGS)):
                            plain_sep = 'ASYNC' not in HEADER_SPELLINGS[sep] and 'DOTS' not in HEADER_SPELLINGS[sep]
                            if (plain_sep and nparams < 2) or ('DOTS' in HEADER_SPELLINGS[sep] and not last):
                                continue
                            out.append({'nparams': nparams, 'last': last, 'nargs': nargs, 'path': path, 'sep': sep})
    return out


# ---------------------------------------------------------------- (b) scoping BFS

# Each event: (name, kind, text, reference transition). The reference state is a dict:
#   'g': user globals name -> value (numbers/strings), 'f': set of defined script functions
# kind 'script' runs execute_script on the live globals; kind 'expr'/'exprloc' runs evaluate_expression (built-ins on).

FUNCS = {
    'gg': "function gg(x):\n    x = x + 1\n    y = 5\n    return x\nendfunction\n",
    'sh': "function sh():\n    x = 100\n    return x\nendfunction\n",
    'rd': "function rd():\n    return x\nendfunction\n",
    'setg': "function setg():\n    systemGlobalSet('x', 7)\n    x = 8\n    return systemGlobalGet('x')\nendfunction\n",
    'abs': "function abs(v):\n    return 'script-abs'\nendfunction\n",
    'arrayLength': "function arrayLength(a):\n    return 99\nendfunction\n",
    'va': "function va(a, rest...):\n    arrayPush(rest, a)\n    return arrayLength(rest)\nendfunction\n",
    'mp': "function mp(x, y):\n    return arrayNew(x, y)\nendfunction\n",
    'vb': "function vb(vals...):\n    arrayPush(vals, 9)\n    return arrayLength(vals)\nendfunction\n",
    'lc': "function lc(x, y, zz):\n    return arrayNew(x && y && zz, x || y || zz, (x && y) && zz, x + '' + y + '' + zz)\nendfunction\n",
}


def ref_call(state, name, args):
    """Reference result of calling script function `name` (must be defined) - returns (result, effect on globals)."""
    g = state['g']
    if name == 'gg':
        x = args[0] if args else None
        return ((x + 1) if rv.is_number(x) else None), {}
    if name == 'sh':
        return 100, {}
    if name == 'rd':
        return g.get('x'), {}
    if name == 'setg':
        return 7, {'x': 7}
    if name == 'abs':
        return 'script-abs', {}
    if name == 'arrayLength':
        return 99, {}
    if name == 'va':
        if 'arrayLength' in state['f']:
            return 99, {}                     # the script function of that name replaced the library function
        return len(args[1:]) + 1, {}          # a fresh rest array on every call
    if name == 'vb':
        if 'arrayLength' in state['f']:
            return 99, {}
        return len(args) + 1, {}              # a fresh array on every call, however the function is reached
    if name == 'lc':
        x = args[0] if args else None
        y = args[1] if len(args) > 1 else None
        z = args[2] if len(args) > 2 else None
        conj = x if not rv.truthy(x) else (y if not rv.truthy(y) else z)
        disj = x if rv.truthy(x) else (y if rv.truthy(y) else z)
        return [conj, disj, conj, rv.string(x) + rv.string(y) + rv.string(z)], {}   # parameters, never the globals x / y
    if name == 'mp':
        return [args[0] if args else None, args[1] if len(args) > 1 else None], {}   # missing parameters are null, never the globals x / y
    raise KeyError(name)


def events():
    ev = []

    def script(name, text, fn):
        ev.append((name, 'script', text, fn))

    def assign(value):
        def fn(st):
            g = dict(st['g'])
            g['x'] = value
            return None, {'g': g, 'f': st['f']}
        return fn
    script('x=1', 'x = 1\n', assign(1))
    script('x=2', 'x = 2\n', assign(2))

    # the four helper functions do not interact with the others: they are defined by ONE event (keeps the state space small)
    helpers = ('va', 'mp', 'vb', 'lc')
    for fname, text in FUNCS.items():
        if fname in helpers:
            continue

        def fn(st, fname=fname):
            return None, {'g': {k: v for k, v in st['g'].items() if k != fname}, 'f': st['f'] | {fname}}
        script('def ' + fname, text, fn)

    def def_helpers(st):
        return None, {'g': st['g'], 'f': st['f'] | set(helpers)}
    script('def helpers', ''.join(FUNCS[h] for h in helpers), def_helpers)

    def call_event(fname, argtext, argfn):
        def fn(st):
            if fname not in st['f']:
                if fname == 'arrayLength':
                    return ('ok', 1), st          # the library function: arrayLength(arrayNew(1))
                return ('undefined', fname), st
            res, eff = ref_call(st, fname, argfn(st))
            g = dict(st['g'])
            g.update(eff)
            g['rr'] = res
            return None, {'g': g, 'f': st['f']}
        return fn

    def call_script(fname, argtext, argfn):
        base = call_event(fname, argtext, argfn)

        def fn(st):
            r, new = base(st)
            if r is not None and r[0] == 'ok':
                g = dict(st['g'])
                g['rr'] = r[1]
                return None, {'g': g, 'f': st['f']}
            return r, new
        script(f'rr={fname}({argtext})', f'rr = {fname}({argtext})\n', fn)
    call_script('gg', 'x', lambda st: [st['g'].get('x')])
    call_script('gg', '', lambda st: [])
    call_script('sh', '', lambda st: [])
    call_script('rd', '', lambda st: [])
    call_script('setg', '', lambda st: [])
    call_script('abs', '0 - 1', lambda st: [-1])
    call_script('arrayLength', 'arrayNew(1)', lambda st: [[1]])
    call_script('va', '0', lambda st: [0])
    call_script('va', '0, 5', lambda st: [0, 5])
    call_script('mp', '', lambda st: [])
    call_script('mp', '9', lambda st: [9])
    call_script('vb', '', lambda st: [])
    call_script('vb', '1, 2', lambda st: [1, 2])
    call_script('lc', "1, 0, 'c'", lambda st: [1, 0, 'c'])
    call_script('lc', "0, null, 'c'", lambda st: [0, None, 'c'])

    # the variadic function reached through a partial that is itself kept in a global between calls
    def def_pv(st):
        if 'vb' not in st['f']:
            g = dict(st['g'])
            g['pv'] = None          # systemPartial(null, ...) fails: the call evaluates to null
            return None, {'g': g, 'f': st['f']}
        return None, {'g': st['g'], 'f': st['f'] | {'pv'}}
    script('pv=systemPartial(vb,1)', 'pv = systemPartial(vb, 1)\n', def_pv)

    def call_pv(st):
        if 'pv' not in st['f']:
            return ('undefined', 'pv'), st
        g = dict(st['g'])
        g['rr'] = 99 if 'arrayLength' in st['f'] else 2
        return None, {'g': g, 'f': st['f']}
    script('rr=pv()', 'rr = pv()\n', call_pv)

    def read(var):
        def fn(st):
            g = dict(st['g'])
            g['rr'] = st['g'].get(var)
            return None, {'g': g, 'f': st['f']}
        return fn
    script('rr=y', 'rr = y\n', read('y'))
    script('rr=x', 'rr = x\n', read('x'))

    def gset(st):
        g = dict(st['g'])
        g['y'] = 3
        return None, {'g': g, 'f': st['f']}
    script("systemGlobalSet('y',3)", "systemGlobalSet('y', 3)\n", gset)

    # binding a name to null is a binding: the key stays in the globals object, and a nulled name has no callee
    def gset_null(name):
        def fn(st):
            g = dict(st['g'])
            g[name] = None
            return None, {'g': g, 'f': st['f'] - {name}}
        return fn
    script("systemGlobalSet('y',null)", "systemGlobalSet('y', null)\n", gset_null('y'))
    script("systemGlobalSet('abs',null)", "systemGlobalSet('abs', null)\n", gset_null('abs'))

    def gget(st):
        g = dict(st['g'])
        g['rr'] = st['g'].get('x')
        return None, {'g': g, 'f': st['f']}
    script("rr=systemGlobalGet('x')", "rr = systemGlobalGet('x')\n", gget)

    # expression mode (built-ins available, consulted last)
    def expr_abs(st):
        if 'abs' in st['f']:
            return ('value', 'script-abs'), st
        if 'abs' in st['g']:
            return ('undefined', 'abs'), st      # bound to null by the script: the binding wins over the built-in
        return ('value', 1), st
    ev.append(('expr abs(0-1)', 'expr', 'abs(0 - 1)', expr_abs))

    def expr_x(st):
        x = st['g'].get('x')
        return ('value', (x + 1) if rv.is_number(x) else None), st
    ev.append(('expr x+1', 'expr', 'x + 1', expr_x))

    def expr_x_loc(st):
        return ('value', 51), st
    ev.append(('expr x+1 locals{x:50}', 'exprloc', 'x + 1', expr_x_loc))

    def expr_len(st):
        return ('value', 99 if 'arrayLength' in st['f'] else 2), st
    ev.append(("expr len-of-array via arrayLength", 'expr', 'arrayLength(arrayNew(1, 2))', expr_len))

    def expr_abs_loc(st):
        return ('value', 'local-abs'), st
    ev.append(('expr abs with local abs', 'exprabsloc', 'abs(0 - 1)', expr_abs_loc))
    return ev


def user_view(glob):
    load_impl()
    from bare_script.library import SCRIPT_FUNCTIONS  # pylint: disable=import-outside-toplevel,import-error
    out = {}
    for k, v in glob.items():
        if k in SCRIPT_FUNCTIONS and v is SCRIPT_FUNCTIONS[k]:
            continue
        c = canon(v)
        if isinstance(c, tuple) and c and c[0] == 'f' and not str(c[1]).startswith('script:'):
            c = ('f', 'callable')       # a partial or another non-script callable: only its being a function is compared
        out[k] = c
    return out


def ref_view(st):
    out = {k: canon(v) for k, v in st['g'].items()}
    for f in st['f']:
        out[f] = ('f', 'callable') if f == 'pv' else ('f', 'script:' + f)
    return out


def rebuild(history, evs):
    """Replay an event history on fresh live globals (live objects do not copy)."""
    bs = load_impl()
    glob = {}
    bs.execute_script({'statements': []}, {'globals': glob})   # the host has run a script before: the library is in the globals
    for i in history:
        apply_impl(bs, glob, evs[i])
    return glob


def local_abs(args, options):  # pylint: disable=unused-argument
    return 'local-abs'


def apply_impl(bs, glob, event):
    _, kind, text, _ = event
    try:
        if kind == 'script':
            bs.execute_script(bs.parse_script(text), {'globals': glob})
            return None
        expr = bs.parse_expression(text)
        if kind == 'expr':
            return ('value', canon(bs.evaluate_expression(expr, {'globals': glob, 'statementCount': 0}, None, True)))
        if kind == 'exprloc':
            return ('value', canon(bs.evaluate_expression(expr, {'globals': glob, 'statementCount': 0}, {'x': 50}, True)))
        return ('value', canon(bs.evaluate_expression(expr, {'globals': glob, 'statementCount': 0}, {'abs': local_abs}, True)))
    except bs.BareScriptRuntimeError as exc:
        msg = str(exc)
        if runtime_kind(msg) == 'other':     # the only runtime error these one-expression programs can meet: an unbound callee
            return ('undefined', blamed_name(msg))
        return ('raise', 'BareScriptRuntimeError', msg)
    except Exception as exc:  # pylint: disable=broad-exception-caught
        return ('raise', type(exc).__name__, str(exc)[:200])


def check_scoping(case, acc):
    """BFS to fixpoint from the seed history case['seed']; a replayed single transition when case has 'history'."""
    bs = load_impl()
    evs = events()
    if 'history' in case:
        frontier = [list(case['history'])]
        only = case.get('event')
    else:
        frontier = [list(case['seed'])]
        only = None
    seen = set()
    ref0 = {'g': {}, 'f': frozenset()}

    def ref_state(history):
        st = ref0
        for i in history:
            _, new = evs[i][3](st)
            st = {'g': new['g'], 'f': frozenset(new['f'])}
        return st

    start = ref_state(frontier[0])
    seen.add(repr(sorted((k, v) for k, v in ref_view(start).items() if k != 'rr')))
    acc.states += 1
    depth = 0
    while frontier:
        nxt = []
        for hist in frontier:
            st = ref_state(hist)
            for ei, event in enumerate(evs):
                if only is not None and ei != only:
                    continue
                glob = rebuild(hist, evs)
                got = apply_impl(bs, glob, event)
                exp, new = event[3](st)
                new = {'g': new['g'], 'f': frozenset(new['f'])}
                acc.evals += 1
                acc.transitions += 1
                acc.traces += 1
                exp_c = None if exp is None else (exp[0], canon(exp[1]) if exp[0] == 'value' else exp[1])
                c2 = {'history': hist, 'event': ei, 'event_name': event[0], 'history_names': [evs[i][0] for i in hist]}
                if got != exp_c:
                    acc.violation(c2, exp_c, got, 'result of the event differs from the reference environment model')
                    continue
                uv, rvw = user_view(glob), ref_view(new)
                if uv != rvw:
                    names = sorted(k for k in set(uv) | set(rvw) if uv.get(k) != rvw.get(k))
                    acc.violation(c2, rvw, uv, 'globals after the event differ from the reference: ' + ','.join(names))
                    continue
                # rr is write-only (no event reads it): states that differ only in rr have the same futures
                key = repr(sorted((k, v) for k, v in rvw.items() if k != 'rr'))
                if key not in seen:
                    seen.add(key)
                    acc.states += 1
                    nxt.append(hist + [ei])
        if only is not None:
            break
        frontier = nxt
        depth += 1
        if depth > 40:
            acc.capped = True
            break
    acc.count('bfs_depth', depth)
    acc.outcome(len(seen))
    acc.nontrivial += len(seen)


def check_history(case, acc):
    """One event history from the empty state, compared stepwise - NO state merging: hidden state of the
    implementation that the canonical form cannot see (an object shared between calls) still shows up when the same
    event is repeated."""
    bs = load_impl()
    evs = events()
    glob = {}
    bs.execute_script({'statements': []}, {'globals': glob})
    st = {'g': {}, 'f': frozenset()}
    for pos, ei in enumerate(case['history']):
        event = evs[ei]
        got = apply_impl(bs, glob, event)
        exp, new = event[3](st)
        st = {'g': new['g'], 'f': frozenset(new['f'])}
        acc.evals += 1
        acc.transitions += 1
        exp_c = None if exp is None else (exp[0], canon(exp[1]) if exp[0] == 'value' else exp[1])
        c2 = dict(case, position=pos, history_names=[evs[i][0] for i in case['history']])
        if got != exp_c:
            acc.violation(c2, exp_c, got, f'event {pos} ({event[0]}): result differs from the reference environment model')
            return
        uv, rvw = user_view(glob), ref_view(st)
        if uv != rvw:
            names = sorted(k for k in set(uv) | set(rvw) if uv.get(k) != rvw.get(k))
            acc.violation(c2, rvw, uv, f'event {pos} ({event[0]}): globals differ from the reference: ' + ','.join(names))
            return
    acc.states += 1
    acc.traces += 1


def setup_history():
    """Every definition event once (functions, the partial), in a fixed order."""
    names = [e[0] for e in events()]
    return [i for i, nm in enumerate(names) if nm.startswith('def ') and nm != 'def arrayLength' and nm != 'def abs'] + [names.index('pv=systemPartial(vb,1)')]


def fam_histories(arg):
    length, firsts = arg
    acc = Acc('histories')
    n = len(events())
    if length == 'after-setup':
        # all definitions first, then every ordered pair of events: the same call twice, a call after another call
        setup = setup_history()
        for first in firsts:
            for second in range(n):
                acc.cases += 1
                check_history({'history': setup + [first, second]}, acc)
                if first == second:
                    acc.nontrivial += 1
            acc.outcome(('setup', first))
        acc.sample({'history': [events()[i][0] for i in setup + [firsts[0], firsts[0]]]})
        return acc.result()
    for first in firsts:
        for rest in itertools.product(range(n), repeat=length - 1):
            acc.cases += 1
            check_history({'history': [first] + list(rest)}, acc)
            if len(set((first,) + rest)) < length:
                acc.nontrivial += 1
        acc.outcome(first)
    acc.sample({'history': [events()[i][0] for i in [firsts[0]] * length]})
    return acc.result()


def fam_scoping(arg):
    acc = Acc('scoping')
    for seed in arg:
        acc.cases += 1
        check_scoping({'seed': seed}, acc)
    evs = events()
    acc.sample({'events': [e[0] for e in evs]})
    return acc.result()


# ---------------------------------------------------------------- (c) host configurations

HOST_NAMES = ('arrayLength', 'mathAbs', 'abs', 'x')
HOST_PROGRAMS = [
    ('noop', "yy = 1\n"),
    ('call-arrayLength', "rr = arrayLength(arrayNew(1, 2))\n"),
    ('call-mathAbs', "rr = mathAbs(0 - 3)\n"),
    ('read-x', "rr = x\n"),
    ('assign-x', "x = 'script-x'\n"),
    ('def-arrayLength', "function arrayLength(a):\n    return 'script-len'\nendfunction\nrr = arrayLength(arrayNew(1))\n"),
    ('def-mathAbs-in-block', "if true:\n    function mathAbs(a):\n        return 'script-abs'\n    endfunction\nendif\nrr = mathAbs(0 - 3)\n"),
    ('def-abs', "function abs(a):\n    return 'script-abs'\nendfunction\nrr = abs(0 - 3)\n"),
]


def host_value(name, kind=0):
    if kind == 1:
        return None       # the host disabled / pre-declared the name by binding it to null
    def host_fn(args, options):  # pylint: disable=unused-argument
        return 'host-' + name
    host_fn.__name__ = 'host_' + name
    return host_fn if name != 'x' else 'host-x'


def check_host(case, acc):
    bs = load_impl()
    from bare_script.library import SCRIPT_FUNCTIONS  # pylint: disable=import-outside-toplevel,import-error
    subset = [n for i, n in enumerate(HOST_NAMES) if case['mask'] >> i & 1]
    pname, src = HOST_PROGRAMS[case['p']]
    kind = case.get('kind', 0)
    glob = {n: host_value(n, kind) for n in subset}
    mine = dict(glob)
    acc.evals += 1
    acc.states += 1
    acc.transitions += 1
    acc.traces += 1
    c2 = dict(case, host_names=subset, program=pname, source=src)
    try:
        bs.execute_script(bs.parse_script(src), {'globals': glob})
    except bs.BareScriptRuntimeError as exc:
        if kind == 0 and (pname == 'def-abs' or runtime_kind(exc) != 'other'):
            acc.violation(c2, 'completes', str(exc), 'unexpected runtime error')
            return
        if kind == 0:
            return
        # null-bound names: a call of the null-bound name raises "Undefined function"; the bindings are still checked below
    except Exception as exc:  # pylint: disable=broad-exception-caught
        acc.violation(c2, 'completes', (type(exc).__name__, str(exc)[:200]), 'host exception')
        return
    redefined = {'def-arrayLength': 'arrayLength', 'def-mathAbs-in-block': 'mathAbs', 'def-abs': 'abs', 'assign-x': 'x'}.get(pname)
    for n in subset:
        if n == redefined:
            continue
        if n not in glob or glob[n] is not mine[n]:
            acc.violation(c2, f'{n} still bound to the host object', canon(glob.get(n)), 'the library or the script overwrote a name the caller supplied')
    for n, f in SCRIPT_FUNCTIONS.items():
        if n in subset or n == redefined:
            continue
        if glob.get(n) is not f:
            acc.violation(c2, f'{n} bound to the library function', canon(glob.get(n)), 'library name missing or replaced')
            break
    if kind == 1:
        # null bindings: only the "not overwritten" half is checked (calling null is an undefined function / null read)
        acc.nontrivial += 1
        acc.outcome((case['mask'], pname, 'null-bound'))
        return
    # expected rr
    exp = {
        'noop': None,
        'call-arrayLength': 'host-arrayLength' if 'arrayLength' in subset else 2,
        'call-mathAbs': 'host-mathAbs' if 'mathAbs' in subset else 3,
        'read-x': 'host-x' if 'x' in subset else None,
        'assign-x': None,
        'def-arrayLength': 'script-len',
        'def-mathAbs-in-block': 'script-abs',
        'def-abs': 'script-abs',
    }[pname]
    if pname not in ('noop', 'assign-x') and canon(glob.get('rr')) != canon(exp):
        acc.violation(c2, canon(exp), canon(glob.get('rr')), 'call/read resolved to the wrong binding')
    if pname == 'assign-x' and glob.get('x') != 'script-x':
        acc.violation(c2, 'script-x', canon(glob.get('x')), 'top-level assignment did not write the caller-supplied globals')
    if redefined and redefined != 'x':
        v = glob.get(redefined)
        if not callable(v) or canon(v) != ('f', 'script:' + redefined):
            acc.violation(c2, 'script function', canon(v), 'a script-defined function did not replace the binding of the same name')
    # expression mode: a global named like a built-in wins over the built-in
    e = bs.parse_expression('abs(0 - 3)')
    got = bs.evaluate_expression(e, {'globals': glob, 'statementCount': 0}, None, True)
    want = 'script-abs' if pname == 'def-abs' else ('host-abs' if 'abs' in subset else 3)
    if canon(got) != canon(want):
        acc.violation(c2, canon(want), canon(got), 'expression-mode lookup order (locals, globals, built-ins) violated for abs')
    if subset:
        acc.nontrivial += 1
    acc.outcome((case['mask'], pname, repr(glob.get('rr'))[:30]))


def check_host_each(case, acc):
    """The host supplies exactly ONE library name (every name in turn): it is kept, every other library name is bound."""
    bs = load_impl()
    from bare_script.library import SCRIPT_FUNCTIONS  # pylint: disable=import-outside-toplevel,import-error
    names = sorted(SCRIPT_FUNCTIONS)
    name = names[case['i']]
    mine = host_value('zz', case['kind'])
    glob = {name: mine}
    acc.evals += 1
    acc.states += 1
    acc.transitions += 1
    acc.traces += 1
    c2 = dict(case, name=name)
    try:
        res = bs.execute_script(bs.parse_script("rr = arrayLength(arrayNew(1, 2)) + mathAbs(0 - 1)\nreturn rr\n"), {'globals': glob})
    except bs.BareScriptRuntimeError as exc:
        if name in ('arrayLength', 'arrayNew', 'mathAbs') and case['kind'] == 1 and runtime_kind(exc) == 'other':
            res = 'undefined'
        else:
            acc.violation(c2, 'completes', str(exc), 'a library function is missing although the host supplied only one other name')
            return
    except Exception as exc:  # pylint: disable=broad-exception-caught
        acc.violation(c2, 'completes', (type(exc).__name__, str(exc)[:200]), 'host exception')
        return
    if name not in glob or glob[name] is not mine:
        acc.violation(c2, 'the host binding kept', canon(glob.get(name)), 'the library overwrote the name the caller supplied')
    for n, f in SCRIPT_FUNCTIONS.items():
        if n != name and glob.get(n) is not f:
            acc.violation(c2, f'{n} bound to the library function', canon(glob.get(n)), 'library name missing although the host supplied only another name')
            break
    if name not in ('arrayLength', 'arrayNew', 'mathAbs') and canon(res) != canon(3):
        acc.violation(c2, 3, canon(res), 'library functions not callable')
    acc.nontrivial += 1
    acc.outcome((name[:3], repr(res)[:20]))


def fam_host_each(arg):
    acc = Acc('host_each')
    for case in arg:
        acc.cases += 1
        check_host_each(case, acc)
    acc.sample(arg[0])
    return acc.result()


CROSS_VALUES = ('script-function', 'partial', 'partial-of-partial', 'host-wrapped')


def check_crossrun(case, acc):
    """A function value created in one run and called in ANOTHER run with different globals reads and writes the
    globals of the run that CALLS it (script functions do not capture an environment)."""
    bs = load_impl()
    kind = CROSS_VALUES[case['v']]
    src1 = "function rd(k):\n    systemGlobalSet('seen', gx)\n    wx = 5\n    return 'gx=' + gx + ' k=' + k\nendfunction\ngx = 'run1'\n"
    if kind == 'script-function':
        src1 += "fv = rd\n"
    elif kind == 'partial':
        src1 += "fv = systemPartial(rd, 'p')\n"
    elif kind == 'partial-of-partial':
        src1 += "fv = systemPartial(systemPartial(rd, 'p'), 'q')\n"
    else:
        src1 += "function wrap(k):\n    return rd(k)\nendfunction\nfv = wrap\n"
    g1 = {}
    g2 = {}
    acc.evals += 2
    acc.states += 1
    acc.transitions += 2
    acc.traces += 1
    c2 = dict(case, kind=kind)
    try:
        bs.execute_script(bs.parse_script(src1), {'globals': g1})
        g2['fv'] = g1['fv']
        g2['rd'] = g1['rd']
        how = case['how']
        if how == 'second-script':
            res = bs.execute_script(bs.parse_script("gx = 'run2'\nreturn fv('a')\n"), {'globals': g2})
        elif how == 'expression':
            g2['gx'] = 'run2'
            bs.execute_script({'statements': []}, {'globals': g2})
            res = bs.evaluate_expression(bs.parse_expression("fv('a')"), {'globals': g2, 'statementCount': 0}, None, True)
        else:
            g2['gx'] = 'run2'
            bs.execute_script({'statements': []}, {'globals': g2})
            res = g2['fv'](['a'], {'globals': g2, 'statementCount': 0})
    except Exception as exc:  # pylint: disable=broad-exception-caught
        acc.violation(c2, 'completes', (type(exc).__name__, str(exc)[:200]), 'calling a function value from an earlier run failed')
        return
    want = "gx=run2 k=p" if kind in ('partial', 'partial-of-partial') else "gx=run2 k=a"
    if res != want:
        acc.violation(c2, want, canon(res), 'the function read the globals of the run that created it, not of the run that calls it')
    if g2.get('seen') != 'run2' or g1.get('seen') is not None:
        acc.violation(c2, {'run2.seen': 'run2', 'run1.seen': None}, {'run2.seen': canon(g2.get('seen')), 'run1.seen': canon(g1.get('seen'))}, 'systemGlobalSet wrote to the wrong run')
    if 'wx' in g2 or 'wx' in g1:
        acc.violation(c2, 'wx stays local', sorted(k for k in ('wx',) if k in g1 or k in g2), 'a local of the called function leaked into globals')
    acc.nontrivial += 1
    acc.outcome((kind, case['how'], res))


def fam_crossrun(arg):
    acc = Acc('crossrun')
    for case in arg:
        acc.cases += 1
        check_crossrun(case, acc)
    acc.sample(dict(arg[0], kind=CROSS_VALUES[arg[0]['v']]))
    return acc.result()


REUSE_FAILS = [
    ('filter-variables-undefined-function', "dd = dataFilter(arrayNew(objectNew('a', 1)), 'missing(a)', objectNew('kk', 1))\n"),
    ('calc-variables-undefined-function', "dd = dataCalculatedField(arrayNew(objectNew('a', 1)), 'b', 'missing(a)', objectNew('kk', 1))\n"),
    ('join-variables-undefined-function', "dd = dataJoin(arrayNew(objectNew('a', 1)), arrayNew(objectNew('a', 1)), 'missing(a)', null, false, objectNew('kk', 1))\n"),
    ('filter-variables-budget', "function spin(a):\n    while true:\n        a = a + 1\n    endwhile\nendfunction\ndd = dataFilter(arrayNew(objectNew('a', 1)), 'spin(a)', objectNew('kk', 1))\n"),
    ('filter-variables-bad-include-in-function', "function inc(a):\n    include 'broken.bare'\nendfunction\ndd = dataFilter(arrayNew(objectNew('a', 1)), 'inc(a)', objectNew('kk', 1))\n"),
    ('plain-runtime-error', "x1 = 1\nmissing()\n"),
    ('no-failure-with-variables', "dd = dataFilter(arrayNew(objectNew('a', 1)), 'a == kk', objectNew('kk', 1))\n"),
]


def check_reuse(case, acc):
    """Run 1 (possibly failing inside a data helper that was given `variables`), then run 2 with the SAME options
    object: top-level assignments of run 2 still write the caller-supplied globals object, reads see its values."""
    bs = load_impl()
    name, src1 = REUSE_FAILS[case['i']]
    glob = {'kept': 'host-value'}
    logs = []
    options = {'globals': glob, 'logFn': logs.append, 'maxStatements': 200,
               'fetchFn': lambda req: 'zz = (1 +' if req['url'].endswith('broken.bare') else None}
    acc.evals += 2
    acc.states += 1
    acc.transitions += 2
    acc.traces += 1
    c2 = dict(case, name=name)
    first = 'ok'
    try:
        bs.execute_script(bs.parse_script(src1), options)
    except (bs.BareScriptRuntimeError, bs.BareScriptParserError) as exc:
        first = type(exc).__name__
    except Exception as exc:  # pylint: disable=broad-exception-caught
        acc.violation(c2, 'a documented exception or completion', (type(exc).__name__, str(exc)[:200]), 'run 1 raised a host exception')
        return
    if options.get('globals') is not glob:
        acc.violation(c2, 'options[globals] is still the caller-supplied object', 'another object', 'after run 1 the options no longer refer to the caller-supplied globals object')
        return
    try:
        res = bs.execute_script(bs.parse_script("x2 = 5\nsystemGlobalSet('x3', kept)\nreturn arrayNew(x2, kept, systemGlobalGet('x2'))\n"), options)
    except Exception as exc:  # pylint: disable=broad-exception-caught
        acc.violation(c2, 'run 2 completes', (type(exc).__name__, str(exc)[:200]), 'the second run with the same options failed')
        return
    if canon(res) != canon([5, 'host-value', 5]):
        acc.violation(c2, canon([5, 'host-value', 5]), canon(res), 'run 2 reads the wrong globals')
    if glob.get('x2') != 5 or glob.get('x3') != 'host-value' or options.get('globals') is not glob:
        acc.violation(c2, {'x2': 5, 'x3': 'host-value'}, {'x2': canon(glob.get('x2')), 'x3': canon(glob.get('x3'))}, 'top-level assignments of run 2 did not write the caller-supplied globals object')
    if 'kk' in glob:
        acc.violation(c2, 'kk stays out of the globals', canon(glob.get('kk')), 'a variables entry leaked into the caller-supplied globals')
    acc.nontrivial += 1
    acc.outcome((name, first))


def fam_reuse(arg):
    acc = Acc('reuse')
    for case in arg:
        acc.cases += 1
        check_reuse(case, acc)
    acc.sample({'first_runs': [r[0] for r in REUSE_FAILS]})
    return acc.result()


def fam_host(arg):
    acc = Acc('host')
    for case in arg:
        acc.cases += 1
        check_host(case, acc)
    acc.sample(dict(arg[-1], program=HOST_PROGRAMS[arg[-1]['p']][0]))
    return acc.result()


# ---------------------------------------------------------------- a bound name wins over a built-in expression function

SHADOW_VALUES = ('null', 'number', 'string', 'array', 'object', 'host-function')
SHADOW_PLACES = ('globals', 'locals', 'locals-over-globals', 'globals-under-null-local')
SHADOW_MODES = ('expression', 'expression-in-data-helper', 'script')


def _shadow_value(kind, tag):
    if kind == 'host-function':
        def host_fn(args, options):  # pylint: disable=unused-argument
            return 'host-' + tag
        return host_fn
    return {'null': None, 'number': 7, 'string': 'text', 'array': [1], 'object': {'a': 1}}[kind]


def builtin_names():
    load_impl()
    from bare_script.library import EXPRESSION_FUNCTIONS  # pylint: disable=import-outside-toplevel,import-error
    return sorted(EXPRESSION_FUNCTIONS)


def check_shadow(case, acc):
    """name(1) where `name` is a built-in expression function and is bound by the caller: the binding decides.
    bound to a function -> its result; bound to null -> the call has no callee (runtime error); bound to another value ->
    a failed call (null)."""
    bs = load_impl()
    name = builtin_names()[case['i']]
    kind, place, mode = case['value'], case['place'], case['mode']
    c2 = dict(case, name=name)
    glob, loc = {}, None
    if place == 'globals':
        glob[name] = _shadow_value(kind, 'g')
        winner = kind
    elif place == 'locals':
        loc = {name: _shadow_value(kind, 'l')}
        winner = kind
    elif place == 'locals-over-globals':
        glob[name] = _shadow_value('host-function', 'g')
        loc = {name: _shadow_value(kind, 'l')}
        winner = kind
    else:
        glob[name] = _shadow_value(kind, 'g')
        loc = {name: None}
        winner = 'null'
    tag = 'host-g' if place == 'globals' else 'host-l'
    acc.evals += 1
    try:
        if mode == 'expression':
            got = ('value', canon(bs.evaluate_expression(bs.parse_expression(f'{name}(1)'), {'globals': glob, 'statementCount': 0}, loc, True)))
        elif mode == 'expression-in-data-helper':
            # dataCalculatedField evaluates its expression in expression mode with the row as locals and `variables` merged over the globals
            if place != 'globals':
                return 'skip'
            src = f"rows = arrayNew(objectNew('k', 1))\ndataCalculatedField(rows, 'out', '{name}(1)')\nreturn objectGet(arrayGet(rows, 0), 'out')\n"
            got = ('value', canon(bs.execute_script(bs.parse_script(src), {'globals': glob})))
        else:
            if loc is not None:
                return 'skip'
            got = ('value', canon(bs.execute_script(bs.parse_script(f'return {name}(1)\n'), {'globals': glob})))
    except bs.BareScriptRuntimeError as exc:
        got = ('runtime-error', runtime_kind(exc))
    except Exception as exc:  # pylint: disable=broad-exception-caught
        acc.violation(c2, 'a value or BareScriptRuntimeError', (type(exc).__name__, str(exc)[:200]), 'host exception')
        return 'violation'
    if mode == 'expression-in-data-helper' and winner == 'null':
        # a failing expression inside the data helper is a failed library call: contained, the field stays unset
        want = [('value', None), ('runtime-error', 'other')]
    elif winner == 'null':
        want = [('runtime-error', 'other')]
    elif winner == 'host-function':
        want = [('value', tag)]
    else:
        want = [('value', None)]
    if got not in want:
        acc.violation(c2, want[0], got, f'{name}(1) with {name} bound ({place}, {kind}) in {mode} mode: the binding does not win over the built-in')
        return 'violation'
    acc.nontrivial += 1
    return got[0]


def shadow_cases():
    n = len(builtin_names())
    return [{'i': i, 'value': v, 'place': p, 'mode': m} for i in range(n) for v in SHADOW_VALUES for p in SHADOW_PLACES for m in SHADOW_MODES]


def fam_shadow(arg):
    acc = Acc('builtin_shadow')
    for case in arg:
        acc.cases += 1
        out = check_shadow(case, acc)
        acc.outcome(out)
    if arg:
        acc.sample(dict(arg[0], name=builtin_names()[arg[0]['i']]))
    return acc.result()


def families(tier):
    load_impl()
    cc = convention_cases()
    evs = events()
    names = [e[0] for e in evs]
    seeds = [[], [names.index('x=1')], [names.index('def gg'), names.index('x=2')], [names.index('def abs'), names.index('def arrayLength')],
             [names.index('def setg'), names.index('rr=setg()')], [names.index("systemGlobalSet('y',3)"), names.index('def rd')], [names.index('def helpers'), names.index('pv=systemPartial(vb,1)')]]
    if tier == 'thorough':
        seeds += [[i] for i in range(len(evs))]
    from bare_script.library import SCRIPT_FUNCTIONS  # pylint: disable=import-outside-toplevel,import-error
    each = [{'i': i, 'kind': k} for k in (0, 1) for i in range(len(SCRIPT_FUNCTIONS))]
    cross = [{'v': v, 'how': h} for v in range(len(CROSS_VALUES)) for h in ('second-script', 'expression', 'host-call')]
    hlen = 3 if tier == 'quick' else 4
    hshards = [(length, [f]) for length in range(1, hlen + 1) for f in range(len(evs))] + [('after-setup', [f]) for f in range(len(evs))]
    sc = shadow_cases()
    hosts = [{'mask': m, 'p': p, 'kind': k} for k in (0, 1) for m in range(1 << len(HOST_NAMES)) for p in range(len(HOST_PROGRAMS)) if k == 0 or m]
    return [
        Family('convention', fam_convention, split(cc, 16), 'parameters 0..3 x "..." x arguments 0..5 x 9 call paths (+ header spellings)', expected=len(cc)),
        Family('scoping', fam_scoping, [[s] for s in seeds], f'BFS to fixpoint over {len(evs)} events from {len(seeds)} seed states (each shard a full search)', expected=len(seeds)),
        Family('histories', fam_histories, hshards, f'every event history of length <= {hlen} over the {len(evs)} events from the empty state, plus every ordered pair of events after a setup history that defines every function and the partial; stepwise compared, without state merging', expected=sum(len(evs) ** k for k in range(1, hlen + 1)) + len(evs) ** 2),
        Family('reuse', fam_reuse, [[{'i': i} for i in range(len(REUSE_FAILS))]], 'a first run that fails inside a data helper called with variables (undefined function, statement budget, bad include) or plainly, then a second run with the SAME options object', expected=len(REUSE_FAILS)),
        Family('crossrun', fam_crossrun, [cross], 'a function value (script function, partial, nested partial, wrapper) created in one run and called in a second run with different globals: from a script, from an expression, by the host', expected=len(cross)),
        Family('host_each', fam_host_each, split(each, 8), 'the host supplies exactly one library name - every library name in turn, bound to a host function and bound to null', expected=len(each)),
        Family('builtin_shadow', fam_shadow, split(sc, 8), 'name(1) for every built-in expression function name bound by the caller to null / a number / a string / an array / an object / a host function, in the globals, in the locals, in both, evaluated in expression mode, inside a data helper expression and in script mode: the binding always decides (function -> its result, null -> no callee, other value -> failed call)',
               expected=len(sc)),
        Family('host', fam_host, split(hosts, 8), 'every subset of host-supplied names {arrayLength, mathAbs, abs, x} (bound to tagged host objects, and bound to null) x 8 programs', expected=len(hosts)),
    ]


_CHECKS = {'builtin_shadow': check_shadow, 'reuse': check_reuse, 'crossrun': check_crossrun, 'host_each': check_host_each, 'convention': check_convention, 'scoping': check_scoping, 'host': check_host, 'histories': check_history}


def replay(family, case):
    acc = Acc(family)
    _CHECKS[family](case, acc)
    res = acc.result()
    return {'differs': bool(res['nviol'] or res['nknown']), 'violations': res['violations'] + res['known_violations']}
