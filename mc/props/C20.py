"""C20 diffLines from the shipped include library reconstructs both inputs; shipped includes are clean (DESIGN 4, C20).

The code under test is `include/diff.bare`, run by the real parser and interpreter through `execute_script` with the
include fetcher and system prefix of the command line tool (`bare_script.bare._fetch_include`). The reference is the
reconstruction invariant of the property text - it shares nothing with the implementation.
"""

import itertools
import os
import signal

from ..common import HarnessError, load_impl, show
from ..engine.shard import Acc, Family, split

LEVEL = 'model_checking'
RULE = ('state = one distinct input (left line list, right line list, input form); transition = one diffLines call executed '
        'by the real interpreter on the shipped diff.bare (included through the CLI fetcher); trace = one result checked against '
        'the reconstruction invariant. Families: every ordered pair of line lists up to the length bound over {a,b,c} in four '
        'forms (two arrays, two LF-joined strings, two CRLF-joined strings, array against CRLF-joined string); every ordered '
        'pair of short line lists over {a, b, empty line} in those forms and as strings with alternating CRLF/LF terminators (blank '
        'lines: interior, leading, trailing, consecutive; empty strings as array elements); the pairs of '
        'length <= 2 again with the include executed for every call (fresh globals, and re-included into used globals so the '
        'sentinel return runs); arrays whose elements contain CR / LF / CRLF and texts with a CR inside a line; the same calls after a prelude '
        'that uses the library functions diff.bare relies on with the same arguments and changes every returned container in place; every (list, single edit) pair - insert / delete / replace one line - over {a,b}; every *.bare '
        'file of the package directory parsed, validated and linted. A pair is non-trivial when its result has at least one '
        'Identical block and at least one Add or Remove block.')
ASSUMPTIONS = [
    'the reconstruction invariant of the property text is the whole oracle; minimality of the diff is not demanded',
    'for a string input the line list is the text split at LF / CRLF; every interior or leading empty piece is a blank line that must be reconstructed',
    'for the empty text and for a text that ends with a line terminator both readings of the last (empty) line are accepted; an array element "" is an empty line',
    '"identical inputs" = both inputs have the same type and are equal',
    'an array element is one line whatever it contains; for an element that contains LF the reading "text part that contributes its own lines" is accepted as well',
    'a prelude only makes documented library calls; if one does not complete that is a harness error, not a verdict',
    'blocks may carry extra keys; only type and lines are inspected',
    'horizon maxStatements = 100000 per call (a call needs < 1000 statements within the bounds); a 10 s wall-clock guard per call (a call needs < 1 ms) and a stop after 5 calls of a shard that did not complete keep a runaway change from hanging the run',
]

HORIZON = 100000
STOP_AFTER_NOT_COMPLETED = 5
WALL_GUARD_S = 10.0     # a call needs < 1 ms; the statement horizon does not bound time when values grow without bound


class WallClockGuard(BaseException):
    """Raised by the interval timer inside a call that runs for more than WALL_GUARD_S seconds."""


def _on_alarm(signum, frame):
    raise WallClockGuard()


def guarded(func, *args):
    """Run func under the wall-clock guard (repeating timer: a first exception swallowed somewhere is raised again)."""
    old = signal.signal(signal.SIGALRM, _on_alarm)
    signal.setitimer(signal.ITIMER_REAL, WALL_GUARD_S, 1.0)
    try:
        return func(*args)
    finally:
        signal.setitimer(signal.ITIMER_REAL, 0)
        signal.signal(signal.SIGALRM, old)
FORMS = ['array', 'lf', 'crlf', 'mixed']
TYPES = ('Identical', 'Add', 'Remove')
_W = {}


def lists_upto(alphabet, maxlen):
    """All lists over the alphabet of length 0..maxlen, shortest first, then lexicographic."""
    out = []
    for n in range(maxlen + 1):
        out.extend(list(t) for t in itertools.product(alphabet, repeat=n))
    return out


def n_lists(k, maxlen):
    return sum(k ** n for n in range(maxlen + 1))


def build_input(lines, form, side):
    if form == 'array' or (form == 'mixed' and side == 0):
        return list(lines)
    if form == 'lf':
        return '\n'.join(lines)
    if form == 'alt':
        # line terminators alternate between CRLF and LF; the left text starts with CRLF, the right text with LF
        out = []
        for i, line in enumerate(lines):
            if i:
                out.append('\r\n' if (i + side) % 2 else '\n')
            out.append(line)
        return ''.join(out)
    return '\r\n'.join(lines)


def accepted_lines(value):
    """The line lists the property allows for this input (reference reading of 'the left/right lines').

    Array: its elements, an empty string being an empty line (see below for elements containing LF). Text: the pieces between LF / CRLF terminators - every interior
    and leading empty piece is a blank line that must survive; whether a text that ends with a terminator (and the empty text)
    has a last, empty line is left open by the property, so both readings are accepted."""
    if not isinstance(value, str):
        # An element is a line, whatever it contains: a lone CR, a trailing CR, ... An element that contains LF is the one
        # open corner: "array of strings" may also be read as a list of text parts, each contributing its own lines
        # (diff.bare does that, deliberately: it splits every element); both readings are accepted.
        as_lines = list(value)
        as_parts = []
        for element in value:
            as_parts.extend(text_pieces(element))
        return [as_lines] if as_parts == as_lines else [as_lines, as_parts]
    pieces = text_pieces(value)
    if pieces[-1] == '':
        return [pieces, pieces[:-1]]
    return [pieces]


def text_pieces(text):
    """The pieces of a text between LF / CRLF terminators (a CR that is not followed by LF belongs to its line)."""
    pieces = text.split('\n')
    return [p[:-1] if i < len(pieces) - 1 and p.endswith('\r') else p for i, p in enumerate(pieces)]


def _options(bs_bare, glob):
    return {'globals': glob, 'fetchFn': bs_bare._fetch_include, 'systemPrefix': bs_bare._FETCH_INCLUDE_PREFIX,  # pylint: disable=protected-access
            'maxStatements': HORIZON}


# Library use before the call, in the same globals and process: the functions diff.bare itself relies on are called with the same
# text / pattern / arrays and every container they return is changed in place. diffLines afterwards must not be affected.
PRELUDE_HELPERS = '''
function c20Scribble(tmp):
    arrayPush(tmp, 'zz')
    arraySet(tmp, 0, 'yy')
    arraySort(tmp)
    arrayPop(tmp)
    arrayPush(tmp, 'ww', 'vv')
endfunction

function c20Lines(val, re):
    if systemType(val) == 'array':
        lines = arrayNew()
        for part in val:
            arrayExtend(lines, regexSplit(re, part))
        endfor
        return lines
    endif
    return regexSplit(re, val)
endfunction

function c20PreludeSplit(val, re):
    if systemType(val) == 'array':
        for part in val:
            c20Scribble(regexSplit(re, part))
        endfor
    else:
        c20Scribble(regexSplit(re, val))
    endif
endfunction

function c20PreludeSlices(val, re):
    lines = c20Lines(val, re)
    nn = arrayLength(lines)
    if nn > 8:
        nn = 8
    endif
    ix = 0
    while ix <= nn:
        c20Scribble(arraySlice(lines, ix))
        jx = ix
        while jx <= nn:
            c20Scribble(arraySlice(lines, ix, jx))
            jx = jx + 1
        endwhile
        ix = ix + 1
    endwhile
endfunction

function c20PreludeNew():
    c20Scribble(arrayNew())
    for kind in arrayNew('Identical', 'Add', 'Remove'):
        obj = objectNew('type', kind, 'lines', arrayNew())
        c20Scribble(objectGet(obj, 'lines'))
        objectSet(obj, 'type', 'Bogus')
        objectSet(obj, 'lines', null)
    endfor
endfunction
'''
_FRESH_RE = "regexNew(stringFromCharCode(13) + '?' + stringFromCharCode(10))"
PRELUDES = {
    'split': 'c20PreludeSplit(vLeft, diffRegexLineSplit)\nc20PreludeSplit(vRight, diffRegexLineSplit)\n',
    'split_fresh_regex': f'c20PreludeSplit(vLeft, {_FRESH_RE})\nc20PreludeSplit(vRight, {_FRESH_RE})\n',
    'slices': 'c20PreludeSlices(vLeft, diffRegexLineSplit)\nc20PreludeSlices(vRight, diffRegexLineSplit)\n',
    'new': 'c20PreludeNew()\n',
}
PRELUDES['all'] = ''.join(PRELUDES[k] for k in ('split', 'split_fresh_regex', 'slices', 'new'))
PRELUDE_NAMES = ['split', 'split_fresh_regex', 'slices', 'new', 'all']


def run_prelude(name, left, right):
    """Run one prelude against the worker's globals (helpers are defined on first use). A prelude that does not complete is a
    harness error: it only makes documented calls, and what it may disturb is judged on the diffLines call that follows."""
    st = _worker_state()
    bs, bs_bare = st['bs'], st['bare']
    glob = st['glob']
    try:
        if 'preludes' not in st:
            bs.execute_script(bs.parse_script(PRELUDE_HELPERS), _options(bs_bare, glob))
            st['preludes'] = {k: bs.parse_script(v) for k, v in PRELUDES.items()}
        glob['vLeft'] = left
        glob['vRight'] = right
        guarded(bs.execute_script, st['preludes'][name], _options(bs_bare, glob))
    except (Exception, WallClockGuard) as exc:  # pylint: disable=broad-exception-caught
        raise HarnessError(f'prelude {name} did not complete: {type(exc).__name__} {str(exc)[:200]}') from exc


def _worker_state():
    """Per worker process: diff.bare included once through the CLI fetcher, call script parsed once."""
    key = os.getpid()
    st = _W.get(key)
    if st is None:
        bs = load_impl()
        from bare_script import bare as bs_bare  # pylint: disable=import-outside-toplevel,import-error
        st = {
            'bs': bs, 'bare': bs_bare, 'glob': {},
            'call': bs.parse_script('return diffLines(vLeft, vRight)'),
            'incl': bs.parse_script("include <diff.bare>"),
            'both': bs.parse_script("include <diff.bare>\nreturn diffLines(vLeft, vRight)"),
        }
        try:
            bs.execute_script(st['incl'], _options(bs_bare, st['glob']))
            if not callable(st['glob'].get('diffLines')):
                st['broken'] = ('raise', 'NoFunction', 'include <diff.bare> through the CLI fetcher did not define diffLines')
        except Exception as exc:  # pylint: disable=broad-exception-caught
            st['broken'] = ('raise', type(exc).__name__, 'include <diff.bare> failed: ' + str(exc)[:200])
        _W.clear()
        _W[key] = st
    return st


def run_diff(left, right, mode):
    """Execute one diffLines call with the real interpreter. Returns ('ok', value, statements) or ('raise', class, message)."""
    st = _worker_state()
    bs, bs_bare = st['bs'], st['bare']
    if 'broken' in st and mode != 'fresh':
        return st['broken']
    if mode == 'fresh':
        glob = {}
        script = st['both']
    elif mode == 'reinclude':
        glob = st['glob']
        script = st['both']
    else:
        glob = st['glob']
        script = st['call']
    glob['vLeft'] = left
    glob['vRight'] = right
    opts = _options(bs_bare, glob)
    try:
        res = guarded(bs.execute_script, script, opts)
    except WallClockGuard:
        return ('raise', 'WallClockGuard', f'the call was still running after {WALL_GUARD_S} s')
    except Exception as exc:  # pylint: disable=broad-exception-caught
        return ('raise', type(exc).__name__, str(exc)[:200])
    return ('ok', res, opts.get('statementCount'))


def brief(res):
    """Bounded, shallow, JSON-able rendering of a diffLines result for a violation record (a broken result may be huge or
    circular)."""
    if not isinstance(res, list):
        return repr(res)[:200]
    out = []
    for block in res[:8]:
        if isinstance(block, dict):
            lines = block.get('lines')
            out.append({'type': block.get('type') if isinstance(block.get('type'), (str, type(None))) else type(block.get('type')).__name__,
                        'lines': [x if isinstance(x, str) else '<' + type(x).__name__ + '>' for x in lines[:8]] + (['...'] if len(lines) > 8 else [])
                        if isinstance(lines, list) else repr(lines)[:80]})
        else:
            out.append('<' + type(block).__name__ + '>')
    if len(res) > 8:
        out.append(f'... {len(res)} blocks')
    return out


def judge(left, right, identical, res):
    """The reconstruction invariant. Returns None if it holds, else (expected, what differs)."""
    if not isinstance(res, list):
        return ('an array of difference blocks', 'the result is not an array')
    most = max(len(alt) for alt in accepted_lines(left)) + max(len(alt) for alt in accepted_lines(right))
    if len(res) > most:
        return (f'at most {most} blocks', f'{len(res)} blocks for {most} input lines (blocks are non-empty)')
    rec_left, rec_right = [], []
    for ix, block in enumerate(res):
        if not isinstance(block, dict):
            return ('an object per block', f'block {ix} is not an object')
        btype = block.get('type')
        lines = block.get('lines')
        if btype not in TYPES:
            return ('type in Identical/Add/Remove', f'block {ix} has type {btype!r}')
        if not isinstance(lines, list) or not lines:
            return ('a non-empty lines array', f'block {ix} ({btype}) has an empty or missing lines array')
        if not all(isinstance(x, str) for x in lines):
            return ('lines that are strings', f'block {ix} ({btype}) has a non-string line')
        if btype != 'Add':
            rec_left.extend(lines)
        if btype != 'Remove':
            rec_right.extend(lines)
    if rec_left not in accepted_lines(left):
        return ({'left_lines': accepted_lines(left)[0]}, 'Identical+Remove blocks in order do not give the left lines')
    if rec_right not in accepted_lines(right):
        return ({'right_lines': accepted_lines(right)[0]}, 'Identical+Add blocks in order do not give the right lines')
    if identical and any(b['type'] != 'Identical' for b in res):
        return ('no Add or Remove block', 'identical inputs yield an Add or Remove block')
    return None


def check_pair(case, acc):
    """One (left, right, form, mode) input: run it, check the invariant. Returns the sequence of block types (or the failure)."""
    llines, rlines, form = case['left'], case['right'], case['form']
    mode = case.get('mode', 'shared')
    left = build_input(llines, form, 0)
    right = build_input(rlines, form, 1)
    keep = (show(left), show(right))
    if acc.extra.get('not_completed', 0) >= STOP_AFTER_NOT_COMPLETED:
        # the shard already has that many calls that ran into the horizon or raised: do not spend the horizon on every
        # remaining case; the family is then reported as not exhaustive (the violations stand)
        acc.capped = True
        acc.count('skipped_after_repeated_non_completion')
        return ('skipped',)
    if case.get('prelude'):
        if 'broken' not in _worker_state():
            run_prelude(case['prelude'], left, right)
        acc.evals += 1
    out = run_diff(left, right, mode)
    acc.evals += 1
    acc.transitions += 1
    if out[0] == 'raise':
        acc.traces += 1
        acc.violation(case, 'a list of difference blocks', list(out), 'diffLines did not complete (exception or statement horizon)')
        acc.count('not_completed')
        return out
    res = out[1]
    acc.traces += 1
    if (show(left), show(right)) != keep:
        acc.violation(case, {'left': keep[0], 'right': keep[1]}, {'left': show(left), 'right': show(right)}, 'an input was changed by the call (or by the library calls before it)')
        left = build_input(llines, form, 0)
        right = build_input(rlines, form, 1)
    identical = type(left) is type(right) and left == right
    for value in (left, right):
        if len(accepted_lines(value)) > 1:
            # empty text / text ending in a terminator / array element containing LF: both readings accepted
            acc.count('sides_with_open_last_line' if isinstance(value, str) else 'sides_with_multiline_elements')
    bad = judge(left, right, identical, res)
    if bad is not None:
        acc.violation(case, bad[0], brief(res), bad[1])
        return ('bad', bad[1])
    return tuple(b['type'] for b in res)


def _account(acc, obs):
    acc.cases += 1
    acc.states += 1
    acc.outcome(obs)
    if isinstance(obs, tuple) and 'Identical' in obs and ('Add' in obs or 'Remove' in obs) and obs[0] not in ('raise', 'bad', 'skipped'):
        acc.nontrivial += 1


def fam_pairs(arg):
    maxlen, lefts = arg
    acc = Acc('pairs')
    pool = lists_upto('abc', maxlen)
    for i in lefts:
        for j, right in enumerate(pool):
            for form in FORMS:
                obs = check_pair({'left': pool[i], 'right': right, 'form': form, 'mode': 'shared'}, acc)
                _account(acc, obs)
                if form == 'crlf' and j == (i * 7 + 5) % len(pool):
                    acc.sample({'left': build_input(pool[i], form, 0), 'right': build_input(right, form, 1), 'form': form, 'block_types': obs})
    return acc.result()


def fam_percall(arg):
    lefts = arg
    acc = Acc('include_per_call')
    pool = lists_upto('abc', 2)
    for i in lefts:
        for j, right in enumerate(pool):
            for form in FORMS:
                for mode in ('fresh', 'reinclude'):
                    obs = check_pair({'left': pool[i], 'right': right, 'form': form, 'mode': mode}, acc)
                    _account(acc, obs)
                    if mode == 'fresh' and form == 'lf' and j == (i + 4) % len(pool):
                        acc.sample({'left': build_input(pool[i], form, 0), 'right': build_input(right, form, 1), 'form': form, 'mode': mode, 'block_types': obs})
    return acc.result()


BLANK_FORMS = ['array', 'lf', 'crlf', 'mixed', 'alt']
BLANK_ALPHABET = ['a', 'b', '']


def fam_blank(arg):
    maxlen, lefts = arg
    acc = Acc('blank_lines')
    pool = lists_upto(BLANK_ALPHABET, maxlen)
    for i in lefts:
        for j, right in enumerate(pool):
            for form in BLANK_FORMS:
                obs = check_pair({'left': pool[i], 'right': right, 'form': form, 'mode': 'shared'}, acc)
                _account(acc, obs)
                # as a text, [''] is the same input as []: a case, but not a new state
                if (pool[i] == [''] and form in ('lf', 'crlf', 'alt')) or (right == [''] and form != 'array'):
                    acc.states -= 1
                if form == 'alt' and j == (i * 5 + 11) % len(pool) and '' in pool[i]:
                    acc.sample({'left': build_input(pool[i], form, 0), 'right': build_input(right, form, 1), 'form': form, 'block_types': obs})
    return acc.result()


ARRAY_TERMINATOR_ALPHABET = ['a', 'a\r', '\r', 'a\nb', 'a\r\nb']    # array elements: each is one line (LF inside: open, see accepted_lines)
TEXT_CR_ALPHABET = ['a', 'a\rb', '\rb']                              # text lines with a CR that is not part of a terminator
TEXT_CR_FORMS = ['lf', 'crlf', 'alt']


def fam_terminators(arg):
    kind, maxlen, lefts = arg
    acc = Acc('terminator_chars')
    pool = lists_upto(ARRAY_TERMINATOR_ALPHABET if kind == 'array' else TEXT_CR_ALPHABET, maxlen)
    forms = ['array'] if kind == 'array' else TEXT_CR_FORMS
    for i in lefts:
        for j, right in enumerate(pool):
            for form in forms:
                obs = check_pair({'left': pool[i], 'right': right, 'form': form, 'mode': 'shared'}, acc)
                _account(acc, obs)
                if j == (i * 3 + 7) % len(pool) and i % 5 == 2:
                    acc.sample({'left': build_input(pool[i], form, 0), 'right': build_input(right, form, 1), 'form': form, 'block_types': obs})
    return acc.result()


PRELUDE_FORMS = ['array', 'lf', 'crlf', 'mixed']


def fam_prelude(arg):
    maxlen, lefts = arg
    acc = Acc('library_prelude')
    pool = lists_upto('ab', maxlen)
    for i in lefts:
        for j, right in enumerate(pool):
            for form in PRELUDE_FORMS:
                for name in PRELUDE_NAMES:
                    obs = check_pair({'left': pool[i], 'right': right, 'form': form, 'mode': 'shared', 'prelude': name}, acc)
                    _account(acc, obs)
                    if name == 'all' and form == 'lf' and j == (i + 6) % len(pool) and i % 4 == 1:
                        acc.sample({'left': build_input(pool[i], form, 0), 'right': build_input(right, form, 1), 'form': form, 'prelude': name, 'block_types': obs})
    return acc.result()


def edits_of(lst, alphabet):
    """Every single-line edit of lst: insert any letter at any position, delete any position, replace by another letter."""
    out = []
    for p in range(len(lst) + 1):
        for ch in alphabet:
            out.append((['ins', p, ch], lst[:p] + [ch] + lst[p:]))
    for p in range(len(lst)):
        out.append((['del', p], lst[:p] + lst[p + 1:]))
    for p in range(len(lst)):
        for ch in alphabet:
            if ch != lst[p]:
                out.append((['rep', p, ch], lst[:p] + [ch] + lst[p + 1:]))
    return out


def n_edits(maxlen):
    # alphabet of 2: 2(n+1) inserts + n deletes + n replacements per list of length n
    return sum(2 ** n * (4 * n + 2) for n in range(maxlen + 1))


EDIT_FORMS = ['array', 'lf', 'crlf']


def fam_edits(arg):
    maxlen, idxs = arg
    acc = Acc('single_edits')
    pool = lists_upto('ab', maxlen)
    for i in idxs:
        lst = pool[i]
        for edit, other in edits_of(lst, 'ab'):
            for form in EDIT_FORMS:
                obs = check_pair({'left': lst, 'right': other, 'form': form, 'mode': 'shared', 'edit': edit}, acc)
                _account(acc, obs)
                if form == 'array' and edit == ['del', len(lst) // 2] and i % 37 == 5:
                    acc.sample({'left': lst, 'edit': edit, 'right': other, 'block_types': obs})
    return acc.result()


def shipped_names():
    load_impl()
    import bare_script.include as inc  # pylint: disable=import-outside-toplevel,import-error
    root = os.path.dirname(os.path.abspath(inc.__file__))
    return sorted(n for n in os.listdir(root) if n.endswith('.bare'))


def check_shipped(case, acc):
    """One shipped include script: fetched by the CLI loader, parses, validates against the schema, lints clean."""
    bs = load_impl()
    from bare_script import bare as bs_bare  # pylint: disable=import-outside-toplevel,import-error
    from bare_script.model import lint_script, validate_script  # pylint: disable=import-outside-toplevel,import-error
    name = case['name']
    acc.transitions += 1
    try:
        text = bs_bare._fetch_include({'url': bs_bare._FETCH_INCLUDE_PREFIX + name})  # pylint: disable=protected-access
    except Exception as exc:  # pylint: disable=broad-exception-caught
        acc.violation(case, 'the script text', [type(exc).__name__, str(exc)[:200]], 'the CLI include loader cannot read the shipped script')
        return ('unreadable',)
    acc.evals += 1
    try:
        model = bs.parse_script(text)
    except Exception as exc:  # pylint: disable=broad-exception-caught
        acc.violation(case, 'parses', [type(exc).__name__, str(exc)[:300]], 'the shipped script does not parse')
        return ('noparse',)
    acc.evals += 1
    try:
        validate_script(model)
    except Exception as exc:  # pylint: disable=broad-exception-caught
        acc.violation(case, 'validates against the BareScript schema', [type(exc).__name__, str(exc)[:300]], 'the parsed model is not schema-valid')
        return ('invalid',)
    acc.evals += 1
    try:
        warnings = lint_script(model)
    except Exception as exc:  # pylint: disable=broad-exception-caught
        acc.violation(case, 'lint_script returns', [type(exc).__name__, str(exc)[:300]], 'lint_script raised')
        return ('lintraise',)
    acc.traces += 1
    if warnings:
        acc.violation(case, [], warnings, 'lint_script reports warnings for a shipped script')
    funcs = sum(1 for s in model['statements'] if 'function' in s)
    incs = sum(1 for s in model['statements'] if 'include' in s)
    return (name, len(model['statements']), funcs, incs, len(warnings))


def fam_shipped(arg):
    acc = Acc('shipped_scripts')
    for name in arg:
        obs = check_shipped({'name': name}, acc)
        acc.cases += 1
        acc.states += 1
        acc.outcome(obs)
        if len(obs) == 5 and obs[3] > 0:
            acc.nontrivial += 1    # the script itself includes another shipped script
        acc.sample({'script': name, 'statements_functions_includes_warnings': list(obs[1:])})
    return acc.result()


def families(tier):
    maxlen = 4 if tier == 'quick' else 6
    elen = 8 if tier == 'quick' else 10
    blen = 3 if tier == 'quick' else 4
    nblank = n_lists(3, blen)
    narr = n_lists(len(ARRAY_TERMINATOR_ALPHABET), blen)
    ntxt = n_lists(len(TEXT_CR_ALPHABET), blen)
    nprel = n_lists(2, blen)
    npool = n_lists(3, maxlen)
    nsmall = n_lists(3, 2)
    nedit = n_lists(2, elen)
    names = shipped_names()
    if not names:
        raise HarnessError('no *.bare file found in the bare_script.include package directory')
    return [
        Family('shipped_scripts', fam_shipped, [names], f'all {len(names)} *.bare files found in the package directory: parse, validate_script, lint_script',
               expected=len(names)),
        Family('include_per_call', fam_percall, split(list(range(nsmall)), 13),
               'every ordered pair of line lists of length <= 2 over {a,b,c} x 4 forms x {fresh globals, re-include into used globals}, '
               'include <diff.bare> executed for every call', expected=nsmall * nsmall * len(FORMS) * 2),
        Family('pairs', fam_pairs, [(maxlen, r) for r in split(list(range(npool)), 64)],
               f'every ordered pair of line lists of length <= {maxlen} over {{a,b,c}} x 4 forms (arrays, LF strings, CRLF strings, array vs CRLF string)',
               expected=npool * npool * len(FORMS)),
        Family('blank_lines', fam_blank, [(blen, r) for r in split(list(range(nblank)), 40)],
               f"every ordered pair of line lists of length <= {blen} over {{a, b, ''}} (blank lines: interior, leading, trailing, consecutive) x 5 forms "
               '(arrays, LF strings, CRLF strings, array vs CRLF string, strings with alternating CRLF/LF terminators)',
               expected=nblank * nblank * len(BLANK_FORMS)),
        Family('terminator_chars', fam_terminators,
               [('array', blen, r) for r in split(list(range(narr)), 48)] + [('text', blen, r) for r in split(list(range(ntxt)), 8)],
               f"every ordered pair of arrays of length <= {blen} over the elements {{a, a+CR, CR, a+LF+b, a+CRLF+b}} (an element is a line), and every "
               f"ordered pair of line lists of length <= {blen} over {{a, a+CR+b, CR+b}} as LF / CRLF / alternating-terminator strings",
               expected=narr * narr + ntxt * ntxt * len(TEXT_CR_FORMS)),
        Family('library_prelude', fam_prelude, [(blen, r) for r in split(list(range(nprel)), 31)],
               f'every ordered pair of line lists of length <= {blen} over {{a,b}} x 4 forms x 5 preludes (regexSplit with the include\'s regex / a fresh '
               'equal regex on the same texts, arraySlice at every index pair of the same line arrays, arrayNew / objectNew; every returned container '
               'changed in place) run in the same globals right before the call',
               expected=nprel * nprel * len(PRELUDE_FORMS) * len(PRELUDE_NAMES)),
        Family('single_edits', fam_edits, [(elen, r) for r in split(list(range(nedit)), 32)],
               f'every list of length <= {elen} over {{a,b}} x every single-line insert/delete/replace x 3 forms',
               expected=n_edits(elen) * len(EDIT_FORMS)),
    ]


def replay(family, case):
    acc = Acc(family)
    if family == 'shipped_scripts':
        obs = check_shipped(case, acc)
    else:
        obs = check_pair(case, acc)
    res = acc.result()
    return {'differs': bool(res['nviol'] or res['nknown']), 'observed': show(obs), 'violations': res['violations'] + res['known_violations']}
