"""C12 One number type: int and float spellings of a number are interchangeable (DESIGN 4, C12).

Exhaustive differential of the implementation against itself under a change of *spelling* of integral numbers
(host int <-> float), over every library function and every operator.  No reference model.
"""

import copy
import datetime
import itertools
import json
import math
import os
import pickle
import re
import struct
import traceback

from ..common import HarnessError, canon, is_failure_line, load_impl, show
from ..engine.shard import Acc, Family, digest, split, MAX_SAMPLES_PER_SHARD, MAX_VIOLATIONS_PER_SHARD

LEVEL = 'exploration'
RULE = ('every function of SCRIPT_FUNCTIONS except clock/random/fetch is called through the real call wrapper '
        '(evaluate_expression of a function expression, debug mode, logFn collecting): (shallow) every argument tuple of '
        'arity 0..3 over a 16-value all-types pool (arity 4 over 8 values in thorough), once with every integral number '
        'as int and once as float; (deep) a hand-written table of valid base tuples per function and for each ALL 2^k '
        'spellings of its k integral numbers (recursively inside arrays/objects, aliasing preserved by one deepcopy of the '
        'tuple and in-place respelling); (script) each base tuple printed as BareScript source (literals are floats) and '
        'run by parse_script+execute_script against the direct call with ints; (ops) 14 binary and 2 unary operators over '
        'all ordered pairs of a 22-value pool in the four int/float spellings; (forindex) for-loops whose parser-seeded '
        'int index is used as index/count/size/radix/digits, against the same loop written with a float index; (print) nine '
        'printers (jsonStringify plain/indented, stringNew, string + value, value + string, arrayJoin of and over the value, '
        'systemLog, systemLogDebug) and dataTop/dataAggregate grouping x six container shapes holding one integral number next '
        'to two strings x every pair of strings of length <= 2 over {backslash, double quote, . 0 , ] a} (13 characters in '
        'thorough) x {1, 3, -2, 999999999999999}, int vs float; (parse) jsonParse of the same shapes written as JSON text by '
        'an independent writer with the number as n and as n.0, compact and spaced, against the denoted value; (dtgrid) '
        'datetimeNew over a grid of in-range / carrying / negative components x all 2^7 spellings. EVERY case of every family is '
        'run in both orders of the spellings, each order in its own fresh process (int-first in the shard process, float-first '
        'in a child forked before the first call of the implementation): within a process the spellings must agree, and between '
        'the two processes the observations of each case must be equal (per-process memos in which 2 and 2.0 collide). Compared: '
        'canonical result (1 == 1.0), failed/succeeded + failure value, logFn lines of the log functions, canonical '
        'post-call state of every argument. A case is non-trivial when it contains at least one respellable integral '
        'number and the int-spelled call succeeded (passed validation, body ran).')
ASSUMPTIONS = [
    'only integral numbers with |n| < 1e15 are respelled (the property\'s bound)',
    'the sign of a zero result is not compared (int arithmetic has no negative zero; the documentation is silent)',
    'operator results whose exact integer value exceeds 2^53 are UNSPECIFIED (host ints are exact, doubles are not)',
    'wording of failure log lines is not compared, only that the call failed and what it evaluated to',
    'clock, random and fetch functions are excluded (datetimeNow, datetimeToday, mathRandom, systemFetch)',
    'run-order dependence is explored per shard (one function / one chunk of cases per process): state leaking from one library '
    'function into another across shards is not explored',
]

EXCLUDED = ('datetimeNow', 'datetimeToday', 'mathRandom', 'systemFetch')
_CACHE = {}


# ----------------------------------------------------------------------------------------------------------------
# Values
# ----------------------------------------------------------------------------------------------------------------

def cb_first(args, options):  # pylint: disable=unused-argument
    """Host callback of the shallow pool: echoes its first argument (so it sees the spelling but has no own numbers)."""
    return args[0] if args else None


DT = datetime.datetime(2024, 3, 10, 1, 2, 3, 4000)
RE_POOL = re.compile('(a)|1')


def pool16():
    return [
        ('null', None), ('true', True), ('0', 0), ('1', 1), ('2', 2), ('-1', -1), ('0.5', 0.5), ('10', 10),
        ("''", ''), ("'a'", 'a'), ("'ab'", 'ab'), ("'12'", '12'),
        ('dt', DT), ('[3,1,2]', [3, 1, 2]), ("{a:1,b:'x'}", {'a': 1, 'b': 'x'}), ('fn', cb_first),
    ]


def pool8():
    return [('null', None), ('true', True), ('0', 0), ('1', 1), ('2', 2), ("'ab'", 'ab'), ('[3,1,2]', [3, 1, 2]), ("{a:1}", {'a': 1})]


def op_pool():
    return pool16() + [('re', RE_POOL), ('3', 3), ('7', 7), ('-8', -8), ('100', 100), ('1e15-1', 999999999999999)]


def is_integral(v):
    """A number that has both an int and a float spelling inside the property's bound."""
    if isinstance(v, bool) or not isinstance(v, (int, float)):
        return False
    if isinstance(v, float) and (math.isnan(v) or math.isinf(v)):
        return False
    return v == int(v) and abs(v) < 1e15


def slots_of(args):
    """Deterministic list of (container, key) slots holding integral numbers, each container visited once."""
    out = []
    seen = {id(args)}

    def walk(cont, keys):
        for k in keys:
            v = cont[k]
            if is_integral(v):
                out.append((cont, k))
            elif isinstance(v, list):
                if id(v) not in seen:
                    seen.add(id(v))
                    walk(v, range(len(v)))
            elif isinstance(v, dict):
                if id(v) not in seen:
                    seen.add(id(v))
                    walk(v, sorted(v))
    walk(args, range(len(args)))
    return out


def respell(args, mask):
    """In place: slot number b becomes float if bit b of mask is set, else int. mask=-1: all float."""
    sl = slots_of(args)
    for b, (cont, k) in enumerate(sl):
        v = cont[k]
        cont[k] = float(v) if (mask >> b) & 1 else int(v)
    return len(sl)


def count_integrals(value, seen=None):
    """Independent count of integral-number slots (closed form for the deep family)."""
    if seen is None:
        seen = set()
    if is_integral(value):
        return 1
    if isinstance(value, (list, tuple, dict)):
        if id(value) in seen:
            return 0
        seen.add(id(value))
        items = value.values() if isinstance(value, dict) else value
        return sum(count_integrals(x, seen) for x in items)
    return 0


NEG_ZERO_REPR = repr(('n', 0, -1))


def zero_norm(c, top=True):
    """Canonical form with the sign of zero dropped."""
    if top and NEG_ZERO_REPR not in repr(c):
        return c        # fast path: no negative zero anywhere
    if isinstance(c, tuple):
        if len(c) == 3 and c[0] == 'n' and c[1] == 0:
            return ('n', 0, 1)
        return tuple(zero_norm(x, False) for x in c)
    return c


# ----------------------------------------------------------------------------------------------------------------
# Calling the implementation
# ----------------------------------------------------------------------------------------------------------------

CALLBACK_SOURCE = '''\
function cbGt1(v):
    return v > 1
endfunction
function cbDesc(a, b):
    return b - a
endfunction
function cbAdd(a, b):
    return a + b
endfunction
'''
CALLBACK_NAMES = ('cbGt1', 'cbDesc', 'cbAdd')
WATCH = ('gnew',)


class CB:
    """Marker for a script-function callback in the base table (resolved after the deep copy)."""

    def __init__(self, name):
        self.name = name

    def __deepcopy__(self, memo):
        return self

    def __repr__(self):
        return f'CB({self.name})'


def impl():
    """(bare_script module, SCRIPT_FUNCTIONS) of the tree under test, loaded once per process."""
    if 'impl' not in _CACHE:
        bs = load_impl()
        from bare_script.library import SCRIPT_FUNCTIONS  # pylint: disable=import-outside-toplevel,import-error
        _CACHE['impl'] = (bs, SCRIPT_FUNCTIONS)
    return _CACHE['impl']


def callbacks():
    if 'cb' not in _CACHE:
        bs = impl()[0]
        g = {}
        _CACHE['impl_called'] = True
        bs.execute_script(bs.parse_script(CALLBACK_SOURCE), {'globals': g})
        _CACHE['cb'] = {n: g[n] for n in CALLBACK_NAMES}
    return _CACHE['cb']


def functions():
    SCRIPT_FUNCTIONS = impl()[1]  # pylint: disable=invalid-name
    return sorted(n for n in SCRIPT_FUNCTIONS if n not in EXCLUDED)


def split_logs(logs):
    fails = 0
    other = []
    for line in logs:
        if is_failure_line(line):
            fails += 1
        else:
            other.append(line)
    return fails, tuple(other)


def call_direct(name, args, watch_all=False):
    """Call a library function through the runtime's call wrapper with private, already spelled arguments."""
    bs, SCRIPT_FUNCTIONS = impl()  # pylint: disable=invalid-name
    _CACHE['impl_called'] = True
    logs = []
    names = [f'v{i}' for i in range(len(args))]
    g = dict(zip(names, args))
    g[name] = SCRIPT_FUNCTIONS[name]
    preset = set(g)
    options = {'globals': g, 'logFn': logs.append, 'debug': True, 'statementCount': 0}
    expr = {'function': {'name': name, 'args': [{'variable': n} for n in names]}}
    try:
        res = bs.evaluate_expression(expr, options, None, False)
        how = 'value'
    except Exception as exc:  # pylint: disable=broad-exception-caught
        res = None
        how = 'raise ' + type(exc).__name__
    fails, other = split_logs(logs)
    if watch_all:
        extra = {k: v for k, v in g.items() if k not in preset}
    else:
        extra = {k: g[k] for k in WATCH if k in g}
    raw = canon([res, [g.get(n) for n in names], extra])
    return {'how': how, 'fails': fails, 'logs': other, 'state': zero_norm(raw), 'raw': raw}


def compare(acc, a, b):
    """first_difference, counting the cases whose only difference is the sign of a zero as UNSPECIFIED."""
    diff = first_difference(a, b)
    if diff is None and a.get('raw') != b.get('raw'):
        acc.unspecified += 1
        acc.count('differ_only_in_the_sign_of_a_zero')
    return diff


def first_difference(a, b):
    for key, what in (('how', 'one spelling returns, the other raises'), ('fails', 'the call fails for one spelling only'),
                      ('logs', 'the log functions print different text'), ('state', None)):
        if a[key] != b[key]:
            if what is None:
                sa, sb = a['state'], b['state']
                if sa[2][0] != sb[2][0]:
                    what = 'the result differs between the spellings'
                elif sa[2][1] != sb[2][1]:
                    what = 'the post-call state of the arguments differs between the spellings'
                else:
                    what = 'the globals written by the call differ between the spellings'
            return what
    return None


def brief(obs):
    return {'how': obs['how'], 'failed_calls_logged': obs['fails'], 'logs': list(obs['logs']), 'result': show(obs['state'][2][0]),
            'args_after': show(obs['state'][2][1])}


# ----------------------------------------------------------------------------------------------------------------
# Run order of the spellings.  Every shard runs its cases twice, in two FRESH processes: the shard process itself
# (spellings in the order int-first) and a child forked before the first call of the implementation (float-first).
# Within a process the two spellings of a case must agree (check_*); between the processes the observations of every
# case must be equal (two_orders) - a per-process memo in which 2 and 2.0 collide makes the result depend on which
# spelling came first, which neither order shows on its own when the poisoned entry serves both spellings.
# ----------------------------------------------------------------------------------------------------------------

ORDERS = ('int-first', 'float-first')
_STATE = {'order': 'int-first', 'rec': None}


def order_of(case):
    return case.get('order') if case.get('order') in ORDERS else _STATE['order']


def in_order(order, first, second):
    """Call the two thunks in the run order; return (result of first, result of second) in canonical order."""
    if order == 'float-first':
        b = second()
        a = first()
        return a, b
    a = first()
    return a, second()


def obs_key(o):
    return None if o is None else (o['how'], o['fails'], tuple(o['logs']), o['state'])


def case_key(case):
    return json.dumps({k: v for k, v in case.items() if k not in ('order', 'labels', 'args', 'value', 'source')}, sort_keys=True)


def record(case, summary):
    """Remember the observations of a case for the comparison between the two run orders."""
    if _STATE['rec'] is not None:
        _STATE['rec'][case_key(case)] = summary


def _send(fd, obj):
    data = pickle.dumps(obj)
    os.write(fd, struct.pack('>Q', len(data)))
    view = memoryview(data)
    while view:
        n = os.write(fd, view[:1 << 16])
        view = view[n:]


def _recv(fd):
    def read_exact(n):
        buf = b''
        while len(buf) < n:
            chunk = os.read(fd, n - len(buf))
            if not chunk:
                raise HarnessError('C12: the float-first child process ended without a result')
            buf += chunk
        return buf
    size = struct.unpack('>Q', read_exact(8))[0]
    return pickle.loads(read_exact(size))


def _child(order, thunk, up, down):
    """Body of the forked child: run thunk under the given order, send (result, digests), then serve summary requests."""
    code = 0
    try:
        _STATE['order'] = order
        _STATE['rec'] = {}
        try:
            res = thunk()
            _send(up, ('ok', res, {k: digest(v) for k, v in _STATE['rec'].items()}))
            wanted = _recv(down)
            _send(up, {k: _STATE['rec'].get(k) for k in wanted})
        except BaseException:  # pylint: disable=broad-exception-caught
            _send(up, ('exc', traceback.format_exc(), None))
    except BaseException:  # pylint: disable=broad-exception-caught
        code = 1
    finally:
        os._exit(code)


def spawn(order, thunk):
    up_r, up_w = os.pipe()
    down_r, down_w = os.pipe()
    pid = os.fork()
    if pid == 0:
        os.close(up_r)
        os.close(down_w)
        _child(order, thunk, up_w, down_r)
    os.close(up_w)
    os.close(down_r)
    return pid, up_r, down_w


def two_orders(family, body, arg):
    """Run body(arg) -> Acc.result() in this fresh process with the spellings int-first and in a forked fresh child
    float-first; merge the two results; compare the recorded observations case by case."""
    if _CACHE.get('impl_called'):
        raise HarnessError('C12: the shard process already called the implementation before forking')
    pid, up, down = spawn('float-first', lambda: body(arg))
    _STATE['order'] = 'int-first'
    _STATE['rec'] = {}
    mine = body(arg)
    rec = _STATE['rec']
    _STATE['rec'] = None
    status, theirs, their_digests = _recv(up)
    if status != 'ok':
        os.waitpid(pid, 0)
        raise HarnessError('C12: exception in the float-first child process:\n' + theirs)
    if set(their_digests) != set(rec):
        raise HarnessError(f'C12 {family}: the two run orders enumerated different cases')
    differing = [k for k, v in rec.items() if digest(v) != their_digests[k]]
    _send(down, differing[:MAX_VIOLATIONS_PER_SHARD])
    their_obs = _recv(up)
    os.waitpid(pid, 0)
    os.close(up)
    os.close(down)
    out = merge_results(mine, theirs)
    acc = Acc(family)
    for k in differing:
        acc.violation(dict(json.loads(k), order='cross'), {'run order': 'int-first', 'observations': show(rec[k])},
                      {'run order': 'float-first', 'observations': show(their_obs.get(k, 'see replay'))},
                      'the observations of this case depend on which spelling the process saw first (int-first process vs float-first process)')
    extra = acc.result()
    out['nviol'] += extra['nviol']
    out['violations'] = (extra['violations'] + out['violations'])[:2 * MAX_VIOLATIONS_PER_SHARD]
    return out


def merge_results(a, b):
    out = dict(a)
    for k in ('cases', 'evals', 'states', 'transitions', 'traces', 'nontrivial', 'unspecified', 'pruned', 'nviol', 'nknown'):
        out[k] = a[k] + b[k]
    out['outcomes'] = sorted(set(a['outcomes']) | set(b['outcomes']))
    out['violations'] = a['violations'] + b['violations']
    out['known_violations'] = a['known_violations'] + b['known_violations']
    out['samples'] = (a['samples'] + b['samples'])[:MAX_SAMPLES_PER_SHARD]
    out['capped'] = a['capped'] or b['capped']
    out['extra'] = dict(a['extra'])
    for k, v in b['extra'].items():
        out['extra'][k] = out['extra'].get(k, 0) + v
    return out


def cross_replay(check, case):
    """Replay of a cross-order violation: the single case float-first in a fresh child, int-first here."""
    one = {k: v for k, v in case.items() if k != 'order'}

    def run():
        acc = Acc('replay')
        check(dict(one), acc)
        return acc.result()
    pid, up, down = spawn('float-first', run)
    _STATE['order'] = 'int-first'
    _STATE['rec'] = {}
    mine = run()
    rec = _STATE['rec']
    _STATE['rec'] = None
    status, theirs, their_digests = _recv(up)
    if status != 'ok':
        os.waitpid(pid, 0)
        raise HarnessError('C12: exception in the float-first child process:\n' + theirs)
    differing = [k for k, v in rec.items() if digest(v) != their_digests.get(k)]
    _send(down, differing)
    their_obs = _recv(up)
    os.waitpid(pid, 0)
    viol = mine['violations'] + theirs['violations']
    return {'differs': bool(differing or viol), 'cross_order_difference': [{'int-first': show(rec[k]), 'float-first': show(their_obs.get(k))} for k in differing],
            'violations': viol}


# ----------------------------------------------------------------------------------------------------------------
# Family shallow
# ----------------------------------------------------------------------------------------------------------------

def check_shallow(case, acc):
    pool = pool16() if case['pool'] == 'P16' else pool8()
    name = case['fn']
    base = tuple(pool[i][1] for i in case['idx'])
    order = order_of(case)
    k = len(slots_of(list(base)))

    def run(mask):
        args = list(copy.deepcopy(base))
        respell(args, mask)
        acc.evals += 1
        return call_direct(name, args, watch_all=True)
    if k:
        o_int, o_flt = in_order(order, lambda: run(0), lambda: run(-1))
        diff = compare(acc, o_int, o_flt)
        if diff is not None:
            acc.violation(dict(case, order=order, labels=[pool[i][0] for i in case['idx']]), brief(o_int), brief(o_flt),
                          f'{name}: {diff} (all integral numbers as int vs as float; run order {order})')
    else:
        o_int, o_flt = run(0), None
    record(case, (obs_key(o_int), obs_key(o_flt)))
    return k, o_int


def fam_shallow(arg):
    return two_orders('shallow', body_shallow, arg)


def body_shallow(arg):
    tier, names = arg
    acc = Acc('shallow')
    n16 = len(pool16())
    n8 = len(pool8())
    for name in names:
        first = True
        for arity in range(4):
            for idx in itertools.product(range(n16), repeat=arity):
                acc.cases += 1
                k, obs = check_shallow({'fn': name, 'pool': 'P16', 'idx': list(idx)}, acc)
                if k and obs['how'] == 'value' and obs['fails'] == 0:
                    acc.nontrivial += 1
                    if first and arity >= 2:
                        first = False
                        acc.sample({'call': name, 'args': [pool16()[i][0] for i in idx], 'int_spelling': brief(obs)})
                acc.outcome((name, obs['how'], obs['fails'], obs['state'][2][0] if not isinstance(obs['state'][2][0], tuple) else obs['state'][2][0][0]))
        if tier == 'thorough':
            for idx in itertools.product(range(n8), repeat=4):
                acc.cases += 1
                k, obs = check_shallow({'fn': name, 'pool': 'P8', 'idx': list(idx)}, acc)
                if k and obs['how'] == 'value' and obs['fails'] == 0:
                    acc.nontrivial += 1
    return acc.result()


# ----------------------------------------------------------------------------------------------------------------
# Base table (deep + script families)
# ----------------------------------------------------------------------------------------------------------------

def base_table():
    """name -> list of VALID argument tuples (validation passes, the body runs). Built fresh (never mutated: every case
    works on one deepcopy of the tuple)."""
    if 'base' in _CACHE:
        return _CACHE['base']
    from schema_markdown import parse_schema_markdown  # pylint: disable=import-outside-toplevel
    types = parse_schema_markdown(['struct S', '  int a', '  float b', '  optional int[] c', 'typedef int(> 0) P'])
    shared_a = [1, 2]
    shared_o = {'a': 1}
    re1 = re.compile('(a+)(?P<n>\\d)')
    rows_ab = [{'a': 1, 'b': 2}, {'a': 1, 'b': 4}, {'a': 2, 'b': 6}]
    left = [{'a': 1, 'b': 5}, {'a': 2, 'b': 6}]
    right = [{'a': 1, 'c': 7}, {'a': 3, 'c': 8}]
    t = {
        'arrayCopy': [([1, 2, [3]],)],
        'arrayDelete': [([1, 2, 3], 1), ([5], 0)],
        'arrayExtend': [([1, 2], [3, 4]), (shared_a, shared_a)],
        'arrayGet': [([1, 2, 3], 0), ([1, 2, 3], 2)],
        'arrayIndexOf': [([1, 2, 3, 2], 2), ([1, 2, 3, 2], 2, 2), ([1, 2, 3], CB('cbGt1')), ([1, 2, 3], CB('cbGt1'), 2)],
        'arrayJoin': [([1, 2, 'a', 0.5], ', ')],
        'arrayLastIndexOf': [([1, 2, 3, 2], 2), ([1, 2, 3, 2], 2, 2), ([1, 2, 3], CB('cbGt1'), 1)],
        'arrayLength': [([1, 2, 3],)],
        'arrayNew': [(1, 2, 'a'), ()],
        'arrayNewSize': [(3,), (2, 7), ()],
        'arrayPop': [([1, 2, 3],)],
        'arrayPush': [([1], 2, 3)],
        'arraySet': [([1, 2, 3], 1, 9), ([1, 2, 3], 0, 'x')],
        'arrayShift': [([1, 2, 3],)],
        'arraySlice': [([1, 2, 3, 4], 1, 3), ([1, 2, 3, 4], 2), ([1, 2, 3, 4],)],
        'arraySort': [([3, 1, 2],), ([3, 1, 2], CB('cbDesc'))],
        'dataAggregate': [
            (rows_ab, {'categories': ['a'], 'measures': [{'field': 'b', 'function': 'sum'}]}),
            ([{'a': 1, 'b': 2}, {'a': 1, 'b': 5}], {'categories': ['a'], 'measures': [
                {'field': 'b', 'function': 'average', 'name': 'avg'}, {'field': 'b', 'function': 'stddev', 'name': 'sd'},
                {'field': 'b', 'function': 'count', 'name': 'n'}, {'field': 'b', 'function': 'min', 'name': 'lo'},
                {'field': 'b', 'function': 'max', 'name': 'hi'}]}),
            ([{'b': 3}, {'b': 4}], {'measures': [{'field': 'b', 'function': 'sum'}]}),
        ],
        'dataCalculatedField': [([{'a': 1}, {'a': 2}], 'c', 'a * 2 + n', {'n': 3}), ([{'a': 1}], 'c', 'a + 1')],
        'dataFilter': [([{'a': 1}, {'a': 2}, {'a': 3}], 'a >= n', {'n': 2}), ([{'a': 1}, {'a': 2}], 'a == 2')],
        'dataJoin': [(left, right, 'a'), (left, right, 'a', 'a', True), (left, right, 'a * n', None, False, {'n': 1})],
        'dataParseCSV': [('a,b', '1,2', '3,4'), ('a,b', '1,x')],
        'dataSort': [([{'a': 2, 'b': 1}, {'a': 1, 'b': 2}, {'a': 2, 'b': 0}], [['a'], ['b', True]])],
        'dataTop': [([{'a': 1, 'b': 1}, {'a': 1, 'b': 2}, {'a': 2, 'b': 3}], 1, ['a']), ([{'a': 1}, {'a': 2}, {'a': 3}], 2)],
        'dataValidate': [([{'a': 1, 'b': 'x'}, {'a': 2, 'b': 'y'}],), ([{'a': '1'}, {'a': '2'}], True)],
        'datetimeDay': [(DT,)], 'datetimeHour': [(DT,)], 'datetimeMillisecond': [(DT,)], 'datetimeMinute': [(DT,)],
        'datetimeMonth': [(DT,)], 'datetimeSecond': [(DT,)], 'datetimeYear': [(DT,)],
        'datetimeISOFormat': [(DT,), (DT, True)],
        'datetimeISOParse': [('2024-03-10T01:02:03.004Z',), ('2024-03-10',)],
        'datetimeNew': [(2024, 3, 10), (2024, 3, 10, 1, 2, 3, 4), (2024, 14, 35), (2023, -1, -40, 25, 61, 61, 1001),
                        (2024, 1, 31, 36), (2024, 1, 31, 0, 0, 0, 86400000), (2024, 1, 5, -1, -1, -1, -1), (2024, 0, 1), (2024, 14, 31),
                        (2024, 12, 31, 23, 59, 59, 1000), (2024, 3, 0, 24, 60, 60, 1000), (2024, -11, -30), (2024, 2, 29, 0, 1440),
                        (2024, 1, 1, 0, 0, 86400), (2024, 2, 10000), (2024, 2, -10000)],
        'jsonParse': [('{"a": [1, 2.5, "x"]}',)],
        'jsonStringify': [({'a': [1, 2, {'b': 3}]},), ({'a': [1, 2]}, 2), (1,), (100000000000000,)],
        'mathAbs': [(-3,), (2.5,)], 'mathAcos': [(1,), (0,), (0.5,)], 'mathAsin': [(1,), (0,)], 'mathAtan': [(1,)],
        'mathAtan2': [(1, 2), (0, -1)], 'mathCeil': [(2,), (2.5,)], 'mathCos': [(0,), (1,)], 'mathFloor': [(2,), (-2.5,)],
        'mathLn': [(1,), (10,)], 'mathLog': [(100,), (8, 2), (1000, 10)],
        'mathMax': [(1, 5, 3), (2, 'a'), ()], 'mathMin': [(1, 5, 3), (2, 'a'), ()], 'mathPi': [()],
        'mathRound': [(3,), (2.567, 2), (1234, 0), (5, 3), (1, 23)],
        'mathSign': [(-3,), (0,), (4,)], 'mathSin': [(0,), (2,)], 'mathSqrt': [(4,), (2,), (0,)], 'mathTan': [(0,), (1,)],
        'numberParseFloat': [('1.5',), ('10',)],
        'numberParseInt': [('101',), ('101', 2), ('ff', 16), ('z', 36)],
        'numberToFixed': [(1.005,), (3, 1), (2.5, 0), (1.5, 3, True), (2, 2, True), (1, 23)],
        'objectAssign': [({'a': 1}, {'b': 2}), (shared_o, shared_o)],
        'objectCopy': [({'a': 1, 'b': [2]},)],
        'objectDelete': [({'a': 1, 'b': 2}, 'a')],
        'objectGet': [({'a': 1}, 'a'), ({'a': 1}, 'b', 5), ({'a': 1}, 'b')],
        'objectHas': [({'a': 1}, 'a'), ({'a': 1}, 'b')],
        'objectKeys': [({'b': 1, 'a': 2},)],
        'objectNew': [('a', 1, 'b', [2]), ('a',), ()],
        'objectSet': [({'a': 1}, 'b', 2)],
        'regexEscape': [('a.b*c',)],
        'regexMatch': [(re1, 'xaa1y'), (re1, 'zzz')],
        'regexMatchAll': [(re1, 'a1 aa2')],
        'regexNew': [('a+',), ('a+', 'i'), ('(?<n>a)', 'ms')],
        'regexReplace': [(re1, 'xaa1y', '[$1-$<n>]'), (re.compile('a'), 'banana', 'o')],
        'regexSplit': [(re.compile(',\\s*'), 'a, b,c')],
        'schemaParse': [('struct S', '  int a'), ('struct S', '  int a', '  optional float b')],
        'schemaParseEx': [(['struct S', '  int a'],), (['struct S', '  int a'], {}, 'f.smd')],
        'schemaTypeModel': [()],
        'schemaValidate': [(types, 'S', {'a': 1, 'b': 2, 'c': [1, 2]}), (types, 'P', 3)],
        'schemaValidateTypeModel': [(types,)],
        'stringCharCodeAt': [('abc', 1)],
        'stringEndsWith': [('abc', 'bc')],
        'stringFromCharCode': [(97, 98), (8364,), (), (55357, 56832), (56832, 55357), (55357,), (128512,), (0, 1114111), (65, 55357, 56832, 66)],
        'stringIndexOf': [('abcabc', 'c'), ('abcabc', 'c', 3)],
        'stringLastIndexOf': [('abcabc', 'c'), ('abcabc', 'c', 4), ('abcabc', 'a', 2)],
        'stringLength': [('abc',)], 'stringLower': [('AbC',)],
        'stringNew': [(1,), (1.5,), (-3,), ([1, 2],), ({'a': 1},), (100000000000000,), (DT,), (None,)],
        'stringRepeat': [('ab', 3), ('ab', 0)],
        'stringReplace': [('banana', 'an', 'AN')],
        'stringSlice': [('abcdef', 1, 4), ('abcdef', 2), ('abcdef', 0, 0)],
        'stringSplit': [('a,b,c', ',')], 'stringStartsWith': [('abc', 'ab')], 'stringTrim': [('  a b  ',)], 'stringUpper': [('abc',)],
        'systemBoolean': [(0,), (1,), ([0],)],
        'systemCompare': [(1, 2), (2, 1), (1, 1), ([1, 2], [1, 3])],
        'systemGlobalGet': [('missing', 7), ('missing',)],
        'systemGlobalSet': [('gnew', 3), ('gnew', [1])],
        'systemIs': [(1, 1), (shared_a, shared_a), ([1], [1]), (1, 2)],
        'systemLog': [(1,), ('msg',), ([1, 2],), (1.5,)],
        'systemLogDebug': [(2,), ({'a': 1},)],
        'systemPartial': [(CB('cbAdd'), 1)],
        'systemType': [(1,), (1.5,), ('a',)],
        'urlEncode': [('a b/c?d=1',)], 'urlEncodeComponent': [('a b/c?d=1',)],
    }
    _CACHE['base'] = t
    return t


def base_cases():
    """Deterministic list of (function, base index, k)."""
    table = base_table()
    names = functions()
    # A library function without a base tuple (added to the library after this table was written) is still covered by
    # `shallow` (every argument tuple over the pool); a table entry whose function is gone is skipped. Neither is a
    # reason to fail the check: both are reported in the family description.
    _CACHE['no_base'] = [n for n in names if n not in table]
    _CACHE['gone'] = [n for n in table if n not in names]
    out = []
    for n in names:
        for b, tup in enumerate(table.get(n, ())):
            out.append((n, b, count_integrals(tup)))
    return out


def resolve_callbacks(args):
    cbs = callbacks()
    for i, a in enumerate(args):
        if isinstance(a, CB):
            args[i] = cbs[a.name]


def base_tuple(case):
    """The base tuple a deep/script/grid case refers to."""
    if case.get('var'):
        return variadic_args(case['fn'], case['base'])
    if case['fn'] == 'datetimeNew' and isinstance(case['base'], list):
        return (2024,) + tuple(case['base'])
    return base_table()[case['fn']][case['base']]


def check_deep(case, acc):
    name, mask = case['fn'], case['mask']
    base = base_tuple(case)
    order = order_of(case)

    def run(m):
        args = list(copy.deepcopy(base))
        respell(args, m)
        resolve_callbacks(args)
        acc.evals += 1
        return call_direct(name, args)
    if mask:
        o_ref, o_alt = in_order(order, lambda: run(0), lambda: run(mask))
        diff = compare(acc, o_ref, o_alt)
        if diff is not None:
            acc.violation(dict(case, order=order, args=show(_plain(base))), brief(o_ref), brief(o_alt),
                          f'{name}: {diff} (all ints vs the spelling with float at slots {[i for i in range(64) if (mask >> i) & 1]}; run order {order})')
    else:
        o_ref, o_alt = run(0), None
    record(case, (obs_key(o_ref), obs_key(o_alt)))
    return o_ref


def _plain(v):
    if isinstance(v, (list, tuple)):
        return [_plain(x) for x in v]
    if isinstance(v, dict):
        return {k: _plain(x) for k, x in v.items()}
    if isinstance(v, (datetime.date, CB)) or hasattr(v, 'pattern'):
        return repr(v)
    return v


def fam_deep(arg):
    return two_orders('deep', body_deep, arg)


def body_deep(arg):
    acc = Acc('deep')
    for name, b, k in arg:
        masks = range(2 ** k) if _STATE['order'] == 'int-first' else range(2 ** k - 1, -1, -1)
        for mask in masks:
            acc.cases += 1
            obs = check_deep({'fn': name, 'base': b, 'mask': mask}, acc)
            ok = obs['how'] == 'value' and obs['fails'] == 0
            if mask and ok:
                acc.nontrivial += 1
            if mask == 0:
                if not ok:
                    acc.count('base_tuples_failing_validation')
                acc.outcome((name, b, obs['how'], obs['fails'], repr(obs['state'])[:200]))
            if mask == 2 ** k - 1 and k >= 2:
                acc.sample({'call': name, 'args': show(_plain(base_table()[name][b])), 'spellings': 2 ** k, 'int_spelling': brief(obs)})
    return acc.result()


# ----------------------------------------------------------------------------------------------------------------
# datetimeNew component grid: every combination of in-range / carrying / negative components, all 2^7 spellings
# ----------------------------------------------------------------------------------------------------------------

DT_GRID = [[0, 1, 14], [-1, 1, 31], [-1, 0, 36], [0, 61], [0, -61], [0, 86400000]]   # month, day, hour, minute, second, millisecond
DT_GRID_THOROUGH = [[0, 1, 12, 14, -11], [-1, 0, 1, 28, 31], [-1, 0, 23, 36], [0, 59, 61, -1], [0, 59, -61], [0, 999, 1000, -1, 86400000]]


def dt_grid(tier):
    return [list(t) for t in itertools.product(*(DT_GRID_THOROUGH if tier == 'thorough' else DT_GRID))]


def fam_dtgrid(arg):
    return two_orders('dtgrid', body_dtgrid, arg)


def body_dtgrid(arg):
    acc = Acc('dtgrid')
    for comps in arg:
        masks = range(128) if _STATE['order'] == 'int-first' else range(127, -1, -1)
        for mask in masks:
            acc.cases += 1
            obs = check_deep({'fn': 'datetimeNew', 'base': comps, 'mask': mask}, acc)
            ok = obs['how'] == 'value' and obs['fails'] == 0
            if mask and ok:
                acc.nontrivial += 1
            if mask == 0:
                acc.outcome((tuple(comps), obs['fails'], repr(obs['state'][2][0])))
        if comps[2] == 36 and comps[5]:
            acc.sample({'call': 'datetimeNew', 'args': [2024] + comps, 'spellings': 128, 'int_spelling': brief(obs)})
    return acc.result()


# ----------------------------------------------------------------------------------------------------------------
# Functions with variadic number arguments: every sequence of length 1..3 over a code pool with values that are
# special TOGETHER (UTF-16 high surrogate followed by a low surrogate), lone surrogates, astral code points and the
# boundaries 0 / 0x10FFFF / 0x110000 - every position respelled independently (all 2^k spellings)
# ----------------------------------------------------------------------------------------------------------------

CODE_POOL = [0, 65, 0xD7FF, 0xD800, 0xD83D, 0xDBFF, 0xDC00, 0xDE00, 0xDFFF, 0xE000, 0xFFFF, 0x10000, 0x1F600, 0x10FFFF, 0x110000]
VARIADIC = ['stringFromCharCode', 'mathMax', 'mathMin', 'arrayNew', 'arrayPush', 'objectNew']


def variadic_args(fn, codes):
    if fn == 'arrayPush':
        return ([],) + tuple(codes)
    if fn == 'objectNew':
        out = []
        for i, c in enumerate(codes):
            out.extend((f'k{i}', c))
        return tuple(out)
    return tuple(codes)


def variadic_maxlen(fn, tier):
    return 3 if fn == 'stringFromCharCode' or tier == 'thorough' else 2


def variadic_shards(tier):
    """(function, first code index) pairs."""
    return [(fn, i) for fn in VARIADIC for i in range(len(CODE_POOL))]


def variadic_size(tier):
    n = len(CODE_POOL)
    return sum(sum(n ** ln * 2 ** ln for ln in range(1, variadic_maxlen(fn, tier) + 1)) for fn in VARIADIC)


def fam_variadic(arg):
    return two_orders('variadic', body_variadic, arg)


def body_variadic(arg):
    tier, firsts = arg
    acc = Acc('variadic')
    n = len(CODE_POOL)
    for fn, i in firsts:
        for ln in range(1, variadic_maxlen(fn, tier) + 1):
            for rest in itertools.product(range(n), repeat=ln - 1):
                codes = [CODE_POOL[i]] + [CODE_POOL[j] for j in rest]
                masks = range(2 ** ln) if _STATE['order'] == 'int-first' else range(2 ** ln - 1, -1, -1)
                for mask in masks:
                    acc.cases += 1
                    obs = check_deep({'fn': fn, 'var': True, 'base': codes, 'mask': mask}, acc)
                    if mask and obs['how'] == 'value' and obs['fails'] == 0:
                        acc.nontrivial += 1
                    if mask == 0:
                        acc.outcome((fn, tuple(codes), obs['fails']))
        if fn == 'stringFromCharCode' and CODE_POOL[i] == 0xD83D:
            acc.sample({'call': 'stringFromCharCode', 'args': [0xD83D, 0xDE00], 'spellings': 4,
                        'int_spelling': brief(check_deep({'fn': fn, 'var': True, 'base': [0xD83D, 0xDE00], 'mask': 0}, Acc('variadic')))})
    return acc.result()


# ----------------------------------------------------------------------------------------------------------------
# Script path
# ----------------------------------------------------------------------------------------------------------------

def lit_string(s):
    if '\n' in s or '\r' in s:
        raise HarnessError('C12: base-table strings must be single-line')
    return "'" + s.replace('\\', '\\\\').replace("'", "\\'") + "'"


def lit_number(v):
    if isinstance(v, int):
        return str(v) if v >= 0 else '(' + str(v) + ')'
    text = repr(v)
    if 'e' in text or 'inf' in text or 'nan' in text:
        raise HarnessError(f'C12: cannot print {v!r} as a BareScript literal')
    return text if v >= 0 else '(' + text + ')'


def print_script(name, base):
    """BareScript source that builds the argument tuple (sharing preserved through temporaries), calls the function and
    leaves the result in rr and the arguments in a0..an."""
    lines = [CALLBACK_SOURCE.rstrip('\n')] if any(isinstance(a, CB) for a in base) else []
    memo = {}
    counter = [0]

    def emit(v):
        if v is None:
            return 'null'
        if isinstance(v, bool):
            return 'true' if v else 'false'
        if isinstance(v, (int, float)):
            return lit_number(v)
        if isinstance(v, str):
            return lit_string(v)
        if isinstance(v, CB):
            return v.name
        if isinstance(v, datetime.datetime):
            return f'datetimeNew({v.year}, {v.month}, {v.day}, {v.hour}, {v.minute}, {v.second}, {v.microsecond // 1000})'
        if hasattr(v, 'pattern'):
            flags = ''.join(ch for ch, bit in (('i', re.I), ('m', re.M), ('s', re.S)) if v.flags & bit)
            return f'regexNew({lit_string(v.pattern)}, {lit_string(flags)})' if flags else f'regexNew({lit_string(v.pattern)})'
        if isinstance(v, (list, dict)):
            if id(v) in memo:
                return memo[id(v)]
            if isinstance(v, list):
                text = 'arrayNew(' + ', '.join(emit(x) for x in v) + ')'
            else:
                text = 'objectNew(' + ', '.join(lit_string(k) + ', ' + emit(x) for k, x in v.items()) + ')'
            tmp = f't{counter[0]}'
            counter[0] += 1
            lines.append(f'{tmp} = {text}')
            memo[id(v)] = tmp
            return tmp
        raise HarnessError(f'C12: cannot print {v!r}')

    for i, a in enumerate(base):
        lines.append(f'a{i} = {emit(a)}')
    lines.append(f'rr = {name}(' + ', '.join(f'a{i}' for i in range(len(base))) + ')')
    return '\n'.join(lines) + '\n'


def run_script(source, nargs):
    bs = impl()[0]
    _CACHE['impl_called'] = True
    logs = []
    g = {}
    options = {'globals': g, 'logFn': logs.append, 'debug': True}
    try:
        bs.execute_script(bs.parse_script(source), options)
        how = 'value'
    except Exception as exc:  # pylint: disable=broad-exception-caught
        how = 'raise ' + type(exc).__name__
    fails, other = split_logs(logs)
    extra = {k: g[k] for k in WATCH if k in g}
    raw = canon([g.get('rr'), [g.get(f'a{i}') for i in range(nargs)], extra])
    return {'how': how, 'fails': fails, 'logs': other, 'state': zero_norm(raw), 'raw': raw}


def check_script(case, acc):
    name, b = case['fn'], case['base']
    base = base_table()[name][b]
    order = order_of(case)
    source = print_script(name, base)

    def direct():
        ref = list(copy.deepcopy(base))
        respell(ref, 0)
        resolve_callbacks(ref)
        return call_direct(name, ref)
    o_ref, o_scr = in_order(order, direct, lambda: run_script(source, len(base)))
    acc.evals += 2
    diff = compare(acc, o_ref, o_scr)
    if diff is not None:
        acc.violation(dict(case, order=order, source=source), brief(o_ref), brief(o_scr),
                      f'{name}: {diff} (direct call with ints vs the same call written as a script, whose literals are floats; run order {order})')
    record(case, (obs_key(o_ref), obs_key(o_scr)))
    return o_ref, o_scr, source


def fam_script(arg):
    return two_orders('script', body_script, arg)


def body_script(arg):
    acc = Acc('script')
    for name, b, k in arg:
        acc.cases += 1
        o_ref, _, source = check_script({'fn': name, 'base': b}, acc)
        if k and o_ref['how'] == 'value' and o_ref['fails'] == 0:
            acc.nontrivial += 1
        acc.outcome((name, b, o_ref['fails'], repr(o_ref['state'])[:200]))
        if k >= 3:
            acc.sample({'source': source, 'direct_int_call': brief(o_ref)})
    return acc.result()


# ----------------------------------------------------------------------------------------------------------------
# Operators
# ----------------------------------------------------------------------------------------------------------------

BIN_OPS = ['+', '-', '*', '/', '%', '**', '==', '!=', '<', '<=', '>', '>=', '&&', '||']
UN_OPS = ['-', '!']
POW_EXP_BOUND = 10000   # int ** int with a larger exponent is not evaluated (result has > 10^4 bits; the hang is C05's business)


def eval_op(op, vals):
    bs = impl()[0]
    _CACHE['impl_called'] = True
    g = {f'v{i}': v for i, v in enumerate(vals)}
    if len(vals) == 2:
        expr = {'binary': {'op': op, 'left': {'variable': 'v0'}, 'right': {'variable': 'v1'}}}
    else:
        expr = {'unary': {'op': op, 'expr': {'variable': 'v0'}}}
    try:
        res = bs.evaluate_expression(expr, {'globals': g}, None, False)
        how = 'value'
    except Exception as exc:  # pylint: disable=broad-exception-caught
        res = None
        how = 'raise ' + type(exc).__name__
    raw = canon([res, [g[f'v{i}'] for i in range(len(vals))], {}])
    return {'how': how, 'fails': 0, 'logs': (), 'state': zero_norm(raw), 'raw': raw, 'res': res}


def check_ops(case, acc):
    """Returns (number of spellings compared, verdict string)."""
    pool = op_pool()
    op = case['op']
    idx = case['idx']
    base = tuple(pool[i][1] for i in idx)
    probe = list(copy.deepcopy(base))
    # which operands contain integral numbers (spelled per operand, recursively)
    per = []
    for i in range(len(probe)):
        one = [probe[i]]
        per.append(len(slots_of(one)))
    spell_ops = [i for i, n in enumerate(per) if n]
    if op == '**' and len(base) == 2 and all(is_integral(x) for x in base) and abs(base[0]) > 1 and base[1] > POW_EXP_BOUND:
        acc.pruned += 1
        return 0, 'pruned'
    combos = list(itertools.product((0, 1), repeat=len(spell_ops)))
    order = order_of(case)
    got = {}
    for combo in (combos if order == 'int-first' else combos[::-1]):
        vals = list(copy.deepcopy(base))
        for which, bit in zip(spell_ops, combo):
            one = [vals[which]]
            respell(one, -1 if bit else 0)
            vals[which] = one[0]
        got[combo] = eval_op(op, vals)
        acc.evals += 1
    record(case, tuple(obs_key(got[c]) for c in combos))
    ref = got[combos[0]]
    raw = ref['res']
    if isinstance(raw, int) and not isinstance(raw, bool) and abs(raw) > 2 ** 53:
        acc.unspecified += 1
        return 1, 'unspecified'
    verdict = 'same'
    for combo in combos[1:]:
        obs = got[combo]
        diff = compare(acc, ref, obs)
        if diff is not None:
            verdict = 'differs'
            acc.violation(dict(case, order=order, labels=[pool[i][0] for i in idx], float_operands=[w for w, bit in zip(spell_ops, combo) if bit]),
                          brief(ref), brief(obs), f'operator {op}: {diff} (int operands vs float at operand(s) {[w for w, bit in zip(spell_ops, combo) if bit]}; run order {order})')
    return len(combos), verdict if len(combos) > 1 else 'no-number'


def fam_ops(arg):
    return two_orders('ops', body_ops, arg)


def body_ops(arg):
    acc = Acc('ops')
    n = len(op_pool())
    for op, i in arg:
        if i is None:
            for u in range(n):
                acc.cases += 1
                ncmp, verdict = check_ops({'op': op, 'idx': [u]}, acc)
                if ncmp > 1:
                    acc.nontrivial += 1
                acc.outcome((op, verdict))
            continue
        for j in range(n):
            acc.cases += 1
            ncmp, verdict = check_ops({'op': op, 'idx': [i, j]}, acc)
            if ncmp > 1:
                acc.nontrivial += 1
            acc.outcome((op, verdict, i == j))
        if i == 4:
            acc.sample({'operator': op, 'left': op_pool()[i][0], 'right': [lab for lab, _ in op_pool()], 'spellings_per_pair': 'II, IF, FI, FF'})
    return acc.result()


# ----------------------------------------------------------------------------------------------------------------
# For-loop index
# ----------------------------------------------------------------------------------------------------------------

USES = [
    'arrayGet(arr, i)', 'arraySet(tgt, i, v)', "stringSlice('abcdef', i)", "stringSlice('abcdef', i, i + 2)", "stringSlice('abcdef', 0, i)",
    "stringCharCodeAt('abcdef', i)", 'arraySlice(tgt, i)', 'arraySlice(tgt, 0, i)', "stringRepeat('ab', i)", 'arrayNewSize(i)',
    'arrayNewSize(i, v)', 'numberToFixed(1.2345, i)', 'numberToFixed(v, i, true)', 'mathRound(1.2345, i)', 'stringFromCharCode(i)',
    'arrayIndexOf(tgt, 7, i)', 'arrayLastIndexOf(tgt, 7, i)', "stringIndexOf('abcabc', 'c', i)", "stringLastIndexOf('abcabc', 'a', i)",
    'arrayDelete(tgt, i)', 'stringNew(i)', "'x' + i", 'jsonStringify(arrayNew(i, v))', "jsonStringify(objectNew('k', i), i)",
    "numberParseInt('1', i)", 'dataTop(rows, i)', 'datetimeNew(2024, i, i)', 'datetimeNew(2024, 1, 1, i, i, i, i)', 'systemType(i)',
    'systemIs(i, 0)', 'i == 0', 'i < 1', '-i', 'i * 2', 'i / 2', 'i % 2', '2 ** i', 'i ** 2', 'i - 1', 'dt + i',
    "objectGet(names, stringNew(i))", 'mathMax(i, 0.5)', 'mathMin(i, 1)', 'systemCompare(i, v)', 'arrayPush(tgt, i)', "objectSet(names, 'last', i)",
    "systemLog(i)", "regexMatch(regexNew('[0-9.]+'), stringNew(i))", 'arrayJoin(arrayNew(i, i), i)', 'arrayJoin(arrayNew(i, v), stringNew(i))',
]


def for_arrays(tier):
    arrs = [[], [10], [10, 20], [10, 20, 30], [10, 20, 30, 40]]
    if tier == 'thorough':
        arrs += [[10, 20, 30, 40, 50], [10, 20, 30, 40, 50, 60], ['a'], ['a', 'b', 'c'], [0.5, 1.5], [[1], [2], [3]]]
    return arrs


FOR_SETUP = '''\
tgt = arrayNew(5, 6, 7, 8, 9, 7)
rows = arrayNew(objectNew('a', 1), objectNew('a', 2), objectNew('a', 3))
names = objectNew('0', 'zero', '1', 'one', '2', 'two')
dt = datetimeNew(2024, 3, 10)
out = arrayNew()
'''


def for_scripts(use, arr):
    def emit(x):
        if isinstance(x, list):
            return 'arrayNew(' + ', '.join(emit(y) for y in x) + ')'
        return lit_string(x) if isinstance(x, str) else lit_number(x)
    setup = FOR_SETUP + 'arr = ' + emit(arr) + '\n'
    loop = setup + f'for v, i in arr:\n    arrayPush(out, {use})\nendfor\n'
    ref = setup + ('n = arrayLength(arr)\ni = 0\nwhile i < n:\n    v = arrayGet(arr, i)\n'
                   f'    arrayPush(out, {use})\n    i = i + 1\nendwhile\n')
    return loop, ref


def run_for(source):
    bs = impl()[0]
    _CACHE['impl_called'] = True
    logs = []
    g = {}
    try:
        bs.execute_script(bs.parse_script(source), {'globals': g, 'logFn': logs.append, 'debug': True, 'maxStatements': 100000})
        how = 'value'
    except Exception as exc:  # pylint: disable=broad-exception-caught
        how = 'raise ' + type(exc).__name__
    fails, other = split_logs(logs)
    raw = canon([g.get('out'), [g.get('arr'), g.get('tgt'), g.get('rows'), g.get('names')], {}])
    return {'how': how, 'fails': fails, 'logs': other, 'state': zero_norm(raw), 'raw': raw}


def check_forindex(case, acc):
    use = USES[case['use']]
    arr = for_arrays(case['tier'])[case['arr']]
    loop, ref = for_scripts(use, arr)
    order = order_of(case)
    o_loop, o_ref = in_order(order, lambda: run_for(loop), lambda: run_for(ref))
    acc.evals += 2
    diff = compare(acc, o_ref, o_loop)
    if diff is not None:
        acc.violation(dict(case, order=order, source=loop, reference_source=ref), brief(o_ref), brief(o_loop),
                      f'for-loop index used in {use}: {diff} (loop with an explicit float index vs the for statement\'s int-seeded index; run order {order})')
    record(case, (obs_key(o_loop), obs_key(o_ref)))
    return o_loop, loop


def fam_forindex(arg):
    return two_orders('forindex', body_forindex, arg)


def body_forindex(arg):
    tier, uses = arg
    acc = Acc('forindex')
    arrs = for_arrays(tier)
    for u in uses:
        for a in range(len(arrs)):
            acc.cases += 1
            obs, loop = check_forindex({'tier': tier, 'use': u, 'arr': a}, acc)
            if arrs[a] and obs['how'] == 'value' and obs['fails'] < len(arrs[a]):
                acc.nontrivial += 1
            acc.outcome((u, a, obs['fails'], repr(obs['state'])[:120]))
            if a == 3:
                acc.sample({'source': loop, 'out': show(obs['state'][2][0])})
    return acc.result()


# ----------------------------------------------------------------------------------------------------------------
# Printing / serialising an integral number that sits next to adversarial strings; and parsing it back
# ----------------------------------------------------------------------------------------------------------------

PRINT_ALPHABET = ['\\', '"', '.', '0', ',', ']', 'a']
PRINT_ALPHABET_THOROUGH = PRINT_ALPHABET + ['e', '-', '}', ':', '5', ' ']
PRINT_NUMBERS = [3, -2, 999999999999999, 1]     # quick uses the first three, thorough all four
PRINT_SHAPES = ['[s1,n,s2]', '{s1:n,zz:s2}', '{a:s1,b:n,c:s2}', '[[s1,n],s2]', '[n,s1,s2]', '[s1,s2,n]']


def print_strings(tier):
    """'' and every string of length 1 and 2 over the alphabet (deterministic order)."""
    key = ('pstr', tier)
    if key not in _CACHE:
        al = PRINT_ALPHABET_THOROUGH if tier == 'thorough' else PRINT_ALPHABET
        _CACHE[key] = [''] + list(al) + [a + b for a in al for b in al]
    return _CACHE[key]


def print_numbers(tier):
    return PRINT_NUMBERS if tier == 'thorough' else PRINT_NUMBERS[:3]


def print_value(shape, s1, num, s2):
    if shape == 0:
        return [s1, num, s2]
    if shape == 1:
        return {s1: num, 'zz': s2}
    if shape == 2:
        return {'a': s1, 'b': num, 'c': s2}
    if shape == 3:
        return [[s1, num], s2]
    if shape == 4:
        return [num, s1, s2]
    return [s1, s2, num]


def _fn_expr(name, nargs):
    return {'function': {'name': name, 'args': [{'variable': f'v{i}'} for i in range(nargs)]}}


# (id, expression model over the globals v0 (the value) [, v1 ...], extra globals)
PRINTERS = [
    ('jsonStringify(v)', _fn_expr('jsonStringify', 1), {}),
    ('jsonStringify(v, 2)', _fn_expr('jsonStringify', 2), {'v1': 2}),
    ('stringNew(v)', _fn_expr('stringNew', 1), {}),
    ("'x' + v", {'binary': {'op': '+', 'left': {'string': 'x'}, 'right': {'variable': 'v0'}}}, {}),
    ("v + ''", {'binary': {'op': '+', 'left': {'variable': 'v0'}, 'right': {'string': ''}}}, {}),
    ("arrayJoin(arrayNew(v, v), '|')", {'function': {'name': 'arrayJoin', 'args': [
        {'function': {'name': 'arrayNew', 'args': [{'variable': 'v0'}, {'variable': 'v0'}]}}, {'string': '|'}]}}, {}),
    ("arrayJoin(v, ',')", {'function': {'name': 'arrayJoin', 'args': [{'variable': 'v0'}, {'string': ','}]}}, {}),
    ('systemLog(v)', _fn_expr('systemLog', 1), {}),
    ('systemLogDebug(v)', _fn_expr('systemLogDebug', 1), {}),
]
PRINT_LIB = ('jsonStringify', 'stringNew', 'arrayJoin', 'arrayNew', 'systemLog', 'systemLogDebug', 'dataTop', 'dataAggregate', 'jsonParse')


def print_eval(expr, glob):
    """-> (how, result (must be a string/null to be compared exactly), failure lines, other log lines)"""
    bs, funcs = impl()
    _CACHE['impl_called'] = True
    logs = []
    g = dict(glob)
    for n in PRINT_LIB:
        g[n] = funcs[n]
    try:
        res = bs.evaluate_expression(expr, {'globals': g, 'logFn': logs.append, 'debug': True, 'statementCount': 0}, None, False)
        how = 'value'
    except Exception as exc:  # pylint: disable=broad-exception-caught
        res = None
        how = 'raise ' + type(exc).__name__
    fails, other = split_logs(logs)
    return (how, res if res is None or isinstance(res, str) else zero_norm(canon(res)), fails, other)


GROUP_TOP = {'function': {'name': 'dataTop', 'args': [{'variable': 'v0'}, {'number': 1}, {'variable': 'v1'}]}}
GROUP_AGG = _fn_expr('dataAggregate', 2)


QUICK_SKIP = ("v + ''", 'systemLogDebug(v)')


def printers(tier):
    return PRINTERS if tier == 'thorough' else [p for p in PRINTERS if p[0] not in QUICK_SKIP]


def check_print(case, acc):
    """All printers and the two grouping functions for ONE value in its int and its float spelling."""
    strings = print_strings(case['tier'])
    shape, s1, s2, num = case['shape'], strings[case['s1']], strings[case['s2']], PRINT_NUMBERS[case['n']]
    order = order_of(case)
    case0 = case
    case = dict(case, order=order, value=show(print_value(shape, s1, num, s2)))
    bad = 0
    summary = []
    for pid, expr, extra in printers(case['tier']):
        o_int, o_flt = in_order(order, lambda: print_eval(expr, dict(extra, v0=print_value(shape, s1, int(num), s2))),  # pylint: disable=cell-var-from-loop
                                lambda: print_eval(expr, dict(extra, v0=print_value(shape, s1, float(num), s2))))  # pylint: disable=cell-var-from-loop
        summary.append((o_int, o_flt))
        acc.evals += 2
        if o_int != o_flt:
            bad += 1
            what = ('the printed text' if o_int[0] == o_flt[0] and o_int[2] == o_flt[2] and o_int[3] == o_flt[3]
                    else 'the logged text' if o_int[:3] == o_flt[:3] else 'success/failure')
            acc.violation(dict(case, printer=pid), {'how': o_int[0], 'result': show(o_int[1]), 'failed': o_int[2], 'logs': list(o_int[3])},
                          {'how': o_flt[0], 'result': show(o_flt[1]), 'failed': o_flt[2], 'logs': list(o_flt[3])},
                          f'{pid}: {what} differs between the number as int and as float (value {show(print_value(shape, s1, num, s2))!r})')
    # grouping by serialised category values: two rows that differ only in the spelling of n are ONE category
    if shape == 2:
        cats = ['a', 'b', 'c']
        ref = None
        grouped = {}
        for m in (range(4) if order == 'int-first' else range(3, -1, -1)):
            rows = [{'a': s1, 'b': float(num) if m & 1 else int(num), 'c': s2, 'w': 1}, {'a': s1, 'b': float(num) if m & 2 else int(num), 'c': s2, 'w': 1}]
            o_top = print_eval(GROUP_TOP, {'v0': rows, 'v1': list(cats)})
            o_agg = print_eval(GROUP_AGG, {'v0': rows, 'v1': {'categories': list(cats), 'measures': [{'field': 'w', 'function': 'count'}]}})
            acc.evals += 2
            grouped[m] = (o_top, o_agg)
        ref = grouped[0]
        for m in (1, 2, 3):
            if grouped[m] != ref:
                bad += 1
                acc.violation(dict(case, printer='dataTop/dataAggregate grouping', row_spellings=m), show(ref), show(grouped[m]),
                              'rows that differ only in the int/float spelling of a category value are grouped differently')
        summary.append(tuple(grouped[m] for m in range(4)))
    record(case0, tuple(summary))
    return bad


def print_nontrivial(s1, s2):
    return any(ch in s1 + s2 for ch in ('\\', '"')) or '.0' in s1 + s2 or (s1 + s2).endswith('.') or (s1 + s2).startswith('0')


def fam_print(arg):
    return two_orders('print', body_print, arg)


def body_print(arg):
    tier, firsts = arg
    acc = Acc('print')
    strings = print_strings(tier)
    for shape, i in firsts:
        for j in range(len(strings)):
            for k in range(len(print_numbers(tier))):
                acc.cases += 1
                bad = check_print({'tier': tier, 'shape': shape, 's1': i, 's2': j, 'n': k}, acc)
                if print_nontrivial(strings[i], strings[j]):
                    acc.nontrivial += 1
                acc.outcome((shape, len(strings[i]), len(strings[j]), k, bad))
        if i == 9:
            val = print_value(shape, strings[i], 3.0, strings[12])
            acc.sample({'value_with_float': show(val), 'jsonStringify': print_eval(PRINTERS[0][1], {'v0': val})[1],
                        'stringNew': print_eval(PRINTERS[2][1], {'v0': print_value(shape, strings[i], 3, strings[12])})[1]})
    return acc.result()


def json_quote(text):
    """Independent JSON string writer for the parse direction (only the alphabet's characters need care)."""
    out = '"'
    for ch in text:
        if ch in ('\\', '"'):
            out += '\\' + ch
        elif ch < ' ':
            out += f'\\u{ord(ch):04x}'
        else:
            out += ch
    return out + '"'


def parse_text(shape, s1, numtext, s2, spaced):
    sep, col = (', ', ': ') if spaced else (',', ':')
    if shape == 0:
        return '[' + json_quote(s1) + sep + numtext + sep + json_quote(s2) + ']'
    if shape == 1:
        return '{' + json_quote(s1) + col + numtext + sep + '"zz"' + col + json_quote(s2) + '}'
    if shape == 2:
        return '{"a"' + col + json_quote(s1) + sep + '"b"' + col + numtext + sep + '"c"' + col + json_quote(s2) + '}'
    if shape == 3:
        return '[[' + json_quote(s1) + sep + numtext + ']' + sep + json_quote(s2) + ']'
    if shape == 4:
        return '[' + numtext + sep + json_quote(s1) + sep + json_quote(s2) + ']'
    return '[' + json_quote(s1) + sep + json_quote(s2) + sep + numtext + ']'


PARSE_EXPR = _fn_expr('jsonParse', 1)


def check_parse(case, acc):
    """jsonParse of the text with the number written n and written n.0 (compact and spaced layout): equal values, and
    equal to the value the text denotes."""
    strings = print_strings(case['tier'])
    shape, s1, s2, num = case['shape'], strings[case['s1']], strings[case['s2']], PRINT_NUMBERS[case['n']]
    want = ('value', zero_norm(canon(print_value(shape, s1, num, s2))), 0, ())
    bad = 0
    order = order_of(case)
    summary = {}
    for spaced in (False, True):
        texts = (str(num), str(num) + '.0')
        for numtext in (texts if order == 'int-first' else texts[::-1]):
            text = parse_text(shape, s1, numtext, s2, spaced)
            got = print_eval(PARSE_EXPR, {'v0': text})
            summary[(spaced, numtext)] = got
            acc.evals += 1
            if got != want:
                bad += 1
                acc.violation(dict(case, order=order, text=text), {'how': want[0], 'value': show(want[1])}, {'how': got[0], 'value': show(got[1]), 'failed': got[2]},
                              f'jsonParse({text!r}) is not the value the text denotes (number written as {numtext})')
    record(case, tuple(sorted(summary.items())))
    return bad


def fam_parse(arg):
    return two_orders('parse', body_parse, arg)


def body_parse(arg):
    tier, firsts = arg
    acc = Acc('parse')
    strings = print_strings(tier)
    for shape, i in firsts:
        for j in range(len(strings)):
            for k in range(len(print_numbers(tier))):
                acc.cases += 1
                bad = check_parse({'tier': tier, 'shape': shape, 's1': i, 's2': j, 'n': k}, acc)
                if print_nontrivial(strings[i], strings[j]):
                    acc.nontrivial += 1
                acc.outcome((shape, len(strings[i]), len(strings[j]), k, bad))
        if i == 2:
            acc.sample({'text': parse_text(shape, strings[i], '3.0', strings[10], False)})
    return acc.result()


# ----------------------------------------------------------------------------------------------------------------

def families(tier):
    names = functions()
    n16 = len(pool16())
    per_fn = sum(n16 ** k for k in range(4)) + (len(pool8()) ** 4 if tier == 'thorough' else 0)
    bases = base_cases()
    nop = len(op_pool())
    op_shards = [(op, i) for op in BIN_OPS for i in range(nop)] + [(op, None) for op in UN_OPS]
    arrs = for_arrays(tier)
    nstr = len(print_strings(tier))
    pfirsts = [(sh, i) for sh in range(len(PRINT_SHAPES)) for i in range(nstr)]
    nprint = len(PRINT_SHAPES) * nstr * nstr * len(print_numbers(tier))
    grid = dt_grid(tier)
    both = ' - every case in both run orders of the spellings (int-first in the shard process, float-first in a fresh child)'
    fams = [
        Family('shallow', fam_shallow, [(tier, [n]) for n in names],
               f'{len(names)} functions x every argument tuple of arity 0..3 over a {n16}-value all-types pool'
               + (' + arity 4 over 8 values' if tier == 'thorough' else '') + ', int spelling vs float spelling',
               expected=len(names) * per_fn),
        Family('deep', fam_deep, split(bases, 32), f'{len(bases)} valid base tuples ({len(names) - len(_CACHE["no_base"])} functions) x all 2^k spellings of their k integral numbers'
               + (f'; without a base tuple, covered by `shallow` only: {_CACHE["no_base"]}' if _CACHE['no_base'] else '')
               + (f'; base tuples skipped because the function is gone: {_CACHE["gone"]}' if _CACHE['gone'] else ''),
               expected=sum(2 ** k for _, _, k in bases)),
        Family('script', fam_script, split(bases, 16), f'{len(bases)} base tuples printed as BareScript source vs the direct call with ints',
               expected=len(bases)),
        Family('ops', fam_ops, split(op_shards, 32), f'{len(BIN_OPS)} binary operators x all ordered pairs and {len(UN_OPS)} unary x all values of a '
               f'{nop}-value pool, four (two) int/float spellings each', expected=len(BIN_OPS) * nop * nop + len(UN_OPS) * nop),
        Family('forindex', fam_forindex, [(tier, u) for u in split(list(range(len(USES))), 16)],
               f'{len(USES)} uses of the for-loop index x {len(arrs)} iterated arrays', expected=len(USES) * len(arrs)),
        Family('print', fam_print, [(tier, f) for f in split(pfirsts, 64)],
               f'{len(printers(tier))} printers (+ dataTop/dataAggregate grouping) x {len(PRINT_SHAPES)} container shapes x {nstr}^2 strings (length <= 2 over '
               f'{len(PRINT_ALPHABET_THOROUGH if tier == "thorough" else PRINT_ALPHABET)} characters) x {len(print_numbers(tier))} numbers, int vs float', expected=nprint),
        Family('parse', fam_parse, [(tier, f) for f in split(pfirsts, 32)],
               f'jsonParse of {len(PRINT_SHAPES)} shapes x {nstr}^2 strings x {len(print_numbers(tier))} numbers, number written n and n.0, compact and spaced', expected=nprint),
        Family('variadic', fam_variadic, [(tier, f) for f in split(variadic_shards(tier), 30)],
               f'{VARIADIC} x every sequence of length 1..3 (stringFromCharCode; the others 1..{variadic_maxlen("mathMax", tier)}) over the {len(CODE_POOL)}-value code pool '
               f'{[hex(c) for c in CODE_POOL]} x all 2^k spellings (every position respelled independently)', expected=variadic_size(tier)),
        Family('dtgrid', fam_dtgrid, split(grid, 32), f'datetimeNew(2024, m, d, h, mi, s, ms) over the component grid {DT_GRID_THOROUGH if tier == "thorough" else DT_GRID} '
               f'({len(grid)} tuples) x all 2^7 spellings', expected=len(grid) * 128),
    ]
    for fam in fams:
        fam.bound += both
        fam.expected *= 2
    return fams


_CHECKS = {'shallow': check_shallow, 'deep': check_deep, 'script': check_script, 'ops': check_ops, 'forindex': check_forindex,
           'print': check_print, 'parse': check_parse, 'dtgrid': check_deep, 'variadic': check_deep}


def replay(family, case):
    if case.get('order') == 'cross':
        return cross_replay(_CHECKS[family], case)
    acc = Acc(family)
    _CHECKS[family](case, acc)
    res = acc.result()
    return {'differs': bool(res['nviol'] or res['nknown']), 'violations': res['violations'] + res['known_violations']}
