"""C11 Value comparison is a total preorder and every consumer agrees with it (DESIGN 4, C11)."""

import copy
import itertools

from ..common import canon, canon_flat, load_impl
from ..engine.shard import Acc, Family, split
from ..gen import pools
from ..ref import values as rv

LEVEL = 'exploration'
RULE = ('pool V = leaves of all nine types closed under arrays of length <= 2 and objects over keys {a,b} (depth 2); '
        'families: every ordered pair of V (reference order, antisymmetry, six operators, systemCompare, int/float '
        'spelling), every ordered triple of V (transitivity on the implementation matrix), every array of length <= 4 '
        'over a 10-value sub-pool (arraySort, mathMin, mathMax, arrayIndexOf, arrayLastIndexOf), every table of <= 3 '
        'rows (dataSort). A pair is non-trivial when it compares non-zero; a triple when a<=b<=c holds with at least '
        'one strict step; an array when it is not already sorted.')
ASSUMPTIONS = [
    'NaN is excluded (the property says non-NaN values)',
    'datetimes compare in the process time zone TZ=UTC fixed by the runner',
    'functions and regexes are each one equivalence class (A.1)',
]

OPS = ['==', '!=', '<', '<=', '>', '>=']
_CACHE = {}


def pool(tier):
    if ('pool', tier) in _CACHE:
        return _CACHE[('pool', tier)]
    leaves = pools.leaves_full()
    by = dict(leaves)
    small = [(k, by[k]) for k in ('null', 'false', '0', '1.0', '2', "'a'", "'b'", 'date', 'fnA')]
    v = pools.closed_pool(leaves, small)
    if tier == 'thorough':
        # depth 2 and 3 over a wider inner set: all ordered pairs of 14 chosen containers, and their wrappings
        names = ['[]', '[null]', '[0]', '[1.0]', "['a']", '[0,1.0]', '[1.0,0]', '{}', '{a:null}', '{a:1.0}', '{b:1.0}', '{a:0,b:1.0}', '[date]', '[fnA]']
        d = dict(v)
        inner = [(n, d[n]) for n in names]
        have = {lab for lab, _ in v}
        extra = []
        for la, a in inner:
            for lb, b in inner:
                extra.append((f'[{la},{lb}]', [a, b]))
                extra.append((f'{{a:{la},b:{lb}}}', {'a': a, 'b': b}))
            extra.append((f'[[{la}]]', [[a]]))
            extra.append((f'{{a:{{a:{la}}}}}', {'a': {'a': a}}))
            extra.append((f'[[{la}],1.0]', [[a], 1.0]))
        v = v + [(lab, val) for lab, val in extra if lab not in have]
    _CACHE[('pool', tier)] = v
    return v


def impl_compare(a, b):
    bs = load_impl()
    from bare_script.library import SCRIPT_FUNCTIONS  # pylint: disable=import-outside-toplevel,import-error
    return SCRIPT_FUNCTIONS['systemCompare']([a, b], None), bs


def matrix(tier):
    if ('m', tier) in _CACHE:
        return _CACHE[('m', tier)]
    load_impl()
    from bare_script.value import value_compare  # pylint: disable=import-outside-toplevel,import-error
    v = pool(tier)
    m = [[value_compare(a, b) for _, b in v] for _, a in v]
    _CACHE[('m', tier)] = m
    return m


def check_pair(case, acc):
    tier, i, j = case['tier'], case['i'], case['j']
    v = pool(tier)
    (la, a), (lb, b) = v[i], v[j]
    bs = load_impl()
    from bare_script.library import SCRIPT_FUNCTIONS  # pylint: disable=import-outside-toplevel,import-error
    from bare_script.value import value_compare  # pylint: disable=import-outside-toplevel,import-error
    case = dict(case, labels=[la, lb])
    exp = rv.compare(a, b)
    got = value_compare(a, b)
    acc.evals += 1
    if got not in (-1, 0, 1) or isinstance(got, bool):
        acc.violation(case, 'one of -1, 0, 1', got, 'value_compare result is not a sign')
        return exp
    if got != exp:
        acc.violation(case, exp, got, 'value_compare differs from the reference order')
    back = value_compare(b, a)
    if back != -got:
        acc.violation(case, -got, back, 'antisymmetry: compare(b,a) != -compare(a,b)')
    if i == j and got != 0:
        acc.violation(case, 0, got, 'reflexivity')
    sc = SCRIPT_FUNCTIONS['systemCompare']([a, b], None)
    if sc != got:
        acc.violation(case, got, sc, 'systemCompare disagrees with value_compare')
    # null least
    if a is None and b is not None and got != -1:
        acc.violation(case, -1, got, 'null is not least')
    # The six relational operators are the sign tests
    glob = {'va': a, 'vb': b}
    for op in OPS:
        expr = {'binary': {'op': op, 'left': {'variable': 'va'}, 'right': {'variable': 'vb'}}}
        res = bs.evaluate_expression(expr, {'globals': glob}, None, False)
        acc.evals += 1
        want = {'==': got == 0, '!=': got != 0, '<': got < 0, '<=': got <= 0, '>': got > 0, '>=': got >= 0}[op]
        if res is not want:
            acc.violation(dict(case, op=op), want, res, f'operator {op} is not the sign test of the comparison')
    # int / float spelling
    for which, x, y in (('left', a, b), ('right', b, a)):
        if isinstance(x, int) and not isinstance(x, bool) and abs(x) < 10 ** 15:
            alt = value_compare(float(x), y)
            ref = value_compare(x, y)
            if alt != ref:
                acc.violation(dict(case, spelled=which), ref, alt, 'int and float spelling of the same number compare differently')
    return got


def fam_pairs(arg):
    tier, rows = arg
    acc = Acc('pairs')
    n = len(pool(tier))
    for i in rows:
        for j in range(n):
            acc.cases += 1
            got = check_pair({'tier': tier, 'i': i, 'j': j}, acc)
            acc.outcome(got)
            if got != 0:
                acc.nontrivial += 1
            if i * 31 + j * 17 == (n * 7) % (n * 31 + 1):
                acc.sample({'pair': [pool(tier)[i][0], pool(tier)[j][0]], 'compare': got})
    if rows and rows[0] == 0:
        acc.sample({'pair': [pool(tier)[0][0], pool(tier)[1][0]], 'compare': -1})
    return acc.result()


def check_triple(case, acc):
    tier, i, j, k = case['tier'], case['i'], case['j'], case['k']
    m = matrix(tier)
    v = pool(tier)
    ab, bc, ac = m[i][j], m[j][k], m[i][k]
    case = dict(case, labels=[v[i][0], v[j][0], v[k][0]])
    if ab <= 0 and bc <= 0:
        if ac > 0:
            acc.violation(case, 'a<=c', ac, 'transitivity of <= fails')
        elif ab == 0 and bc == 0 and ac != 0:
            acc.violation(case, 0, ac, 'transitivity of == fails')
        elif (ab < 0 or bc < 0) and ac >= 0:
            acc.violation(case, -1, ac, 'a<=b<=c with a strict step but not a<c')


def fam_triples(arg):
    tier, rows = arg
    acc = Acc('triples')
    m = matrix(tier)
    n = len(m)
    for i in rows:
        mi = m[i]
        for j in range(n):
            ab = mi[j]
            mj = m[j]
            if ab > 0:
                acc.cases += n
                continue
            for k in range(n):
                acc.cases += 1
                bc = mj[k]
                if bc > 0:
                    continue
                ac = mi[k]
                if ab < 0 or bc < 0:
                    acc.nontrivial += 1
                    if ac >= 0:
                        check_triple({'tier': tier, 'i': i, 'j': j, 'k': k}, acc)
                elif ac != 0:
                    check_triple({'tier': tier, 'i': i, 'j': j, 'k': k}, acc)
        acc.outcome(tuple(mi))
    acc.evals = acc.cases
    if rows:
        v = pool(tier)
        acc.sample({'triple': [v[rows[0]][0], v[(rows[0] + 1) % n][0], v[(rows[0] + 2) % n][0]],
                    'matrix_entries': [m[rows[0]][(rows[0] + 1) % n], m[(rows[0] + 1) % n][(rows[0] + 2) % n], m[rows[0]][(rows[0] + 2) % n]]})
    return acc.result()


def subpool():
    by = dict(pools.leaves_full())
    return [(k, by[k]) for k in ('null', 'false', '0', '1', '1.0', '-1', "'a'", "'1'", 'date', 'dt0')] + []


def arrays_of(sub, maxlen):
    for n in range(maxlen + 1):
        for combo in itertools.product(range(len(sub)), repeat=n):
            yield combo


def check_array(case, acc):
    load_impl()
    from bare_script.library import SCRIPT_FUNCTIONS as F  # pylint: disable=import-outside-toplevel,import-error
    sub = subpool() + [('[1]', [1]), ('[]', [])] if case.get('wide') else subpool()
    idx = case['idx']
    arr = [sub[i][1] for i in idx]
    case = dict(case, labels=[sub[i][0] for i in idx])
    # arraySort: ordered permutation (identity multiset), in place, returns the same array
    work = list(arr)
    res = F['arraySort']([work], None)
    acc.evals += 1
    if res is not work:
        acc.violation(case, 'the passed array', canon(res), 'arraySort did not return the array it sorted')
        return
    if sorted(map(id, res)) != sorted(map(id, arr)):
        acc.violation(case, 'a permutation of the input', canon(res), 'arraySort result is not a permutation of the input (by identity)')
    for x, y in zip(res, res[1:]):
        if rv.compare(x, y) > 0:
            acc.violation(case, 'non-decreasing by the reference order', canon(res), 'arraySort result is not ordered')
            break
    # stability: equal elements keep their input order
    pos = {}
    for p, x in enumerate(arr):
        pos.setdefault(id(x), []).append(p)
    for x, y in zip(res, res[1:]):
        if rv.compare(x, y) == 0 and id(x) != id(y):
            if min(pos[id(x)]) > max(pos[id(y)]):
                acc.violation(case, 'stable order', canon(res), 'arraySort is not stable for equal elements')
                break
    if arr:
        mn = F['mathMin'](list(arr), None)
        mx = F['mathMax'](list(arr), None)
        acc.evals += 2
        if not any(mn is x for x in arr) and not any(canon(mn) == canon(x) for x in arr):
            acc.violation(case, 'an argument', canon(mn), 'mathMin result is not one of its arguments')
        elif any(rv.compare(x, mn) < 0 for x in arr):
            acc.violation(case, 'a least argument', canon(mn), 'mathMin result is not least')
        if not any(mx is x for x in arr) and not any(canon(mx) == canon(x) for x in arr):
            acc.violation(case, 'an argument', canon(mx), 'mathMax result is not one of its arguments')
        elif any(rv.compare(x, mx) > 0 for x in arr):
            acc.violation(case, 'a greatest argument', canon(mx), 'mathMax result is not greatest')
    # indexOf / lastIndexOf for every pool value
    for lv, val in sub:
        first = next((p for p, x in enumerate(arr) if rv.compare(x, val) == 0), -1)
        last = next((p for p in range(len(arr) - 1, -1, -1) if rv.compare(arr[p], val) == 0), -1)
        if callable(val):
            continue   # a function value is a predicate for arrayIndexOf
        if arr:
            g1 = F['arrayIndexOf']([list(arr), val], None)
            g2 = F['arrayLastIndexOf']([list(arr), val], None)
            acc.evals += 2
            if g1 != first:
                acc.violation(dict(case, value=lv), first, g1, 'arrayIndexOf is not the first index comparing equal')
            if g2 != last:
                acc.violation(dict(case, value=lv), last, g2, 'arrayLastIndexOf is not the last index comparing equal')


def fam_arrays(arg):
    tier, firsts = arg
    acc = Acc('arrays')
    sub = subpool()
    maxlen = 4 if tier == 'quick' else 5
    for first in firsts:
        for n in range(0, maxlen):
            for rest in itertools.product(range(len(sub)), repeat=n):
                idx = (first,) + rest
                acc.cases += 1
                check_array({'idx': list(idx)}, acc)
                arr = [sub[i][1] for i in idx]
                if any(rv.compare(x, y) > 0 for x, y in zip(arr, arr[1:])):
                    acc.nontrivial += 1
                acc.outcome(tuple(sorted(idx)))
        acc.sample({'array': [sub[i][0] for i in (first, (first + 3) % len(sub), (first + 7) % len(sub))]})
    if firsts and firsts[0] == 0:
        acc.cases += 1
        check_array({'idx': []}, acc)
    return acc.result()


CELLS = [('absent', None), ('null', None), ('1', 1), ('2.0', 2.0), ("'x'", 'x'), ('true', True)]


def build_table(cells):
    rows = []
    for ca, cb in cells:
        row = {}
        if ca != 0:
            row['a'] = CELLS[ca][1]
        if cb != 0:
            row['b'] = CELLS[cb][1]
        rows.append(row)
    return rows


SORT_SPECS = [
    [['a']], [['a', True]], [['a', False]], [['b']], [['b', True]],
    [['a'], ['b']], [['a', True], ['b']], [['a'], ['b', True]], [['a', True], ['b', True]], [['b'], ['a']], [['b', True], ['a', True]],
]


def ref_row_cmp(spec, r1, r2):
    for s in spec:
        f = s[0]
        desc = s[1] if len(s) > 1 else False
        c = rv.compare(r1.get(f), r2.get(f))
        if desc:
            c = -c
        if c:
            return c
    return 0


def check_table(case, acc):
    load_impl()
    from bare_script.library import SCRIPT_FUNCTIONS as F  # pylint: disable=import-outside-toplevel,import-error
    rows = build_table(case['cells'])
    for si, spec in enumerate(SORT_SPECS):
        work = [dict(r) for r in rows]
        ids = [id(r) for r in work]
        res = F['dataSort']([work, copy.deepcopy(spec)], None)
        acc.evals += 1
        c2 = dict(case, spec=spec)
        if not isinstance(res, list) or sorted(map(id, res)) != sorted(ids):
            acc.violation(c2, 'a permutation of the rows', canon_flat(res), 'dataSort result is not a permutation of the input rows')
            continue
        order = [ids.index(id(r)) for r in res]
        for p, q in zip(order, order[1:]):
            c = ref_row_cmp(spec, rows[p], rows[q])
            if c > 0 or (c == 0 and p > q):
                acc.violation(c2, 'stably ordered by the keys and directions', order, 'dataSort order is wrong or unstable')
                break
        acc.outcome((si, tuple(order)))


def fam_tables(arg):
    tier, firsts = arg
    acc = Acc('tables')
    nrows = 3 if tier == 'quick' else 4
    cellpairs = list(itertools.product(range(len(CELLS)), repeat=2))
    for first in firsts:
        for n in range(0, nrows):
            for rest in itertools.product(cellpairs, repeat=n):
                cells = [list(cellpairs[first])] + [list(r) for r in rest]
                acc.cases += 1
                check_table({'cells': cells}, acc)
                if len(cells) > 1:
                    acc.nontrivial += 1
        acc.sample({'table': build_table([list(cellpairs[first]), list(cellpairs[(first * 5 + 3) % len(cellpairs)])]), 'specs': len(SORT_SPECS)})
    return acc.result()


def families(tier):
    n = len(pool(tier))
    rows = list(range(n))
    nsub = len(subpool())
    maxlen = 4 if tier == 'quick' else 5
    ncp = len(CELLS) ** 2
    nrows = 3 if tier == 'quick' else 4
    return [
        Family('pairs', fam_pairs, [(tier, r) for r in split(rows, 32)], f'all ordered pairs of the {n}-value pool', expected=n * n),
        Family('triples', fam_triples, [(tier, r) for r in split(rows, 64)], f'all ordered triples of the {n}-value pool', expected=n ** 3),
        Family('arrays', fam_arrays, [(tier, r) for r in split(list(range(nsub)), 10)],
               f'every array of length <= {maxlen} over a {nsub}-value sub-pool', expected=sum(nsub ** k for k in range(maxlen + 1))),
        Family('tables', fam_tables, [(tier, r) for r in split(list(range(ncp)), 36)],
               f'every table of 1..{nrows} rows over fields a,b with cells from {len(CELLS)} values x {len(SORT_SPECS)} sort specs',
               expected=sum(ncp ** k for k in range(1, nrows + 1))),
    ]


_CHECKS = {'pairs': check_pair, 'triples': check_triple, 'arrays': check_array, 'tables': check_table}


def replay(family, case):
    acc = Acc(family)
    _CHECKS[family](case, acc)
    res = acc.result()
    return {'differs': bool(res['nviol'] or res['nknown']), 'violations': res['violations'] + res['known_violations']}
