"""C05 Runtime errors are contained: only documented exceptions escape (DESIGN 4, C05).

Invariants over exhaustively enumerated adversarial inputs; no reference model:
  * the outcome of execute_script / evaluate_expression is a BareScript value (canonical form without a 'host'
    component) or BareScriptRuntimeError or BareScriptParserError - never another exception class;
  * a library/host call that failed evaluates to null or the function's documented failure value, is reported by
    exactly one `BareScript: Function "<name>" failed with error:` line in debug mode, and the next statement runs.
"""

import copy
import datetime
import decimal
import itertools
import json
import math
import os
import re
import resource
import uuid

from ..common import HarnessError, canon, has_host, is_failure_line, load_impl
from ..engine.shard import Acc, Family, split

LEVEL = 'exploration'
RULE = ('(ops) 14 binary operators x all ordered pairs and 2 unary x all values of a 26-value adversarial pool (zeros, '
        'huge/tiny floats, inf/nan, a 401-digit int, 2^53+1, small ints, true, datetimes at both ends of the range, an array '
        'holding inf, a self-containing array, strings, null) in four contexts: evaluate_expression, top-level statement, '
        'inside a script function, as argument of a library call; (lib) every function of SCRIPT_FUNCTIONS except '
        'clock/random (systemFetch with three in-memory fetchFn behaviours) x every argument tuple of arity 0..3 over a '
        '15-value all-types pool (arity 4 over 8 values in thorough) called from a parsed script in debug mode followed by '
        'a sentinel systemLog, and once directly to learn independently whether the call fails; (programs) seven structured '
        'templates (if/else, for, while, for over the operand itself, function with conditional return, if(), &&/||) x 14 '
        'operators x all ordered pairs of the pool; (models) hand-built schema-valid models: every library function called '
        'without an args member, script functions without args / with empty bodies / lastArgArray, non-function values in '
        'call position (global and local), unknown labels, includes with failing fetchFn, statement budget; (pow_int) the '
        'int ** int pairs whose exact result is astronomically large, in the four contexts, each in a forked child under a CPU '
        'and memory guard; (growth) eight 40-statement loops that double a string/int/array per statement, same guard; '
        '(chains, thorough only) (va op1 vb) op2 vc for all 14^2 operator pairs and all ordered triples of the pool. '
        'A case is non-trivial when an error was actually contained or raised: an operator on two non-null operands that '
        'evaluated to null, a library call that failed, a model that raised a documented exception.')
ASSUMPTIONS = [
    'inf and nan floats are numbers (BareScript values); arbitrary-precision ints are numbers',
    'a failed call may evaluate to null or to the documented failure value (the property allows both)',
    'failure values: -1 arrayIndexOf/arrayLastIndexOf/stringIndexOf/stringLastIndexOf, 0 arrayLength/stringLength, false objectHas, '
    'the supplied default for objectGet, null otherwise (from the $return doc comments)',
    'a call "failed" iff the direct call of the function object raises an exception other than BareScriptRuntimeError',
    'host callbacks raising BareScriptRuntimeError are documented behaviour; the pool callback raises KeyError',
    'options other than globals (logFn, fetchFn) are well-typed callables; fetchFn may return text, None or raise',
    'expressions nested deeper than the Python recursion limit are outside the bounds (parse_script already refuses them with RecursionError)',
    'pow_int: "no result within 3 s CPU / 256 MiB" is reported as a violation (the computation ends in MemoryError, which is not handled)',
]

FAIL_VALUES = {'arrayIndexOf': -1, 'arrayLastIndexOf': -1, 'stringIndexOf': -1, 'stringLastIndexOf': -1, 'arrayLength': 0,
               'stringLength': 0, 'objectHas': False}
EXCLUDED = ('datetimeNow', 'datetimeToday', 'mathRandom')
BIN_OPS = ['**', '*', '/', '%', '+', '-', '<=', '<', '>=', '>', '==', '!=', '&&', '||']
UN_OPS = ['-', '!']
SENTINEL = 'after'
_CACHE = {}


def impl():
    if 'impl' not in _CACHE:
        bs = load_impl()
        from bare_script.library import SCRIPT_FUNCTIONS  # pylint: disable=import-outside-toplevel,import-error
        _CACHE['impl'] = (bs, SCRIPT_FUNCTIONS)
    return _CACHE['impl']


# ----------------------------------------------------------------------------------------------------------------
# Pools
# ----------------------------------------------------------------------------------------------------------------

BIG401 = int('9' * 401)
DT_MAX = datetime.datetime(9999, 12, 31, 23, 59, 59, 999000)
DT_MIN = datetime.datetime(100, 1, 1)


# host datetime kinds: a date, a naive datetime, aware datetimes in two offsets (same instant as the naive one under TZ=UTC, and another instant)
TZ_P2 = datetime.timezone(datetime.timedelta(hours=2))
TZ_M5 = datetime.timezone(datetime.timedelta(hours=-5))
D_DATE = datetime.date(2024, 3, 10)
D_NAIVE = datetime.datetime(2024, 3, 10)
D_AWARE_P2 = datetime.datetime(2024, 3, 10, 2, 0, 0, tzinfo=TZ_P2)
D_AWARE_M5 = datetime.datetime(2024, 3, 9, 19, 0, 0, tzinfo=TZ_M5)
D_AWARE_LATER = datetime.datetime(2025, 1, 1, 12, 30, 0, 5000, tzinfo=TZ_M5)


def cb_raise(args, options):  # pylint: disable=unused-argument
    raise KeyError('boom')


def selfarr():
    s = [1]
    s.append(s)
    return s


def odd_dict():
    return {(0, 0): 'o', 1: 'x', 'k': 'y'}


def pool_a():
    """Adversarial operand pool (labels are stable identifiers). Built fresh: it holds mutable members."""
    return [
        ('null', None), ('0', 0.0), ('-0.0', -0.0), ('1', 1.0), ('-1', -1.0), ('0.5', 0.5), ('-8', -8.0), ('2', 2.0), ('1000', 1000.0),
        ('1e+308', 1e308), ('5e-324', 5e-324), ('inf', math.inf), ('nan', math.nan), ('big401', BIG401), ('2^53+1', 2 ** 53 + 1),
        ('int0', 0), ('int2', 2), ('int-8', -8), ('int1000', 1000), ('true', True), ('dt9999', DT_MAX), ('dt0100', DT_MIN),
        ('[inf]', [math.inf]), ('selfarr', selfarr()), ("''", ''), ("'a'", 'a'),
        ('date', D_DATE), ('naive', D_NAIVE), ('aware+2', D_AWARE_P2), ('aware-5', D_AWARE_M5), ('aware-later', D_AWARE_LATER),
        # fractional exponents on both sides of 1 and -1, and two more negative bases (|b| < 1 and |b| huge)
        ('1.5', 1.5), ('-1.5', -1.5), ('2.5', 2.5), ('-0.5', -0.5), ('-0.25', -0.25), ('-1e+10', -1e10),
        # a host dict that is not JSON-like: a tuple key and mixed key types (its values are BareScript values)
        ('{(0,0):o,1:x,k:y}', odd_dict()),
    ]


def pool_lib():
    return [
        ('null', None), ('true', True), ('0', 0), ('1', 1.0), ('-1', -1), ('1000', 1000), ('nan', math.nan), ("''", ''), ("'a'", 'a'),
        ('dt9999', DT_MAX), ("[inf,'a']", [math.inf, 'a']), ('selfarr', selfarr()), ('{a:1}', {'a': 1}), ('fnRaise', cb_raise), ('re', re.compile('a')),
        ('date', D_DATE), ('aware+2', D_AWARE_P2), ('aware-later', D_AWARE_LATER), ('[dt kinds]', [D_NAIVE, D_AWARE_LATER, D_DATE, D_AWARE_P2, DT_MAX]),
        ('{(0,0):o,1:x,k:y}', odd_dict()),
    ]


def pool_lib8():
    return [('null', None), ('0', 0), ('1', 1.0), ('nan', math.nan), ("'a'", 'a'), ('selfarr', selfarr()), ('{a:1}', {'a': 1}), ('fnRaise', cb_raise)]


N_A = 38
N_LIB = 20
N_LIB8 = 8


def is_int(v):
    return isinstance(v, int) and not isinstance(v, bool)


def pow_hangs(a, b):
    """int ** int whose exact result has more than ~2^32 bits: computed exactly by the host, never returns in bounded
    time. Delegated to the guarded family pow_int."""
    return is_int(a) and is_int(b) and abs(a) >= 2 and b.bit_length() > 32


def label_of(v):
    if is_int(v) and v.bit_length() > 64:
        return f'<int of {v.bit_length()} bits>'
    try:
        return repr(v)[:60]
    except Exception:  # pylint: disable=broad-exception-caught
        return f'<{type(v).__name__}>'


# ----------------------------------------------------------------------------------------------------------------
# Outcome classification
# ----------------------------------------------------------------------------------------------------------------

def run_guarded(thunk):
    """-> ('value', raw) | ('doc', class name) | ('host-exc', class name, message)"""
    bs = impl()[0]
    try:
        return ('value', thunk())
    except (bs.BareScriptRuntimeError, bs.BareScriptParserError) as exc:
        return ('doc', type(exc).__name__)
    except Exception as exc:  # pylint: disable=broad-exception-caught
        try:
            text = str(exc)[:120]
        except Exception:  # pylint: disable=broad-exception-caught
            text = '<str() of the exception raises>'
        return ('host-exc', type(exc).__name__, text)


def value_kind(v):
    """Small, always printable digest of a raw value."""
    if v is None:
        return 'null'
    if isinstance(v, bool):
        return 'boolean'
    if is_int(v):
        return 'int' if v.bit_length() <= 64 else 'bigint'
    if isinstance(v, float):
        return 'nan' if math.isnan(v) else 'inf' if math.isinf(v) else 'float'
    return type(v).__name__


def check_outcome(out, case, acc, what, strict=True):
    """The containment invariant. Returns True if it holds. strict=False: the inputs themselves hold host values, which
    a result may hand back - only the exception half of the invariant is checked."""
    if out[0] == 'host-exc':
        acc.violation(case, 'a BareScript value, BareScriptRuntimeError or BareScriptParserError', f'{out[1]}: {out[2]}',
                      f'{what}: the host exception {out[1]} escapes')
        return False
    if out[0] == 'value' and strict:
        try:
            host = has_host(canon(out[1]))
        except RecursionError:
            host = False
        if host:
            acc.violation(case, 'a BareScript value', f'host value of type {type(out[1]).__name__}: {label_of(out[1])}',
                          f'{what}: the result is not a BareScript value')
            return False
    return True


# ----------------------------------------------------------------------------------------------------------------
# Family ops
# ----------------------------------------------------------------------------------------------------------------

CONTEXTS = ['expr', 'top', 'func', 'arg']


def op_script(op, ctx, unary):
    key = ('ops', op, ctx, unary)
    if key not in _CACHE:
        bs = impl()[0]
        e = f'{op}va' if unary else f'va {op} vb'
        ef = f'{op}xx' if unary else f'xx {op} yy'
        if ctx == 'top':
            src = f"rr = {e}\nsystemLog('{SENTINEL}')\nreturn rr\n"
        elif ctx == 'func':
            src = f"function ff(xx, yy):\n    zz = {ef}\n    return zz\nendfunction\nrr = ff(va, vb)\nsystemLog('{SENTINEL}')\nreturn rr\n"
        else:
            src = f"rr = arrayNew({e}, 1)\nsystemLog('{SENTINEL}')\nreturn rr\n"
        _CACHE[key] = (src, bs.parse_script(src))
    return _CACHE[key]


def ops_thunk(case, logs):
    """-> (thunk evaluating the case with the real interpreter, source text or None, private operand values)"""
    bs = impl()[0]
    pool = pool_a()
    op, ctx, idx = case['op'], case['ctx'], case['idx']
    unary = len(idx) == 1
    vals = copy.deepcopy(tuple(pool[i][1] for i in idx))
    g = {'va': vals[0], 'vb': vals[1] if not unary else None}
    options = {'globals': g, 'logFn': logs.append, 'debug': True, 'maxStatements': 1000}
    if ctx == 'expr':
        if unary:
            expr = {'unary': {'op': op, 'expr': {'variable': 'va'}}}
        else:
            expr = {'binary': {'op': op, 'left': {'variable': 'va'}, 'right': {'variable': 'vb'}}}
        return (lambda: bs.evaluate_expression(expr, options, None, False)), None, vals
    source, model = op_script(op, ctx, unary)
    return (lambda: bs.execute_script(model, options)), source, vals


def check_ops(case, acc):
    pool = pool_a()
    op, ctx, idx = case['op'], case['ctx'], case['idx']
    unary = len(idx) == 1
    case = dict(case, labels=[pool[i][0] for i in idx])
    if not unary and op == '**' and pow_hangs(pool[idx[0]][1], pool[idx[1]][1]):
        acc.pruned += 1     # run by the guarded family pow_int instead
        return 'pruned'
    logs = []
    thunk, source, vals = ops_thunk(case, logs)
    out = run_guarded(thunk)
    acc.evals += 1
    what = f'operator {op} on ({", ".join(case["labels"])}) in context {ctx}'
    if source:
        case['source'] = source
    if not check_outcome(out, case, acc, what):
        return 'violation'
    if out[0] == 'value':
        if ctx != 'expr' and (not logs or logs[-1] != SENTINEL):
            acc.violation(case, f'the statement after the operation runs (logs end with {SENTINEL!r})', [str(x)[:80] for x in logs[-3:]],
                          f'{what}: execution did not continue with the next statement')
            return 'violation'
        raw = out[1]
        if ctx == 'arg':
            raw = raw[0] if isinstance(raw, list) and raw else raw
        if raw is None and all(v is not None for v in vals):
            acc.nontrivial += 1
        return value_kind(raw)
    return out[0] + ':' + out[1]


def fam_ops(arg):
    acc = Acc('ops')
    for op, i in arg:
        for ctx in CONTEXTS:
            if i is None:
                for u in range(N_A):
                    acc.cases += 1
                    acc.outcome((op, 'unary', check_ops({'op': op, 'ctx': ctx, 'idx': [u]}, acc)))
                continue
            for j in range(N_A):
                acc.cases += 1
                kind = check_ops({'op': op, 'ctx': ctx, 'idx': [i, j]}, acc)
                acc.outcome((op, kind))
                if ctx == 'func' and j == 1 and i in (3, 13):
                    acc.sample({'operator': op, 'context': ctx, 'operands': [pool_a()[i][0], pool_a()[j][0]], 'outcome': kind,
                                'source': op_script(op, ctx, False)[0]})
    return acc.result()


# ----------------------------------------------------------------------------------------------------------------
# Family chains (thorough): (va op1 vb) op2 vc - intermediate results (big ints, inf, nan, null, shifted datetimes,
# concatenations) as operands
# ----------------------------------------------------------------------------------------------------------------

def check_chains(case, acc):
    bs = impl()[0]
    pool = pool_a()
    op1, op2 = case['ops']
    idx = case['idx']
    vals = copy.deepcopy(tuple(pool[i][1] for i in idx))
    case = dict(case, labels=[pool[i][0] for i in idx])
    if op1 == '**' and pow_hangs(vals[0], vals[1]):
        acc.pruned += 1
        return 'pruned'
    g = {'va': vals[0], 'vb': vals[1], 'vc': vals[2]}
    inner = {'binary': {'op': op1, 'left': {'variable': 'va'}, 'right': {'variable': 'vb'}}}
    what = f'expression (va {op1} vb) {op2} vc on ({", ".join(case["labels"])})'
    if op2 == '**':
        first = run_guarded(lambda: bs.evaluate_expression(inner, {'globals': g}, None, False))
        acc.evals += 1
        if not check_outcome(first, case, acc, what + ', inner operation'):
            return 'violation'
        if first[0] == 'value' and pow_hangs(first[1], vals[2]):
            acc.pruned += 1
            return 'pruned'
    expr = {'binary': {'op': op2, 'left': {'group': inner}, 'right': {'variable': 'vc'}}}
    out = run_guarded(lambda: bs.evaluate_expression(expr, {'globals': g}, None, False))
    acc.evals += 1
    if not check_outcome(out, case, acc, what):
        return 'violation'
    if out[0] == 'value':
        if out[1] is None and all(v is not None for v in vals):
            acc.nontrivial += 1
        return value_kind(out[1])
    return out[0] + ':' + out[1]


def fam_chains(arg):
    acc = Acc('chains')
    for op1, i in arg:
        for op2 in BIN_OPS:
            for j in range(N_A):
                for k in range(N_A):
                    acc.cases += 1
                    kind = check_chains({'ops': [op1, op2], 'idx': [i, j, k]}, acc)
                    acc.outcome((op1, op2, kind))
        acc.sample({'expression': f'(va {op1} vb) / vc', 'operands': [pool_a()[i][0], 'int1000', 'int0'],
                    'outcome': check_chains({'ops': [op1, '/'], 'idx': [i, 18, 15]}, Acc('chains'))})
    return acc.result()


# ----------------------------------------------------------------------------------------------------------------
# Family lib
# ----------------------------------------------------------------------------------------------------------------

def fetch_text(request):  # pylint: disable=unused-argument
    return 'text'


def fetch_none(request):  # pylint: disable=unused-argument
    return None


def fetch_raise(request):
    raise OSError('no network: ' + str(request.get('url'))[:20])


FETCHERS = {'text': fetch_text, 'none': fetch_none, 'raise': fetch_raise}


def lib_functions():
    """Function ids: library names, systemFetch three times (one per fetchFn behaviour)."""
    names = []
    for n in sorted(impl()[1]):
        if n in EXCLUDED:
            continue
        if n == 'systemFetch':
            names.extend(f'systemFetch:{k}' for k in ('text', 'none', 'raise'))
        else:
            names.append(n)
    return names


def lib_script(name, arity):
    key = ('lib', name, arity)
    if key not in _CACHE:
        bs = impl()[0]
        src = f"rr = {name}({', '.join(f'v{i}' for i in range(arity))})\nsystemLog('{SENTINEL}')\nreturn rr\n"
        _CACHE[key] = (src, bs.parse_script(src))
    return _CACHE[key]


def same_value(a, b):
    try:
        return canon(a) == canon(b)
    except RecursionError:
        return a is b


def check_lib(case, acc):
    bs, funcs = impl()
    pool = pool_lib() if case['pool'] == 'P20' else pool_odd() if case['pool'] == 'ODD' else pool_lib8()
    debug = case.get('debug', True)
    # results may legitimately hand back a host value that came in with the arguments (the ODD pool; the keys of the odd dict)
    strict = case['pool'] != 'ODD' and not any(pool[i][0].startswith('{(0,0)') for i in case['idx'])
    fid = case['fn']
    name, _, mode = fid.partition(':')
    idx = case['idx']
    case = dict(case, labels=[pool[i][0] for i in idx])
    base = tuple(pool[i][1] for i in idx)
    what = f'{name}({", ".join(case["labels"])})' + (f' with fetchFn behaviour {mode}' if mode else '')

    # (1) through a parsed script, debug mode, sentinel
    args = copy.deepcopy(base)
    logs = []
    g = {f'v{i}': a for i, a in enumerate(args)}
    options = {'globals': g, 'logFn': logs.append, 'debug': debug, 'maxStatements': 1000}
    if mode:
        options['fetchFn'] = FETCHERS[mode]
    source, model = lib_script(name, len(idx))
    out = run_guarded(lambda: bs.execute_script(model, options))
    acc.evals += 1
    case['source'] = source
    if not check_outcome(out, case, acc, what, strict):
        return 'violation'

    # (2) independently: does the call itself fail?  (direct call of the function object, fresh copy, no wrapper)
    args2 = list(copy.deepcopy(base))
    own = []     # lines the function itself logs (systemFetch reports an unavailable resource): not call-wrapper reports
    opt2 = {'globals': {}, 'logFn': own.append, 'debug': True, 'statementCount': 0}
    if mode:
        opt2['fetchFn'] = FETCHERS[mode]
    direct = run_guarded(lambda: funcs[name](args2, opt2))
    acc.evals += 1
    # the call wrapper re-raises BareScriptRuntimeError only; everything else (also a BareScriptParserError raised by
    # parse_expression inside a data function) is a failed call
    failed = direct[0] == 'host-exc' or (direct[0] == 'doc' and direct[1] != 'BareScriptRuntimeError')

    nfail = sum(1 for line in logs if is_failure_line(line, name)) - sum(1 for line in own if is_failure_line(line, name))
    if not debug:
        nfail = 1 if failed else 0      # nothing is demanded of the log when debug is off
    if out[0] == 'doc':
        return 'doc:' + out[1]
    if not logs or logs[-1] != SENTINEL:
        acc.violation(case, f'the statement after the call runs (logs end with {SENTINEL!r})', [str(x)[:80] for x in logs[-3:]],
                      f'{what}: execution did not continue after the call')
        return 'violation'
    if failed:
        acc.nontrivial += 1
        if nfail != 1:
            acc.violation(case, 'exactly one failure line through logFn in debug mode', f'{nfail} line(s); the direct call raises {direct[1]}',
                          f'{what}: the failed call was reported {nfail} times')
            return 'violation'
        res = out[1]
        if name == 'objectGet' and len(idx) >= 3:
            allowed = [None, g.get('v2')]
            doc = 'null or the supplied default'
        else:
            fv = FAIL_VALUES.get(name)
            allowed = [None, fv]
            doc = 'null' if fv is None else f'null or {json.dumps(fv)}'
        ok = any((res is a) if (a is None or isinstance(a, bool)) else (not isinstance(res, bool) and same_value(res, a)) for a in allowed)
        if not ok:
            acc.violation(case, doc, f'{value_kind(res)} {label_of(res)}', f'{what}: the failed call evaluated to something other than its failure value')
            return 'violation'
        return 'failed:' + direct[1]
    if nfail != 0:
        acc.violation(case, 'no failure line (the direct call succeeds)', f'{nfail} line(s)', f'{what}: a successful call was reported as failed')
        return 'violation'
    return 'ok:' + value_kind(out[1])


def fam_lib(arg):
    tier, fids = arg
    acc = Acc('lib')
    for fid in fids:
        sampled = False
        for arity in range(4):
            for idx in itertools.product(range(N_LIB), repeat=arity):
                acc.cases += 1
                kind = check_lib({'fn': fid, 'pool': 'P20', 'idx': list(idx)}, acc)
                acc.outcome((fid, kind))
                if not sampled and arity == 2 and kind.startswith('failed:') and idx[0] >= 5:
                    sampled = True
                    acc.sample({'call': fid, 'args': [pool_lib()[i][0] for i in idx], 'outcome': kind})
        if tier == 'thorough':
            for idx in itertools.product(range(N_LIB8), repeat=4):
                acc.cases += 1
                acc.outcome((fid, check_lib({'fn': fid, 'pool': 'P8', 'idx': list(idx)}, acc)))
    return acc.result()


# ----------------------------------------------------------------------------------------------------------------
# Family programs (structured control flow with adversarial operands)
# ----------------------------------------------------------------------------------------------------------------

def templates():
    s = f"systemLog('{SENTINEL}')\nreturn rr\n"
    return [
        ('if-else', 'if va OP vb:\n    rr = 1\nelse:\n    rr = 2\nendif\n' + s, 'ab'),
        ('for-pair', 'rr = 0\nfor xx in arrayNew(va, vb):\n    rr = xx OP va\nendfor\n' + s, 'aa,ba'),
        ('while-acc', 'cnt = 0\nrr = va\nwhile cnt < 2:\n    rr = rr OP vb\n    cnt = cnt + 1\nendwhile\n' + s, 'nopow'),
        ('for-operand', 'rr = 0\nfor xx, ix in va:\n    rr = xx OP vb\n    if ix >= 3:\n        break\n    endif\nendfor\n' + s, 'elems'),
        ('func-cond', 'function ff(xx, yy):\n    if xx OP yy:\n        return xx\n    endif\n    return yy\nendfunction\nrr = ff(va, vb)\n' + s, 'ab'),
        ('if-builtin', 'rr = if(va OP vb, va, vb)\n' + s, 'ab'),
        ('and-or', 'rr = arrayNew((va OP vb) && vb, !(va OP vb) || va)\n' + s, 'ab'),
    ]


def prog_model(t, op):
    key = ('prog', t, op)
    if key not in _CACHE:
        bs = impl()[0]
        src = templates()[t][1].replace('OP', op)
        _CACHE[key] = (src, bs.parse_script(src))
    return _CACHE[key]


def prog_pruned(rule, op, a, b):
    if op != '**':
        return False
    if rule == 'nopow':
        return True
    if rule == 'ab':
        return pow_hangs(a, b)
    if rule == 'aa,ba':
        return pow_hangs(a, a) or pow_hangs(b, a)
    return isinstance(a, list) and any(pow_hangs(x, b) for x in a)


def check_programs(case, acc):
    bs = impl()[0]
    pool = pool_a()
    t, op, idx = case['t'], case['op'], case['idx']
    name, _, rule = templates()[t]
    vals = copy.deepcopy(tuple(pool[i][1] for i in idx))
    case = dict(case, labels=[pool[i][0] for i in idx], template=name)
    if prog_pruned(rule, op, vals[0], vals[1]):
        acc.pruned += 1
        return 'pruned'
    source, model = prog_model(t, op)
    case['source'] = source
    logs = []
    options = {'globals': {'va': vals[0], 'vb': vals[1]}, 'logFn': logs.append, 'debug': True, 'maxStatements': 1000}
    out = run_guarded(lambda: bs.execute_script(model, options))
    acc.evals += 1
    what = f'program {name} with operator {op} on ({", ".join(case["labels"])})'
    if not check_outcome(out, case, acc, what):
        return 'violation'
    if out[0] == 'value':
        if not logs or logs[-1] != SENTINEL:
            acc.violation(case, f'the program runs to its last statement (logs end with {SENTINEL!r})', [str(x)[:80] for x in logs[-3:]],
                          f'{what}: execution did not reach the sentinel')
            return 'violation'
        if len(logs) > 1:
            acc.nontrivial += 1    # some call inside the program failed and was contained (e.g. arrayLength of a non-array)
        return value_kind(out[1])
    acc.nontrivial += 1
    return out[0] + ':' + out[1]


def fam_programs(arg):
    acc = Acc('programs')
    for t, op, i in arg:
        for j in range(N_A):
            acc.cases += 1
            kind = check_programs({'t': t, 'op': op, 'idx': [i, j]}, acc)
            acc.outcome((t, op, kind))
            if i == 22 and j == 3 and op in ('/', '<'):
                acc.sample({'source': prog_model(t, op)[0], 'operands': [pool_a()[i][0], pool_a()[j][0]], 'outcome': kind})
    return acc.result()


# ----------------------------------------------------------------------------------------------------------------
# Family models (hand-built, schema-valid)
# ----------------------------------------------------------------------------------------------------------------

def _num(n):
    return {'number': n}


def _var(n):
    return {'variable': n}


def _call(name, args=None):
    f = {'name': name}
    if args is not None:
        f['args'] = args
    return {'function': f}


def _sentinel():
    return {'expr': {'expr': _call('systemLog', [{'string': SENTINEL}])}}


NONFUNC = [('number', 5), ('float', 0.5), ('string', 'str'), ('array', [1]), ('object', {'a': 1}), ('true', True), ('false', False),
           ('datetime', DT_MAX), ('regex', re.compile('a')), ('nan', math.nan), ('selfarr', None)]


def model_cases():
    """Deterministic list of (label, model, options-extras, expectation). The expectation ('value', 'runtime', 'parser',
    'any') documents what the model is meant to exercise; it is never used as an oracle."""
    if 'models' in _CACHE:
        return _CACHE['models']
    out = []
    out.append(('empty script', {'statements': []}, {}, 'value'))
    out.append(('return without expr', {'statements': [{'return': {}}]}, {}, 'value'))
    out.append(('expr statement without name', {'statements': [{'expr': {'expr': _num(1)}}]}, {}, 'value'))
    out.append(('labels only', {'statements': [{'label': 'aa'}, {'label': 'aa'}, {'label': 'bb'}]}, {}, 'value'))
    out.append(('jump to unknown label', {'statements': [{'jump': {'label': 'nowhere'}}]}, {}, 'runtime'))
    out.append(('conditional jump to unknown label not taken', {'statements': [{'jump': {'label': 'nowhere', 'expr': _num(0)}}, _sentinel()]}, {}, 'value'))
    out.append(('conditional jump to unknown label taken', {'statements': [{'jump': {'label': 'nowhere', 'expr': _num(1)}}]}, {}, 'runtime'))
    out.append(('endless loop against the statement budget', {'statements': [{'label': 'aa'}, {'jump': {'label': 'aa'}}]}, {'maxStatements': 50}, 'runtime'))
    out.append(('undefined function', {'statements': [{'return': {'expr': _call('nosuch', [])}}]}, {}, 'runtime'))
    out.append(('undefined function without args', {'statements': [{'return': {'expr': _call('nosuch')}}]}, {}, 'runtime'))
    # script functions: no args member, empty body, lastArgArray
    for lab, fn in (
            ('function without args member', {'name': 'ff', 'statements': [{'return': {'expr': _num(7)}}]}),
            ('function with empty body', {'name': 'ff', 'args': ['aa'], 'statements': []}),
            ('function without args and with empty body', {'name': 'ff', 'statements': []}),
            ('function lastArgArray without args member', {'name': 'ff', 'lastArgArray': True, 'statements': [{'return': {'expr': _num(7)}}]}),
            ('function lastArgArray', {'name': 'ff', 'args': ['aa', 'bb'], 'lastArgArray': True, 'statements': [{'return': {'expr': _var('bb')}}]}),
            ('async function', {'name': 'ff', 'async': True, 'args': ['aa'], 'statements': [{'return': {'expr': _var('aa')}}]}),
            ('function that jumps to an unknown label', {'name': 'ff', 'statements': [{'jump': {'label': 'nowhere'}}]}),
            ('function named like a library function', {'name': 'arrayNew', 'args': ['aa'], 'statements': [{'return': {'expr': _var('aa')}}]}),
    ):
        callee = fn['name']
        for clab, call in (('called with two args', _call(callee, [_num(1), _num(2)])), ('called with empty args', _call(callee, [])),
                           ('called without args member', _call(callee))):
            exp = 'runtime' if 'unknown label' in lab else 'any'
            out.append((f'{lab}, {clab}', {'statements': [{'function': fn}, {'expr': {'name': 'rr', 'expr': call}}, _sentinel(),
                                                             {'return': {'expr': _var('rr')}}]}, {}, exp))
    # non-function values in call position: global and local, with and without args
    for lab, val in NONFUNC:
        for clab, call in (('with args', _call('xx', [_num(1)])), ('without args member', _call('xx'))):
            gl = {'statements': [{'expr': {'name': 'xx', 'expr': _var('hv')}}, {'expr': {'name': 'rr', 'expr': call}}, _sentinel(),
                                 {'return': {'expr': _var('rr')}}]}
            out.append((f'global {lab} in call position {clab}', gl, {'hv': lab}, 'any'))
            lo = {'statements': [{'function': {'name': 'ff', 'args': ['xx'], 'statements': [{'expr': {'name': 'yy', 'expr': call}}, {'return': {'expr': _var('yy')}}]}},
                                 {'expr': {'name': 'rr', 'expr': _call('ff', [_var('hv')])}}, _sentinel(), {'return': {'expr': _var('rr')}}]}
            out.append((f'local {lab} in call position {clab}', lo, {'hv': lab}, 'any'))
    out.append(('null in call position', {'statements': [{'expr': {'name': 'xx', 'expr': _var('null')}}, {'return': {'expr': _call('xx', [])}}]}, {}, 'runtime'))
    # the if built-in
    for n in range(5):
        out.append((f'if() with {n} args', {'statements': [{'return': {'expr': _call('if', [_num(k) for k in range(n)])}}]}, {}, 'value'))
    out.append(('if() without args member', {'statements': [{'return': {'expr': _call('if')}}]}, {}, 'value'))
    # keyword variables, groups, unary chains
    out.append(('assignment to the keyword names', {'statements': [{'expr': {'name': 'null', 'expr': _num(1)}}, {'expr': {'name': 'true', 'expr': _num(0)}},
                                                                      {'return': {'expr': {'binary': {'op': '+', 'left': _var('null'), 'right': _var('true')}}}}]}, {}, 'value'))
    deep = _num(1)
    for _i in range(50):
        deep = {'group': {'unary': {'op': '-', 'expr': deep}}}
    out.append(('50 nested groups and negations', {'statements': [{'return': {'expr': deep}}]}, {}, 'value'))
    # includes
    inc = {'statements': [{'include': {'includes': [{'url': 'lib.bare'}]}}, _sentinel()]}
    incs = {'statements': [{'include': {'includes': [{'url': 'lib.bare', 'system': True}, {'url': 'two.bare'}]}}, _sentinel()]}
    for lab, extra, exp in (('no fetchFn', {}, 'runtime'), ('fetchFn returns None', {'fetch': 'none'}, 'runtime'), ('fetchFn raises', {'fetch': 'raise'}, 'runtime'),
                            ('fetchFn returns a script with a syntax error', {'fetch': 'bad'}, 'parser'), ('fetchFn returns a good script', {'fetch': 'good'}, 'value'),
                            ('fetchFn returns a script that divides by zero and calls a failing function', {'fetch': 'div'}, 'value'),
                            ('fetchFn returns a script that jumps to an unknown label', {'fetch': 'jump'}, 'runtime')):
        out.append((f'include, {lab}', inc, extra, exp))
        out.append((f'two includes (system first), {lab}', incs, dict(extra, systemPrefix='sys/'), exp))
    _CACHE['models'] = out
    return out


INCLUDE_TEXTS = {
    'bad': 'x = (1 +\n',
    'good': 'function incFn(a):\n    return a + 1\nendfunction\nincVal = incFn(1)\n',
    'div': "incVal = 1 / 0\nincLen = arrayGet(null, 1)\nincPow = (0 - 8) ** 0.5\n",
    'jump': 'jump nowhere\n',
}


def model_options(extra, logs):
    opts = {'logFn': logs.append, 'debug': True, 'maxStatements': extra.get('maxStatements', 1000)}
    g = {}
    if 'hv' in extra:
        lab = extra['hv']
        g['hv'] = selfarr() if lab == 'selfarr' else copy.deepcopy(dict(NONFUNC)[lab])
    opts['globals'] = g
    if 'systemPrefix' in extra:
        opts['systemPrefix'] = extra['systemPrefix']
    kind = extra.get('fetch')
    if kind == 'none':
        opts['fetchFn'] = fetch_none
    elif kind == 'raise':
        opts['fetchFn'] = fetch_raise
    elif kind is not None:
        text = INCLUDE_TEXTS[kind]
        opts['fetchFn'] = lambda request: text
    return opts


def check_models(case, acc):
    bs = impl()[0]
    kind = case['kind']
    if kind == 'hand':
        label, model, extra, _ = model_cases()[case['m']]
        model = copy.deepcopy(model)
    else:
        # every library function called without an args member, in one of three call shapes
        fid = case['fn']
        name, _, mode = fid.partition(':')
        shape = case['shape']
        label = f'{fid} called without an args member ({shape})'
        extra = {'fetch': None}
        call = _call(name)
        if shape == 'top':
            model = {'statements': [{'expr': {'name': 'rr', 'expr': call}}, _sentinel(), {'return': {'expr': _var('rr')}}]}
        elif shape == 'in function':
            model = {'statements': [{'function': {'name': 'ff', 'statements': [{'return': {'expr': call}}]}},
                                    {'expr': {'name': 'rr', 'expr': _call('ff')}}, _sentinel(), {'return': {'expr': _var('rr')}}]}
        else:
            model = {'statements': [{'expr': {'name': 'rr', 'expr': _call('arrayNew', [call, {'unary': {'op': '-', 'expr': call}}])}}, _sentinel(),
                                    {'return': {'expr': _var('rr')}}]}
    case = dict(case, label=label)
    try:
        bs.validate_script(copy.deepcopy(model))
    except Exception as exc:  # pylint: disable=broad-exception-caught
        raise HarnessError(f'C05 models: {label!r} is not schema-valid: {exc}') from exc
    logs = []
    opts = model_options(extra, logs)
    if kind != 'hand' and mode:
        opts['fetchFn'] = FETCHERS[mode]
    before = json.dumps(model, sort_keys=True, default=repr)
    out = run_guarded(lambda: bs.execute_script(model, opts))
    acc.evals += 1
    what = f'model "{label}"'
    if not check_outcome(out, case, acc, what):
        return 'violation'
    if json.dumps(model, sort_keys=True, default=repr) != before:
        acc.violation(case, 'the model is not modified by execution', 'modified', f'{what}: execution changed the model')
        return 'violation'
    has_sentinel = any(list(st.keys()) == ['expr'] and st['expr']['expr'].get('function', {}).get('name') == 'systemLog' for st in model['statements'])
    if out[0] == 'value' and has_sentinel and SENTINEL not in logs:
        acc.violation(case, 'the sentinel statement runs', [str(x)[:80] for x in logs[-3:]], f'{what}: execution did not continue to the sentinel')
        return 'violation'
    # evaluate_expression of the same call shapes with options None / {} (no globals): must be contained as well
    if kind != 'hand':
        for o2 in (None, {}):
            out2 = run_guarded(lambda o2=o2: bs.evaluate_expression(_call(case['fn'].partition(':')[0]), o2, None, False))
            acc.evals += 1
            if not check_outcome(out2, dict(case, options=repr(o2)), acc, what + f' evaluated as an expression with options={o2!r}'):
                return 'violation'
    if out[0] == 'doc' or any(is_failure_line(x) for x in logs):
        acc.nontrivial += 1
    return out[0] + ':' + (out[1] if out[0] != 'value' else value_kind(out[1]))


SHAPES = ['top', 'in function', 'as argument and operand']


def model_case_list():
    cases = [{'kind': 'hand', 'm': m} for m in range(len(model_cases()))]
    for fid in lib_functions():
        for shape in SHAPES:
            cases.append({'kind': 'noargs', 'fn': fid, 'shape': shape})
    return cases


def fam_models(arg):
    acc = Acc('models')
    for case in arg:
        acc.cases += 1
        kind = check_models(case, acc)
        acc.outcome((case.get('m'), case.get('fn'), case.get('shape'), kind))
        if case.get('m') in (12, 40) or (case.get('fn') == 'arrayLength' and case.get('shape') == 'top'):
            acc.sample({'model': model_cases()[case['m']][0] if case['kind'] == 'hand' else f"{case['fn']} without args ({case['shape']})", 'outcome': kind})
    return acc.result()


# ----------------------------------------------------------------------------------------------------------------
# Family options: configurations of the embedding application (debug x logFn) must not change the outcome of a call
# ----------------------------------------------------------------------------------------------------------------

DEBUGS = ['absent', False, True]
LOGFNS = ['absent', None, 'function']
OPT_PREAMBLE = 'function scriptFail(aa):\n    return arrayGet(null, aa)\nendfunction\nfunction scriptOk(aa):\n    return arrayNew(aa, 1)\nendfunction\n'
CURATED_CALLS = [
    'hostFail(1)', 'hostOk(1)', 'hostArgsFail(1)', 'notfn(1)', 'scriptFail(1)', 'scriptOk(1)', 'arrayLength(arrayNew(1))', "stringIndexOf('abc', 'c')",
    'arrayLength(arrayGet(null, 0))', "jsonParse('{')", "dataFilter(arrayNew(), '(')", "objectGet(null, 'a', 'dflt')", "stringLength(1)", "objectHas(1, 'a')",
    "arrayIndexOf(arrayNew(1), 1, 5)", "systemLog('msg')", "systemLogDebug('msg')", "arraySort(arrayNew(2, 1), hostFail)", "mathMax(hostFail(1), 2)",
]


def host_ok(args, options):  # pylint: disable=unused-argument
    return 7


def host_args_fail(args, options):  # pylint: disable=unused-argument
    load_impl()
    from bare_script.value import ValueArgsError  # pylint: disable=import-outside-toplevel,import-error
    raise ValueArgsError('arg', 1, 5)


def option_calls():
    """Deterministic list of call texts: every library function id with () and (null), then the curated ones."""
    if 'ocalls' not in _CACHE:
        out = []
        for fid in lib_functions():
            name, _, mode = fid.partition(':')
            out.append((f'{name}()', mode))
            out.append((f'{name}(null)', mode))
        out.extend((c, '') for c in CURATED_CALLS)
        _CACHE['ocalls'] = out
    return _CACHE['ocalls']


def bare_calls():
    from bare_script.library import EXPRESSION_FUNCTION_MAP  # pylint: disable=import-outside-toplevel,import-error
    names = sorted(n for n, full in EXPRESSION_FUNCTION_MAP.items() if full not in EXCLUDED)
    return [f'{n}()' for n in names] + [f'{n}(null)' for n in names]


def option_models(text):
    key = ('omodel', text)
    if key not in _CACHE:
        bs = impl()[0]
        _CACHE[key] = (bs.parse_script(f'rr = {text}\ndone = 1\nreturn rr\n'), bs.parse_expression(text), bs.parse_script(OPT_PREAMBLE))
    return _CACHE[key]


def run_config(text, mode, entry, debug, logfn):
    """-> (outcome of run_guarded, done flag, log lines)"""
    bs, funcs = impl()
    script, expr, preamble = option_models(text)
    g = {}
    bs.execute_script(preamble, {'globals': g})
    g.update({'hostFail': cb_raise, 'hostOk': host_ok, 'hostArgsFail': host_args_fail, 'notfn': 5})
    logs = []
    options = {'globals': g, 'maxStatements': 1000}
    if debug != 'absent':
        options['debug'] = debug
    if logfn == 'function':
        options['logFn'] = logs.append
    elif logfn is None:
        options['logFn'] = None
    if mode:
        options['fetchFn'] = FETCHERS[mode]
    if entry == 'exec':
        out = run_guarded(lambda: bs.execute_script(script, options))
    else:
        for n, f in funcs.items():
            g.setdefault(n, f)
        options['statementCount'] = 0
        out = run_guarded(lambda: bs.evaluate_expression(expr, options, None, False))
    return out, g.get('done'), logs


def check_options(case, acc):
    bs = impl()[0]
    if case['entry'] == 'bare':
        text = bare_calls()[case['call']]
        opt = None if case['opt'] == 0 else {}
        expr = bs.parse_expression(text)
        out = run_guarded(lambda: bs.evaluate_expression(expr, opt))
        ref = run_guarded(lambda: bs.evaluate_expression(expr, {'globals': {}, 'debug': True, 'logFn': lambda _line: None}))
        acc.evals += 2
        case = dict(case, text=text)
        what = f'evaluate_expression of {text} with options={opt!r}'
        cfg = None
    else:
        text, mode = option_calls()[case['call']]
        debug, logfn = DEBUGS[case['debug']], LOGFNS[case['logfn']]
        ref, ref_done, _ = run_config(text, mode, case['entry'], True, 'function')
        out, done, _ = run_config(text, mode, case['entry'], debug, logfn)
        acc.evals += 2
        case = dict(case, text=text, options={'debug': repr(debug), 'logFn': repr(logfn)})
        what = f'{text} through {"execute_script" if case["entry"] == "exec" else "evaluate_expression"} with debug={debug!r}, logFn={logfn!r}'
        cfg = (ref_done, done)
    if not check_outcome(out, case, acc, what):
        return 'violation'
    if not check_outcome(ref, case, acc, what + ' (reference configuration debug=True, logFn=function)'):
        return 'violation'
    if out[0] != ref[0] or (out[0] == 'doc' and out[1] != ref[1]) or (out[0] == 'value' and not same_value(out[1], ref[1])):
        acc.violation(case, f'the outcome of the configuration debug=True + logFn=function: {ref[0]} {label_of(ref[1])}', f'{out[0]} {label_of(out[1])}',
                      f'{what}: the outcome of the call depends on the debug/logFn configuration')
        return 'violation'
    if cfg is not None and case['entry'] == 'exec' and out[0] == 'value' and cfg[1] != 1:
        acc.violation(case, 'the statement after the call runs (done = 1)', f'done = {cfg[1]!r}', f'{what}: execution did not continue after the call')
        return 'violation'
    return out[0] + ':' + (value_kind(out[1]) if out[0] == 'value' else out[1])


def option_cases():
    cases = []
    for c in range(len(option_calls())):
        for entry in ('exec', 'expr'):
            for d in range(3):
                for lf in range(3):
                    cases.append({'call': c, 'entry': entry, 'debug': d, 'logfn': lf})
    for c in range(len(bare_calls())):
        for opt in (0, 1):
            cases.append({'call': c, 'entry': 'bare', 'opt': opt})
    return cases


def fam_options(arg):
    acc = Acc('options')
    for case in arg:
        acc.cases += 1
        kind = check_options(case, acc)
        acc.outcome((case['entry'], case.get('debug'), case.get('logfn'), kind))
        if kind.endswith(':null') or kind.startswith('doc'):
            acc.nontrivial += 1
        if case.get('debug') == 2 and case.get('logfn') == 1 and case['call'] % 50 == 3:
            acc.sample({'call': option_calls()[case['call']][0], 'entry': case['entry'], 'options': {'debug': True, 'logFn': None}, 'outcome': kind})
    return acc.result()


# ----------------------------------------------------------------------------------------------------------------
# Family reach: the same failing call reached by name, through an alias, a parameter, systemPartial, a callback position
# ----------------------------------------------------------------------------------------------------------------

def host_parser_fail(args, options):  # pylint: disable=unused-argument
    bs = impl()[0]
    raise bs.BareScriptParserError('Syntax error', 'x', 1, 1)


def host_runtime_fail(args, options):  # pylint: disable=unused-argument
    bs = impl()[0]
    raise bs.BareScriptRuntimeError('host says no')


# (target function, argument expressions over the globals below, failure kind)
REACH_TARGETS = [
    ('arrayGet', ['null', 'n0'], 'ValueArgsError'),
    ('stringIndexOf', ['n1', "'a'"], 'ValueArgsError'),
    ('arrayLength', ['n1'], 'ValueArgsError'),
    ('objectGet', ['null', "'a'", "'dflt'"], 'ValueArgsError'),
    ('objectHas', ['n1', "'a'"], 'ValueArgsError'),
    ('arrayPop', ['empty'], 'ValueArgsError'),
    ('schemaParse', ['n1'], 'TypeError in the body'),
    ('dataSort', ['nums', 'sorts'], 'AttributeError in the body'),
    ('jsonParse', ["'{'"], 'ValueError in the body'),
    ('jsonStringify', ['selfarr'], 'ValueError in the body'),
    ('dataFilter', ['rows', "'a +'"], 'BareScriptParserError'),
    ('dataCalculatedField', ['rows', "'b'", "'a +'"], 'BareScriptParserError'),
    ('dataJoin', ['rows', 'rows', "'a +'"], 'BareScriptParserError'),
    ('dataJoin', ['rows', 'rows', "'a'", "'(a'"], 'BareScriptParserError'),
    ('dataFilter', ['rows', "'nosuch(a)'"], 'BareScriptRuntimeError (documented)'),
    ('hostFail', ['n1'], 'host KeyError'),
    ('hostParserFail', ['n1'], 'host BareScriptParserError'),
    ('hostRuntimeFail', ['n1'], 'BareScriptRuntimeError (documented)'),
    ('arrayLength', ['rows'], 'succeeds'),
    ('dataFilter', ['rows', "'a > 1'"], 'succeeds'),
]
REACHES = ['name', 'alias', 'parameter', 'nested parameter', 'partial', 'partial all', 'indexOf callback', 'sort callback']
BAD_INCLUDE_REACHES = ['name', 'alias', 'parameter', 'nested function', 'statement in a loop in a function']


def reach_globals():
    return {'n0': 0, 'n1': 1, 'empty': [], 'nums': [1, 2], 'sorts': [['a']], 'rows': [{'a': 1}, {'a': 2}], 'selfarr': selfarr(),
            'hostFail': cb_raise, 'hostParserFail': host_parser_fail, 'hostRuntimeFail': host_runtime_fail}


def reach_source(t, r):
    """Script text (or None when the reach does not fit the signature)."""
    name, args, _ = REACH_TARGETS[t]
    n = len(args)
    alist = ', '.join(args)
    tail = f"systemLog('{SENTINEL}')\nreturn rr\n"
    reach = REACHES[r]
    if reach == 'name':
        return f'rr = {name}({alist})\n' + tail
    if reach == 'alias':
        return f'ff = {name}\nrr = ff({alist})\n' + tail
    params = ', '.join(f'p{i}' for i in range(n))
    if reach == 'parameter':
        return f'function callIt(fn, {params}):\n    return fn({params})\nendfunction\nrr = callIt({name}, {alist})\n' + tail
    if reach == 'nested parameter':
        return (f'function inner(fn, {params}):\n    zz = fn({params})\n    return zz\nendfunction\n'
                f'function outer(fn, {params}):\n    return inner(fn, {params})\nendfunction\nrr = outer({name}, {alist})\n' + tail)
    if reach == 'partial':
        if n < 2:
            return None
        return f'pp = systemPartial({name}, {args[0]})\nrr = pp({", ".join(args[1:])})\n' + tail
    if reach == 'partial all':
        return f'pp = systemPartial({name}, {alist})\nrr = pp()\n' + tail
    if reach == 'indexOf callback':
        cb = name if n == 1 else f'systemPartial({name}, {", ".join(args[:-1])})'
        return f'rr = arrayIndexOf(arrayNew({args[-1]}), {cb})\n' + tail
    if n != 2:
        return None
    # the comparison function receives the two elements in an order that is the sort algorithm's business: used only for
    # targets that fail for both orders of their two arguments (check_reach prunes the others)
    return f'rr = arraySort(arrayNew({args[0]}, {args[1]}), {name})\n' + tail


def check_reach(case, acc):
    bs, funcs = impl()
    if case['kind'] == 'include':
        # A bad include inside a SCRIPT function is a documented exception and must come out as BareScriptParserError
        reach = BAD_INCLUDE_REACHES[case['r']]
        body = "function ff(aa):\n    include 'bad.bare'\n    return 1\nendfunction\n"
        call = {'name': 'rr = ff(1)', 'alias': 'gg = ff\nrr = gg(1)',
                'parameter': 'function callIt(fn):\n    return fn(1)\nendfunction\nrr = callIt(ff)',
                'nested function': 'function outer(aa):\n    zz = ff(aa)\n    return zz\nendfunction\nrr = outer(1)',
                'statement in a loop in a function': 'function outer(aa):\n    for xx in arrayNew(1, 2):\n        zz = ff(xx)\n    endfor\n    return zz\nendfunction\nrr = outer(1)'}[reach]
        source = body + call + '\nreturn rr\n'
        logs = []
        out = run_guarded(lambda: bs.execute_script(bs.parse_script(source), {'globals': {}, 'fetchFn': lambda request: 'x = (1 +', 'debug': True, 'logFn': logs.append,
                                                                                 'maxStatements': 1000}))
        acc.evals += 1
        case = dict(case, source=source)
        if out[:2] != ('doc', 'BareScriptParserError'):
            acc.violation(case, 'BareScriptParserError (bad include inside a script function)', f'{out[0]} {label_of(out[1])}',
                          f'bad include inside a script function reached by {reach}: the documented parser error does not come out')
            return 'violation'
        return 'doc:BareScriptParserError'
    t, r = case['t'], case['r']
    name, args, kind = REACH_TARGETS[t]
    source = reach_source(t, r)
    if source is None:
        acc.pruned += 1
        return 'does not fit'
    case = dict(case, source=source, target=f'{name}({", ".join(args)})', reach=REACHES[r], failure=kind)
    what = f'{name}({", ".join(args)}) [{kind}] reached by {REACHES[r]}'
    # independent knowledge: the direct call of the function object
    g2 = reach_globals()
    lib = dict(funcs)
    lib.update(g2)
    vals = [bs.evaluate_expression(bs.parse_expression(a), {'globals': g2}) for a in args]
    direct = run_guarded(lambda: lib[name](vals, {'globals': dict(lib), 'statementCount': 0}))
    failed = direct[0] == 'host-exc' or (direct[0] == 'doc' and direct[1] != 'BareScriptRuntimeError')
    raises_runtime = direct[0] == 'doc' and direct[1] == 'BareScriptRuntimeError'
    if REACHES[r] == 'sort callback':
        g3 = reach_globals()
        lib3 = dict(funcs)
        lib3.update(g3)
        vals3 = [bs.evaluate_expression(bs.parse_expression(a), {'globals': g3}) for a in args][::-1]
        swapped = run_guarded(lambda: lib3[name](vals3, {'globals': dict(lib3), 'statementCount': 0}))
        swapped_failed = swapped[0] == 'host-exc' or (swapped[0] == 'doc' and swapped[1] != 'BareScriptRuntimeError')
        if not (failed and swapped_failed):
            acc.pruned += 1
            return 'does not fit'
    logs = []
    g = reach_globals()
    out = run_guarded(lambda: bs.execute_script(bs.parse_script(source), {'globals': g, 'debug': True, 'logFn': logs.append, 'maxStatements': 1000}))
    acc.evals += 2
    if not check_outcome(out, case, acc, what):
        return 'violation'
    if raises_runtime:
        if out[:2] != ('doc', 'BareScriptRuntimeError'):
            acc.violation(case, 'BareScriptRuntimeError (documented, re-raised)', f'{out[0]} {label_of(out[1])}', f'{what}: the runtime error is not re-raised')
            return 'violation'
        return 'doc:BareScriptRuntimeError'
    if out[0] != 'value':
        acc.violation(case, 'a value (the failure is contained)', f'{out[1]} raised', f'{what}: {out[1]} escapes although the failing function is a library/host function')
        return 'violation'
    if not logs or logs[-1] != SENTINEL:
        acc.violation(case, f'the statement after the call runs (logs end with {SENTINEL!r})', [str(x)[:80] for x in logs[-3:]], f'{what}: execution did not continue')
        return 'violation'
    nfail = sum(1 for line in logs if is_failure_line(line))
    callback = REACHES[r] in ('indexOf callback', 'sort callback')
    if not failed:
        if nfail:
            acc.violation(case, 'no failure line (the call succeeds)', f'{nfail} line(s)', f'{what}: a successful call was reported as failed')
            return 'violation'
        return 'ok:' + value_kind(out[1])
    acc.nontrivial += 1
    if nfail != 1:
        acc.violation(case, 'exactly one failure line in debug mode', f'{nfail} line(s)', f'{what}: the failed call was reported {nfail} times')
        return 'violation'
    allowed = [None, FAIL_VALUES.get(name)]
    if name == 'objectGet':
        allowed.append('dflt')
    if callback:
        allowed.append(-1 if REACHES[r] == 'indexOf callback' else None)
    res = out[1]
    if not any((res is a) if (a is None or isinstance(a, bool)) else (not isinstance(res, bool) and same_value(res, a)) for a in allowed):
        acc.violation(case, f'null or a documented failure value {allowed[1:]!r}', f'{value_kind(res)} {label_of(res)}',
                      f'{what}: the failed call evaluated to something other than a failure value')
        return 'violation'
    return 'failed:' + direct[1]


def reach_cases():
    cases = [{'kind': 'call', 't': t, 'r': r} for t in range(len(REACH_TARGETS)) for r in range(len(REACHES))]
    cases += [{'kind': 'include', 'r': r} for r in range(len(BAD_INCLUDE_REACHES))]
    return cases


def fam_reach(arg):
    acc = Acc('reach')
    for case in arg:
        acc.cases += 1
        kind = check_reach(case, acc)
        acc.outcome((case.get('t'), case['r'], kind))
        if case['kind'] == 'include':
            acc.nontrivial += 1
        if case.get('t') in (10, 15) and case['r'] in (2, 4):
            acc.sample({'source': reach_source(case['t'], case['r']), 'outcome': kind})
    return acc.result()


# ----------------------------------------------------------------------------------------------------------------
# Family messages: the MESSAGE of the contained exception (empty, multi-line, format characters, non-string args ...)
# ----------------------------------------------------------------------------------------------------------------

def _assertion():
    try:
        assert False  # noqa: B011  pylint: disable=condition-evals-to-constant
    except AssertionError as exc:
        return exc
    return AssertionError()


def exception_shapes():
    """(label, factory of a fresh exception instance). str() of the first group is empty."""
    return [
        ('KeyError()', KeyError), ('assert False', _assertion), ('StopIteration()', StopIteration), ('MemoryError()', MemoryError),
        ('Exception()', Exception), ("ValueError('')", lambda: ValueError('')), ('IndexError()', IndexError), ('ZeroDivisionError()', ZeroDivisionError),
        ("ValueError('a\\nb')", lambda: ValueError('a\nb')), ("ValueError('\\n')", lambda: ValueError('\n')), ("ValueError('a\\r\\nb\\n')", lambda: ValueError('a\r\nb\n')),
        ("ValueError('{0} %s {x} %(y)s')", lambda: ValueError('{0} %s {x} %(y)s')), ("ValueError('{')", lambda: ValueError('{')), ("ValueError('%')", lambda: ValueError('%')),
        ("ValueError('100%d}')", lambda: ValueError('100%d}')), ("ValueError('\\\\')", lambda: ValueError('\\')), ("KeyError('k')", lambda: KeyError('k')),
        ('ValueError(1, 2)', lambda: ValueError(1, 2)), ('ValueError(None)', lambda: ValueError(None)), ("OSError(2, 'msg')", lambda: OSError(2, 'msg')),
        ('ValueError(b"bytes")', lambda: ValueError(b'bytes')), ("ValueError('\\u20ac \\ud83d')", lambda: ValueError('€ \ud83d')),
        ('ValueError(100 kB)', lambda: ValueError('x' * 100000)), ('ValueArgsError', None),
    ]


MSG_CONFIGS = [(True, 'function'), (True, 'absent'), (True, None), (False, 'function'), ('absent', 'function')]
MSG_REACHES = ['name', 'callback', 'script function']
MSG_LIBRARY = "stringRepeat('abc', 1000000000000000)"     # MemoryError() at once: 3e15 bytes exceed any address space


def msg_source(reach):
    if reach == 'name':
        return 'rr = hostE(1)\ndone = 1\nreturn rr\n', 'hostE(1)'
    if reach == 'callback':
        return 'rr = arrayIndexOf(arrayNew(1), hostE)\ndone = 1\nreturn rr\n', 'arrayIndexOf(arrayNew(1), hostE)'
    if reach == 'library':
        return f'rr = {MSG_LIBRARY}\ndone = 1\nreturn rr\n', MSG_LIBRARY
    return 'function ff(aa):\n    zz = hostE(aa)\n    return arrayNew(zz)\nendfunction\nrr = ff(1)\ndone = 1\nreturn rr\n', None


def check_messages(case, acc):
    bs, funcs = impl()
    shapes = exception_shapes()
    label, factory = shapes[case['shape']] if case['shape'] >= 0 else ('library MemoryError()', None)
    reach = MSG_REACHES[case['reach']] if case['shape'] >= 0 else 'library'
    debug, logfn = MSG_CONFIGS[case['config']]
    source, text = msg_source(reach)
    if case['entry'] == 'expr' and text is None:
        acc.pruned += 1
        return 'does not fit'

    def host_e(args, options):  # pylint: disable=unused-argument
        if factory is None:
            raise host_args_error()
        raise factory()
    logs = []
    g = {'hostE': host_e}
    options = {'globals': g, 'maxStatements': 1000}
    if debug != 'absent':
        options['debug'] = debug
    if logfn == 'function':
        options['logFn'] = logs.append
    elif logfn is None:
        options['logFn'] = None
    if case['entry'] == 'exec':
        out = run_guarded(lambda: bs.execute_script(bs.parse_script(source), options))
    else:
        for n, f in funcs.items():
            g.setdefault(n, f)
        options['statementCount'] = 0
        out = run_guarded(lambda: bs.evaluate_expression(bs.parse_expression(text), options, None, False))
    acc.evals += 1
    case = dict(case, exception=label, reached=reach, options={'debug': repr(debug), 'logFn': repr(logfn)}, source=source if case['entry'] == 'exec' else text)
    what = f'host function raising {label} reached by {reach} through {case["entry"]} with debug={debug!r}, logFn={logfn!r}'
    if not check_outcome(out, case, acc, what):
        return 'violation'
    if out[0] != 'value':
        acc.violation(case, 'a value (the failure is contained)', f'{out[1]} raised', f'{what}: {out[1]} escapes')
        return 'violation'
    res = out[1]
    if reach == 'script function':
        res = res[0] if isinstance(res, list) and len(res) == 1 else ('not the array the script function builds', res)
    allowed = [None] + ([5] if factory is None and case['shape'] >= 0 else []) + ([-1] if reach == 'callback' else [])
    if not any(res is None if a is None else (not isinstance(res, bool) and res == a) for a in allowed):
        acc.violation(case, f'null (or a documented failure value {allowed[1:]})', f'{value_kind(res)} {label_of(res)}', f'{what}: the failed call did not evaluate to null')
        return 'violation'
    if case['entry'] == 'exec' and g.get('done') != 1:
        acc.violation(case, 'the statement after the call runs (done = 1)', f'done = {g.get("done")!r}', f'{what}: execution did not continue')
        return 'violation'
    nfail = sum(1 for line in logs if is_failure_line(line))
    if debug is True and logfn == 'function' and (nfail != 1 or len(logs) != 1):
        acc.violation(case, 'exactly one call of logFn, with one failure line', [str(x)[:80] for x in logs[:3]] + [f'{len(logs)} call(s), {nfail} failure line(s)'],
                      f'{what}: the failure was not reported exactly once')
        return 'violation'
    return f'contained:{nfail}'


def host_args_error():
    load_impl()
    from bare_script.value import ValueArgsError  # pylint: disable=import-outside-toplevel,import-error
    return ValueArgsError('arg', 1, 5)


def message_cases():
    cases = []
    for sh in range(len(exception_shapes())):
        for r in range(len(MSG_REACHES)):
            for c in range(len(MSG_CONFIGS)):
                for entry in ('exec', 'expr'):
                    cases.append({'shape': sh, 'reach': r, 'config': c, 'entry': entry})
    for c in range(len(MSG_CONFIGS)):
        for entry in ('exec', 'expr'):
            cases.append({'shape': -1, 'reach': 0, 'config': c, 'entry': entry})
    return cases


def fam_messages(arg):
    acc = Acc('messages')
    for case in arg:
        acc.cases += 1
        kind = check_messages(case, acc)
        acc.outcome((case['shape'], case['reach'], case['config'], case['entry'], kind))
        if kind.startswith('contained'):
            acc.nontrivial += 1
        if case['config'] == 0 and case['reach'] == 1 and case['shape'] in (0, 8, 11):
            acc.sample({'exception': exception_shapes()[case['shape']][0], 'reach': MSG_REACHES[case['reach']], 'entry': case['entry'], 'outcome': kind})
    return acc.result()


# ----------------------------------------------------------------------------------------------------------------
# Family optkeys: every documented option key absent / present with None / present with a value, crossed
# ----------------------------------------------------------------------------------------------------------------

def _identity_url(url):
    return url


def _opt_fetch(request):
    url = request.get('url', '')
    return 'incVal = 1\n' if isinstance(url, str) and url.endswith('.bare') else 'text'


ABSENT = '<absent>'
OPT_KEYS = [
    ('urlFn', [ABSENT, None, 'identity function']),
    ('fetchFn', [ABSENT, None, 'function']),
    ('logFn', [ABSENT, None, 'function']),
    ('systemPrefix', [ABSENT, None, 'sys/']),
    ('globals', [ABSENT, 'empty', 'populated']),
    ('debug', [ABSENT, False, None, True]),
    ('maxStatements', [ABSENT, 0, 1000]),       # documented as an int: None is a malformed option value, outside the property
    ('statementCount', [ABSENT, None, 5]),
]
OPT_PROGRAMS = [
    ('non-system include', 'exec', "include 'lib.bare'\nreturn incVal\n"),
    ('system include', 'exec', 'include <lib.bare>\nreturn incVal\n'),
    ('system and non-system include', 'exec', "include <lib.bare>\ninclude 'two.bare'\nreturn incVal\n"),
    ('include inside a function', 'exec', "function ff():\n    include 'lib.bare'\n    return incVal\nendfunction\nreturn ff()\n"),
    ('systemFetch', 'exec', "rr = systemFetch('u')\nr2 = systemFetch(arrayNew('u', objectNew('url', 'v')))\nreturn arrayNew(rr, r2)\n"),
    ('failing call', 'exec', 'rr = arrayGet(null, 0)\ndone = 1\nreturn rr\n'),
    ('systemLog and systemLogDebug', 'exec', "systemLog('m')\nsystemLogDebug('m')\nreturn systemGlobalGet('xx')\n"),
    ('failing built-in through evaluate_expression', 'expr', "indexOf(1) + len('a')"),
]


def opt_configs():
    return list(itertools.product(*(range(len(alts)) for _, alts in OPT_KEYS)))


def build_options(choice, logs):
    opts = {}
    for (key, alts), c in zip(OPT_KEYS, choice):
        val = alts[c]
        if val is ABSENT:
            continue
        if key == 'urlFn' and val is not None:
            val = _identity_url
        elif key == 'fetchFn' and val is not None:
            val = _opt_fetch
        elif key == 'logFn' and val is not None:
            val = logs.append
        elif key == 'globals':
            val = {} if val == 'empty' else {'incVal': 0, 'xx': [1]}
        opts[key] = val
    return opts


def opt_program(pix):
    key = ('optprog', pix)
    if key not in _CACHE:
        bs = impl()[0]
        _, entry, text = OPT_PROGRAMS[pix]
        _CACHE[key] = bs.parse_script(text) if entry == 'exec' else bs.parse_expression(text)
    return _CACHE[key]


def check_optkeys(case, acc):
    bs = impl()[0]
    label, entry, text = OPT_PROGRAMS[case['p']]
    logs = []
    opts = build_options(case['choice'], logs)
    described = {key: repr(alts[c]) for (key, alts), c in zip(OPT_KEYS, case['choice']) if alts[c] is not ABSENT}
    model = opt_program(case['p'])
    if entry == 'exec':
        out = run_guarded(lambda: bs.execute_script(model, opts))
    else:
        out = run_guarded(lambda: bs.evaluate_expression(model, opts))
    acc.evals += 1
    case = dict(case, program=label, options=described, source=text)
    if not check_outcome(out, case, acc, f'program "{label}" with options {described}'):
        return 'violation'
    return out[0] + ':' + (value_kind(out[1]) if out[0] == 'value' else out[1])


def fam_optkeys(arg):
    acc = Acc('optkeys')
    configs = opt_configs()
    for p, lo, hi in arg:
        for choice in configs[lo:hi]:
            acc.cases += 1
            kind = check_optkeys({'p': p, 'choice': list(choice)}, acc)
            acc.outcome((p, kind))
            if kind.startswith('doc'):
                acc.nontrivial += 1
        if lo == 0:
            acc.sample({'program': OPT_PROGRAMS[p][0], 'options': {'fetchFn': 'function', 'urlFn': None}, 'outcome':
                        check_optkeys({'p': p, 'choice': [1, 2, 0, 0, 0, 0, 0, 0]}, Acc('optkeys'))})
    return acc.result()


def optkeys_shards():
    n = len(opt_configs())
    step = (n + 3) // 4
    return [[(p, lo, min(n, lo + step))] for p in range(len(OPT_PROGRAMS)) for lo in range(0, n, step)]


# ----------------------------------------------------------------------------------------------------------------
# Family odd: host containers that are not JSON-like, as wrong-typed arguments and as operands, debug on and off
# ----------------------------------------------------------------------------------------------------------------

def unknown_values():
    return [('Decimal', decimal.Decimal('1.5')), ('set', {1, 2}), ('bytes', b'by'), ('object', object()), ('UUID', uuid.UUID(int=1)), ('tuple', (1, 2))]


def odd_values():
    """(label, value): dicts whose keys are not strings; unknown host types bare, and inside lists/dicts at depth 1 and 2."""
    out = [('{(0,0):o}', {(0, 0): 'o'}), ('{1:one,two:2}', {1: 'one', 'two': 2}), ('{None:1,a:2}', {None: 1, 'a': 2}), ('{(0,0):o,1:x,k:y}', odd_dict())]
    for lab, u in unknown_values():
        out.append((lab, u))
        out.append((f'[{lab}]', [u]))
        out.append((f'{{a:{lab}}}', {'a': u}))
        out.append((f'[[{lab}]]', [[u]]))
        out.append((f'{{a:{{b:{lab}}}}}', {'a': {'b': u}}))
        out.append((f'[{{a:{lab}}}]', [{'a': u}]))
    return out


ODD_PARTNERS = [('null', None), ("'a'", 'a'), ('[1]', [1]), ('{a:1}', {'a': 1})]
N_ODD = 4 + 6 * 6


def pool_odd():
    return ODD_PARTNERS + odd_values()


def odd_lib_tuples():
    np_ = len(ODD_PARTNERS)
    out = []
    for o in range(np_, np_ + N_ODD):
        out.append([o])
        for x in range(np_):
            out.append([o, x])
            out.append([x, o])
    return out


def fam_oddlib(arg):
    acc = Acc('oddlib')
    tuples = odd_lib_tuples()
    for fid in arg:
        for debug in (True, False):
            for idx in tuples:
                acc.cases += 1
                kind = check_lib({'fn': fid, 'pool': 'ODD', 'idx': idx, 'debug': debug}, acc)
                acc.outcome((fid, debug, kind))
        acc.sample({'call': fid, 'args': [pool_odd()[5][0]], 'debug': True, 'outcome': check_lib({'fn': fid, 'pool': 'ODD', 'idx': [5], 'debug': True}, Acc('oddlib'))})
    return acc.result()


ODD_OP_PARTNERS = [("'row: '", 'row: '), ('1', 1.0), ('null', None), ('{a:1}', {'a': 1}), ('itself', None)]


def check_oddops(case, acc):
    bs = impl()[0]
    odd = odd_values()
    lab, val = odd[case['o']]
    val = copy.deepcopy(val)
    op = case['op']
    if case['side'] == 'unary':
        expr_text = f'{op}va'
        g = {'va': val}
        labels = [lab]
    else:
        plab, pval = ODD_OP_PARTNERS[case['partner']]
        pval = copy.deepcopy(odd[case['o']][1]) if plab == 'itself' else copy.deepcopy(pval)
        g = {'va': val, 'vb': pval} if case['side'] == 'left' else {'va': pval, 'vb': val}
        labels = [lab, plab] if case['side'] == 'left' else [plab, lab]
        expr_text = f'va {op} vb'
    logs = []
    options = {'globals': g, 'logFn': logs.append, 'debug': case['debug'], 'maxStatements': 1000}
    if case['ctx'] == 'expr':
        expr = bs.parse_expression(expr_text)
        out = run_guarded(lambda: bs.evaluate_expression(expr, options, None, False))
    else:
        source = f"rr = {expr_text}\nsystemLog('{SENTINEL}')\nreturn rr\n"
        out = run_guarded(lambda: bs.execute_script(bs.parse_script(source), options))
    acc.evals += 1
    case = dict(case, labels=labels, expression=expr_text)
    what = f'{expr_text} on ({", ".join(labels)}) in context {case["ctx"]}, debug={case["debug"]}'
    if not check_outcome(out, case, acc, what, strict=False):
        return 'violation'
    if out[0] == 'value' and case['ctx'] == 'top' and (not logs or logs[-1] != SENTINEL):
        acc.violation(case, 'the statement after the operation runs', [str(x)[:80] for x in logs[-3:]], f'{what}: execution did not continue')
        return 'violation'
    if out[0] == 'value' and out[1] is None:
        acc.nontrivial += 1
    return out[0] + ':' + (value_kind(out[1]) if out[0] == 'value' else out[1])


def oddops_cases_of(o):
    cases = []
    for ctx in ('expr', 'top'):
        for debug in (True, False):
            for op in BIN_OPS:
                for partner in range(len(ODD_OP_PARTNERS)):
                    for side in ('left', 'right'):
                        cases.append({'o': o, 'op': op, 'partner': partner, 'side': side, 'ctx': ctx, 'debug': debug})
            for op in UN_OPS:
                cases.append({'o': o, 'op': op, 'side': 'unary', 'ctx': ctx, 'debug': debug})
    return cases


def fam_oddops(arg):
    acc = Acc('oddops')
    for o in arg:
        for case in oddops_cases_of(o):
            acc.cases += 1
            kind = check_oddops(case, acc)
            acc.outcome((case['op'], case['side'], case.get('partner'), kind))
        acc.sample({'operand': odd_values()[o][0], 'expression': "'row: ' + v", 'outcome':
                    check_oddops({'o': o, 'op': '+', 'partner': 0, 'side': 'right', 'ctx': 'top', 'debug': True}, Acc('oddops'))})
    return acc.result()


# ----------------------------------------------------------------------------------------------------------------
# Family pow_int (guarded)
# ----------------------------------------------------------------------------------------------------------------

POW_CPU_S = 3
POW_MEM = 256 << 20
POW_SCRIPT = "return numberParseInt('2') ** numberParseInt('9007199254740993')\n"


def pow_cases():
    """Every (int, int) pair of the pool that the main operator family delegates, in all four contexts, plus one pure script."""
    pool = pool_a()
    out = []
    for i, (_, a) in enumerate(pool):
        for j, (_, b) in enumerate(pool):
            if pow_hangs(a, b):
                for ctx in CONTEXTS:
                    out.append({'op': '**', 'ctx': ctx, 'idx': [i, j]})
    out.append({'script': POW_SCRIPT})
    return out


def _loop(init, step, ret):
    return f"{init}\nix = 0\nwhile ix < 40:\n    {step}\n    ix = ix + 1\nendwhile\nreturn {ret}\n"


GROWTH = [
    ('string doubling by +', _loop("ss = 'ab'", 'ss = ss + ss', 'stringLength(ss)')),
    ('integer squaring by *', _loop("xx = numberParseInt('3')", 'xx = xx * xx', 'xx > 0')),
    ('integer squaring by **', _loop("xx = numberParseInt('3')", "xx = xx ** numberParseInt('2')", 'xx')),
    ('integer growth by + and -', _loop("xx = numberParseInt('3')", 'xx = xx + xx - 1', 'xx > 0')),
    ('array doubling by arrayExtend', _loop('aa = arrayNew(1)', 'arrayExtend(aa, aa)', 'arrayLength(aa)')),
    ('string doubling by stringRepeat', _loop("ss = 'ab'", 'ss = stringRepeat(ss, 2)', 'stringLength(ss)')),
    ('string doubling by arrayJoin', _loop("ss = 'ab'", "ss = arrayJoin(arrayNew(ss, ss), '')", 'stringLength(ss)')),
    ('string doubling by stringReplace', _loop("ss = 'ab'", "ss = stringReplace(ss, 'a', ss)", 'stringLength(ss)')),
]


def guarded_child(thunk):
    """Run thunk in a forked child with a CPU-time and address-space limit. -> ('value', kind) | ('doc', cls) |
    ('host-exc', cls, msg) | ('killed',)"""
    rfd, wfd = os.pipe()
    pid = os.fork()
    if pid == 0:
        code = 0
        try:
            os.close(rfd)
            resource.setrlimit(resource.RLIMIT_CPU, (POW_CPU_S, POW_CPU_S + 1))
            resource.setrlimit(resource.RLIMIT_AS, (POW_MEM, POW_MEM))
            try:
                out = run_guarded(thunk)
                if out[0] == 'value':
                    out = ('value', value_kind(out[1]), has_host(canon(out[1])))
            except BaseException as exc:  # pylint: disable=broad-exception-caught
                out = ('host-exc', type(exc).__name__, '')
            os.write(wfd, json.dumps(out).encode())
        except BaseException:  # pylint: disable=broad-exception-caught
            code = 1
        finally:
            os._exit(code)
    os.close(wfd)
    data = b''
    while True:
        chunk = os.read(rfd, 65536)
        if not chunk:
            break
        data += chunk
    os.close(rfd)
    os.waitpid(pid, 0)
    if not data:
        return ('killed',)
    return tuple(json.loads(data.decode()))


GUARD_EXPECTED = 'a BareScript value (null) or BareScriptRuntimeError, in bounded time'


def guard_actual(detail):
    # Deliberately the same text whether the child was killed by the CPU guard or ran out of memory (MemoryError): which of
    # the two happens first depends on the machine, the verdict does not.
    return (f'no value and no documented exception within the guard ({POW_CPU_S} s CPU, {POW_MEM >> 20} MiB): {detail}')


def guarded_verdict(out):
    """-> None if the child delivered a BareScript value or a documented exception, else a word for the outcome class."""
    if out[0] == 'doc':
        return None
    if out[0] == 'value':
        return 'host value' if out[2] else None
    if out[0] == 'host-exc' and out[1] != 'MemoryError':
        return 'host exception ' + out[1]
    return 'exhausted'


def check_pow_int(case, acc):
    bs = impl()[0]
    if 'script' in case:
        model = bs.parse_script(case['script'])
        thunk = lambda: bs.execute_script(model, {'globals': {}, 'maxStatements': 1000})  # noqa: E731
        what = 'script ' + case['script'].strip()
    else:
        pool = pool_a()
        thunk, _, _ = ops_thunk(case, [])
        what = f'operator ** on host ints ({pool[case["idx"][0]][0]}, {pool[case["idx"][1]][0]}) in context {case["ctx"]}'
    out = guarded_child(thunk)
    acc.evals += 1
    bad = guarded_verdict(out)
    if bad is None:
        return out[0] + ':' + str(out[1])
    if bad == 'exhausted':
        acc.violation(case, GUARD_EXPECTED, guard_actual('the exact integer power is being computed by the host; it ends in MemoryError, which the '
                                                         'operator handler does not contain'),
                      f'{what}: int ** int with an astronomically large exact result is neither refused nor contained')
    else:
        acc.violation(case, GUARD_EXPECTED, bad, f'{what}: {bad} escapes')
    return bad


def fam_pow_int(arg):
    acc = Acc('pow_int')
    for case in arg:
        acc.cases += 1
        kind = check_pow_int(case, acc)
        acc.outcome((kind, case.get('ctx'), 'script' in case))
        if kind == 'value:null':
            acc.nontrivial += 1      # the huge power was refused (contained) rather than computed
        if 'script' in case or case.get('ctx') == 'func':
            acc.sample({'case': case.get('script') or {'ctx': case['ctx'], 'operands': [pool_a()[i][0] for i in case['idx']]}, 'outcome': kind})
    return acc.result()


def check_growth(case, acc):
    bs = impl()[0]
    label, source = GROWTH[case['g']]
    model = bs.parse_script(source)
    out = guarded_child(lambda: bs.execute_script(model, {'globals': {}, 'maxStatements': 1000}))
    acc.evals += 1
    bad = guarded_verdict(out)
    case = dict(case, label=label, source=source)
    if bad is None:
        return out[0] + ':' + str(out[1])
    if bad == 'exhausted':
        acc.violation(case, GUARD_EXPECTED, guard_actual('a value doubles in size with every statement; the operator is neither refused nor is the '
                                                         'resulting MemoryError contained'),
                      f'{label}: 40 statements exhaust the host through an operator (the statement budget does not bound it)')
    else:
        acc.violation(case, GUARD_EXPECTED, bad, f'{label}: {bad} escapes')
    return bad


def fam_growth(arg):
    acc = Acc('growth')
    for case in arg:
        acc.cases += 1
        kind = check_growth(case, acc)
        acc.outcome((case['g'], kind))
        if kind.startswith('value'):
            acc.nontrivial += 1
        acc.sample({'program': GROWTH[case['g']][0], 'source': GROWTH[case['g']][1], 'outcome': kind})
    return acc.result()


# ----------------------------------------------------------------------------------------------------------------

def families(tier):
    fids = lib_functions()
    if len(pool_a()) != N_A or len(pool_lib()) != N_LIB or len(pool_lib8()) != N_LIB8:
        raise HarnessError('C05 pool sizes out of step')
    per_fn = sum(N_LIB ** k for k in range(4)) + (N_LIB8 ** 4 if tier == 'thorough' else 0)
    op_shards = [(op, i) for op in BIN_OPS for i in range(N_A)] + [(op, None) for op in UN_OPS]
    nt = len(templates())
    prog_shards = [(t, op, i) for t in range(nt) for op in BIN_OPS for i in range(N_A)]
    mcases = model_case_list()
    pows = pow_cases()
    extra = []
    if tier == 'thorough':
        extra.append(Family('chains', fam_chains, [[x] for x in op_shards if x[1] is not None],
                            f'{len(BIN_OPS)}^2 operator pairs x {N_A}^3 ordered operand triples, (va op1 vb) op2 vc through evaluate_expression',
                            expected=len(BIN_OPS) ** 2 * N_A ** 3))
    fams = [
        Family('ops', fam_ops, split(op_shards, 32),
               f'{len(BIN_OPS)} binary operators x {N_A}^2 ordered pairs + {len(UN_OPS)} unary x {N_A} values, x {len(CONTEXTS)} contexts',
               expected=(len(BIN_OPS) * N_A * N_A + len(UN_OPS) * N_A) * len(CONTEXTS)),
        Family('lib', fam_lib, [(tier, [f]) for f in fids],
               f'{len(fids)} functions (systemFetch x 3 fetchFn behaviours) x every argument tuple of arity 0..3 over a {N_LIB}-value pool'
               + (f' + arity 4 over {N_LIB8} values' if tier == 'thorough' else ''), expected=len(fids) * per_fn),
        Family('programs', fam_programs, split(prog_shards, 48), f'{nt} structured templates x {len(BIN_OPS)} operators x {N_A}^2 ordered operand pairs',
               expected=nt * len(BIN_OPS) * N_A * N_A),
        Family('models', fam_models, split(mcases, 16), f'{len(model_cases())} hand-built schema-valid models + {len(fids)} functions x {len(SHAPES)} '
               'call shapes without an args member', expected=len(model_cases()) + len(fids) * len(SHAPES)),
        Family('options', fam_options, split(option_cases(), 32),
               f'{len(option_calls())} calls (every library function with () and (null) + {len(CURATED_CALLS)} curated: failing/succeeding host and script '
               f'functions, non-function in call position, nested failures) x execute_script/evaluate_expression x 3 debug x 3 logFn settings, + '
               f'{len(bare_calls())} built-in expression calls x options None / {{}}', expected=len(option_calls()) * 18 + len(bare_calls()) * 2),
        Family('reach', fam_reach, split(reach_cases(), 16),
               f'{len(REACH_TARGETS)} calls (one or more per failure kind: ValueArgsError, host exception in the body, BareScriptParserError from an '
               f'expression argument, failing host functions, re-raised runtime error, two that succeed) x {len(REACHES)} ways of reaching the function '
               f'(by name, alias variable, parameter, nested parameter, systemPartial, callback of arrayIndexOf / arraySort) + a bad include inside a '
               f'script function x {len(BAD_INCLUDE_REACHES)} reaches', expected=len(REACH_TARGETS) * len(REACHES) + len(BAD_INCLUDE_REACHES)),
        Family('messages', fam_messages, split(message_cases(), 16),
               f'{len(exception_shapes())} exception shapes raised by a host function (empty str(), multi-line, braces / percent signs, non-string args, '
               f'100 kB, ValueArgsError) x {len(MSG_REACHES)} reaches (by name, as arrayIndexOf callback, inside a script function) x {len(MSG_CONFIGS)} '
               f'debug/logFn configurations x execute_script/evaluate_expression, + the empty-message MemoryError of {MSG_LIBRARY}',
               expected=len(exception_shapes()) * len(MSG_REACHES) * len(MSG_CONFIGS) * 2 + len(MSG_CONFIGS) * 2),
        Family('optkeys', fam_optkeys, optkeys_shards(),
               f'{len(OPT_PROGRAMS)} programs (includes, systemFetch, failing call, log functions, evaluate_expression) x the full product of '
               + ' x '.join(f'{k} in {[("absent" if a is ABSENT else a) for a in alts]}' for k, alts in OPT_KEYS),
               expected=len(OPT_PROGRAMS) * len(opt_configs())),
        Family('oddlib', fam_oddlib, [[f] for f in fids],
               f'{len(fids)} functions x {{debug on, off}} x {len(odd_lib_tuples())} argument tuples (odd), (odd, x), (x, odd) with odd from {N_ODD} host containers '
               'that are not JSON-like (non-string keys; Decimal/set/bytes/object()/UUID/tuple bare and at depth 1 and 2) and x from 4 ordinary values',
               expected=len(fids) * 2 * len(odd_lib_tuples())),
        Family('oddops', fam_oddops, split(list(range(N_ODD)), 20),
               f'{N_ODD} odd host containers x ({len(BIN_OPS)} binary operators x {len(ODD_OP_PARTNERS)} partners x both sides + {len(UN_OPS)} unary) x '
               'evaluate_expression / script statement x debug on / off', expected=N_ODD * len(oddops_cases_of(0))),
        Family('pow_int', fam_pow_int, [[c] for c in pows], f'{len(pows)} int ** int cases with astronomically large exact result (the pairs the family ops '
               f'delegates, x {len(CONTEXTS)} contexts, + 1 pure script), each in a forked child under a {POW_CPU_S} s CPU / {POW_MEM >> 20} MiB guard',
               expected=len(pows)),
        Family('growth', fam_growth, [[{'g': g}] for g in range(len(GROWTH))], f'{len(GROWTH)} loops of 40 statements that double a string / int / array with every '
               'statement, each in a forked child under the same guard', expected=len(GROWTH)),
    ]
    return fams[:1] + extra + fams[1:]


_CHECKS = {'ops': check_ops, 'lib': check_lib, 'programs': check_programs, 'models': check_models, 'pow_int': check_pow_int, 'growth': check_growth, 'chains': check_chains,
           'options': check_options, 'reach': check_reach, 'messages': check_messages,
           'optkeys': check_optkeys, 'oddlib': check_lib, 'oddops': check_oddops}


def replay(family, case):
    acc = Acc(family)
    case = {k: v for k, v in case.items() if k not in ('labels', 'source', 'label', 'template', 'options', 'text', 'target', 'failure', 'exception', 'reached', 'program', 'expression')}
    _CHECKS[family](case, acc)
    res = acc.result()
    return {'differs': bool(res['nviol'] or res['nknown']), 'violations': res['violations'] + res['known_violations']}
