"""C10 Source layout does not change the parsed program (DESIGN 4, C10).

Explicit-state breadth-first search over *texts*: a state is a source text (a str, or a list of chunk strings), a
transition is one layout rewrite applied at one position, the invariant is parse_script(state) == parse_script(plain text of the
same logical lines: comments and blank lines dropped, continued parts joined by one space, no indentation, LF, one str).
The rewrite system and the corpus are in mc/gen/layout.py and share no code with bare_script.
"""

import copy
import hashlib
import itertools
import multiprocessing
import os

from ..common import HarnessError, load_impl, show
from ..engine.shard import Acc, Family, split
from ..gen import layout as L

LEVEL = 'model_checking'
RULE = ('state = one distinct source text (str, or tuple of chunk strings passed as a list); transition = one layout rewrite '
        'applied at one position (LF<->CRLF for the whole text or one line end; chunk cut at a line boundary keeping or dropping '
        'the line end; one-element list; blank / "# comment" / indented comment / comment ending in a backslash inserted at any '
        'line gap, also between the parts of a continued line; one line re-indented to none / 2 spaces / tab; trailing spaces or '
        'tab on one line; one line broken with a trailing backslash at one whitespace run between two tokens in five styles: '
        'whitespace kept before the backslash and the rest indented, the same with blanks after the backslash, tight (tok\\ / tok: '
        'the break consumes the whitespace), blank only before, blank only after); trace = one parse compared by deep equality with the model of the plain logical-line text of the root (comment and blank lines dropped, continued parts joined by one space, no indentation). Breadth-first with '
        'de-duplication on the text to the depth bound from every corpus program; depth 1 (thorough: 2 for the short files) from '
        'every shipped .bare file; all 3^(n-1) chunkings of programs of <= 8 lines; all subsets of the gaps of every line; '
        'parse(A) parse(B) parse(A) for every ordered pair of a corpus of valid, invalid and near-duplicate texts / expressions '
        '(differing only inside a literal, name, include target or comment by whitespace, letter case or quote style): A twice the same, '
        'A and B each equal to their result in a fresh process. Corpus lines also use form feed / vertical tab between tokens and '
        'literals containing the characters str.splitlines() would split at (CR, VT, FF, FS, GS, RS, NEL, LS, PS). '
        'A state is non-trivial when its number of physical lines differs from the root text (continuation breaks, inserted lines).')
ASSUMPTIONS = [
    'trusted: the token-gap notation of the corpus (cross-checked against the quote scanner on every run) and the quote scanner for shipped files',
    'a line is only broken where whitespace already exists between two tokens (never inside literals, [names], <system include> targets, operators)',
    'a trailing backslash at the very end of the input is never generated (parser error since the F11 fix)',
    'statelessness also requires that mutating a returned model does not change later results',
    'all reference results are parsed in freshly forked children of a process that never called the parser',
    'form feed and vertical tab are inter-token whitespace (they are for the \\s of the statement regexes); checked: the plain text of such a program must parse',
]

_CACHE = {}


def the_corpus():
    if 'corpus' not in _CACHE:
        _CACHE['corpus'] = L.corpus()
    return _CACHE['corpus']


def shipped_dir():
    load_impl()
    import bare_script.include as inc  # pylint: disable=import-outside-toplevel,import-error
    return os.path.dirname(os.path.abspath(inc.__file__))


def shipped_names():
    return sorted(n for n in os.listdir(shipped_dir()) if n.endswith('.bare'))


def shipped_state(name):
    key = ('shipped', name)
    if key not in _CACHE:
        with open(os.path.join(shipped_dir(), name), encoding='utf-8', newline='') as fh:
            text = fh.read()
        st = L.scan_state(text)
        if L.render(st) != text:
            raise HarnessError(f'scanner does not reproduce {name}')
        _CACHE[key] = st
    return _CACHE[key]


def root_state(case):
    if 'prog' in case:
        name, st = the_corpus()[case['prog']]
        if 'name' in case and case['name'] != name:
            raise HarnessError('corpus changed: program index does not match the recorded name')
        return st
    return shipped_state(case['file'])


def parse_obs(inp, kind=None):
    """Parse a rendered state with the real parser. A tuple of chunks is passed as a list (kind None/'list'), as a tuple or as
    a one-shot iterator. Returns ('ok', model) or ('raise', class, error, line number, column, line)."""
    bs = load_impl()
    _CACHE['parsed_here'] = True
    if isinstance(inp, tuple):
        arg = inp if kind == 'tuple' else iter(list(inp)) if kind == 'iter' else list(inp)
    else:
        arg = inp
    try:
        return ('ok', bs.parse_script(arg))
    except Exception as exc:  # pylint: disable=broad-exception-caught
        return ('raise', type(exc).__name__, getattr(exc, 'error', str(exc)[:200]), getattr(exc, 'line_number', None),
                getattr(exc, 'column_number', None), getattr(exc, 'line', None))


def _pristine_child(job):
    kind, text = job
    return _parse_any(kind, text)


def pristine(kind, texts):
    """Parse every text in its own freshly forked child of this process. Used for all reference results, from a process that
    has itself never called the parser (the runner's parent process, or a replay process before it runs the case): a
    reference result therefore cannot depend on any earlier parser call."""
    if _CACHE.get('parsed_here'):
        raise HarnessError('reference parse requested from a process that has already used the parser')
    if not texts:
        return []
    ctx = multiprocessing.get_context('fork')
    with ctx.Pool(min(8, len(texts)), maxtasksperchild=1) as pool:
        return pool.map(_pristine_child, [(kind, t) for t in texts], chunksize=1)


def load_references():
    """Reference models of all roots (plain logical-line texts) and reference results of the statelessness texts."""
    if 'refs' in _CACHE:
        return
    roots = [{'prog': i, 'name': name} for i, (name, _) in enumerate(the_corpus())] + [{'file': n} for n in shipped_names()]
    # Four plain layouts of every root are parsed, each in a fresh process: the tightest text as one string and as the list of
    # its lines, the text with one blank at every gap, the root text as written. A root is a fixed valid program: the first
    # of them that parses gives the reference model; a layout that is rejected, or parses differently, is reported by the
    # root's search as a violation (check_plain) - never as a harness error.
    tight = [L.canonical_text(root_state(c)) for c in roots]
    layouts = [pristine('script', tight),
               pristine('script', [t.split('\n') for t in tight]),
               pristine('script', [L.canonical_text(root_state(c), spaced=True) for c in roots]),
               pristine('script', [_as_arg(L.render(root_state(c))) for c in roots])]
    for n, case in enumerate(roots):
        cands = tuple(lay[n] for lay in layouts)
        good = next((obs for obs in cands if obs[0] == 'ok'), None)
        _CACHE[('model', case.get('prog'), case.get('file'))] = good[1] if good is not None else None
        _CACHE[('plainpair', case.get('prog'), case.get('file'))] = cands
    _CACHE[('baseline', 'script')] = pristine('script', script_texts())
    _CACHE[('baseline', 'expression')] = pristine('expression', expr_texts())
    _CACHE['refs'] = True


def _as_arg(inp):
    return list(inp) if isinstance(inp, tuple) else inp


PLAIN_LAYOUTS = ['the tightest text (no optional whitespace) as one string', 'the tightest text as the list of its lines',
                 'the text with one blank at every gap', 'the root text as written']


def original_model(case):
    load_references()
    return _CACHE[('model', case.get('prog'), case.get('file'))]


def first_difference(a, b, path='model'):
    if type(a) is not type(b):
        return f'{path}: {show(a)!r} vs {show(b)!r}'
    if isinstance(a, dict):
        for k in sorted(set(a) | set(b)):
            if k not in a or k not in b:
                return f'{path}.{k}: present on one side only'
            d = first_difference(a[k], b[k], f'{path}.{k}')
            if d:
                return d
        return None
    if isinstance(a, list):
        if len(a) != len(b):
            return f'{path}: {len(a)} vs {len(b)} elements'
        for i, (x, y) in enumerate(zip(a, b)):
            d = first_difference(x, y, f'{path}[{i}]')
            if d:
                return d
        return None
    return None if a == b else f'{path}: {a!r} vs {b!r}'


def compare_text(case, inp, acc, kind=None):
    """The invariant for one state: the real parser gives the model of the plain logical-line text of the root."""
    orig = original_model(case)
    obs = parse_obs(inp, kind)
    acc.evals += 1
    acc.traces += 1
    if obs[0] != 'ok':
        acc.violation(_with_text(case, inp), 'the model of the plain logical-line text', list(obs), 'the text is rejected by the parser')
        return False
    if orig is None:
        acc.count('states_without_reference')     # every plain layout of this root was rejected (reported by check_plain)
        return True
    if obs[1] != orig:
        acc.violation(_with_text(case, inp), 'the model of the plain logical-line text', first_difference(orig, obs[1]), 'the text parses to a different model')
        return False
    return True


def _with_text(case, inp):
    size = len(inp) if isinstance(inp, str) else sum(len(c) for c in inp)
    if size <= 1500:
        return dict(case, text=inp if isinstance(inp, str) else list(inp))
    return case


def check_plain(case, acc):
    """The plain layouts of a root (PLAIN_LAYOUTS), each parsed in a fresh process. A root is a fixed valid program: every
    layout must be accepted and all must give the same model."""
    load_references()
    cands = _CACHE[('plainpair', case.get('prog'), case.get('file'))]
    ref = original_model(case)
    acc.evals += len(cands)
    acc.traces += 1
    ok = True
    tight = L.canonical_text(root_state(case))
    base = dict(case, plain=True, tightest_text=tight if len(tight) <= 1500 else '(long)')
    if ref is None:
        acc.violation(base, 'a valid program is accepted', [list(c[:4]) for c in cands], 'every plain layout of the root is rejected by the parser')
        return False
    for label, obs in zip(PLAIN_LAYOUTS, cands):
        if obs[0] != 'ok':
            acc.violation(dict(base, layout=label), 'accepted, with the model of the other plain layouts', list(obs[:7]),
                          'one plain layout of the root is rejected while another one parses')
            ok = False
        elif obs[1] != ref:
            acc.violation(dict(base, layout=label), 'the model of the other plain layouts', first_difference(ref, obs[1]),
                          'two plain layouts of the root parse to different models')
            ok = False
    return ok


def check_path(case, acc):
    """Replayable unit: root text + a path of rewrites (+ optional chunking / gap subset) -> compare."""
    if case.get('plain'):
        return check_plain(case, acc), None
    st = root_state(case)
    st = L.apply_path(st, case.get('path', []))
    if st is None:
        raise HarnessError(f'rewrite path does not apply: {case}')
    if 'gaps' in case:
        mode = case.get('mode', 0)
        nv = len(L.BREAKS)
        spaced = [g for g, ws in enumerate(st[0][case['line']][3]) if ws]     # the whitespace gaps of the line
        st = L.break_gaps(st, case['line'], [spaced[b] for b in case['gaps']], (lambda k: mode) if mode < nv else (lambda k: k % nv))
    if 'opt' in case:
        optional = L.optional_gaps(st, case['line'])
        st = L.assign_optional(st, case['line'], [optional[b] for b in case['opt']], lambda k: L.OPT_BLANKS[(k + case.get('v', 0)) % 2])
    if 'chunks' in case:
        st = L.chunking(st, case['chunks'])
    return compare_text(case, L.render(st), acc, case.get('as')), st


# ---- BFS ----------------------------------------------------------------------------------------------------------------

def text_key(inp):
    """De-duplication key of a rendered state: a 128-bit digest of the text (str and chunk tuples are kept apart)."""
    if isinstance(inp, str):
        data = 's' + inp
    else:
        data = 't' + '\x00'.join(inp)
    return hashlib.blake2b(data.encode('utf-8', 'surrogatepass'), digest_size=16).digest()


def bfs(base, depth, acc, part=(0, 1)):
    """Level-synchronous BFS with de-duplication on the rendered text. base: {'prog': i, 'name': ..} or {'file': name}.

    part = (k, n): every shard of one root performs the same deterministic search (so the de-duplication is global), but a
    newly discovered state is parsed and counted only by the shard k with discovery number % n == k; transitions and the root
    are counted by shard 0. With part = (0, 1) this is the plain search."""
    k, n = part
    root = root_state(base)
    orig_lines = L.physical_lines(root)
    seen = {text_key(L.render(root))}
    if k == 0:
        acc.states += 1
        acc.cases += 1
        ok = compare_text(dict(base, path=[]), L.render(root), acc)
        acc.outcome((base.get('prog', base.get('file')), orig_lines, False, ok))
        acc.cases += 1
        check_plain(base, acc)
    frontier = [(root, [])]
    disc = 0
    for level in range(1, depth + 1):
        last = level == depth
        nxt = []
        for st, path in frontier:
            for desc in L.rewrites(st):
                st2 = L.apply(st, desc)
                if st2 is None:
                    raise HarnessError(f'enumerated rewrite does not apply: {base} {path} {desc}')
                if k == 0:
                    acc.transitions += 1
                inp = L.render(st2)
                key = text_key(inp)
                if key in seen:
                    continue
                seen.add(key)
                disc += 1
                if not last:
                    nxt.append((st2, path + [desc]))
                if disc % n != k:
                    continue
                acc.cases += 1
                acc.states += 1
                ok = compare_text(dict(base, path=path + [desc]), inp, acc)
                nl = L.physical_lines(st2)
                if nl != orig_lines:
                    acc.nontrivial += 1
                acc.outcome((base.get('prog', base.get('file')), nl, isinstance(inp, tuple), ok))
                if disc % 997 == 1 and last:
                    acc.sample({'root': base.get('name', base.get('file')), 'path': path + [desc],
                                'text': inp if isinstance(inp, str) and len(inp) < 400 else '(long or chunked)'})
        frontier = nxt


def fam_bfs(arg):
    depth, i, k, n = arg
    acc = Acc('bfs_corpus')
    bfs({'prog': i, 'name': the_corpus()[i][0]}, depth, acc, part=(k, n))
    return acc.result()


def bfs_shards(depth):
    """One shard per corpus program, most expensive first; a program whose estimated last level exceeds 250 000 states is
    searched by several shards (same deterministic search, the parses of the discovered states are divided among them)."""
    corpus = the_corpus()
    out = []
    for i, (_, st) in enumerate(corpus):
        r = len(L.rewrites(st))
        d = depth if (depth < 3 or r <= DEPTH3_MAX_REWRITES) else depth - 1
        est = r ** d // (1, 1, 2, 6)[d]
        parts = max(1, min(8, -(-est // 250000)))
        out.extend((est // parts, d, i, k, parts) for k in range(parts))
    out.sort(key=lambda t: (-t[0], t[2], t[3]))
    return [(d, i, k, parts) for _, d, i, k, parts in out]


DEPTH3_MAX_REWRITES = 190    # a root with more depth-1 rewrites than this is searched to depth 2 in thorough as well (time budget)


def fam_shipped(arg):
    depth, name, k, n = arg
    acc = Acc('bfs_shipped')
    bfs({'file': name}, depth, acc, part=(k, n))
    return acc.result()


# ---- all chunkings of small programs ---------------------------------------------------------------------------------------

def small_programs():
    return [i for i, (_, st) in enumerate(the_corpus()) if 2 <= L.physical_lines(st) <= 8]


def fam_chunkings(arg):
    progs = arg
    acc = Acc('chunkings')
    corpus = the_corpus()
    for i in progs:
        name, st = corpus[i]
        n = L.physical_lines(st)
        seen = set()
        for num, assignment in enumerate(itertools.product((0, 1, 2), repeat=n - 1)):
            # a boundary whose line has no line end characters cannot "drop" them: choice 2 then equals choice 1 -> still enumerated, de-duplicated below
            kind = ('list', 'tuple', 'iter')[num % 3]
            case = {'prog': i, 'name': name, 'chunks': list(assignment), 'as': kind}
            acc.cases += 1
            acc.transitions += 1
            inp = L.render(L.chunking(st, assignment))
            if inp not in seen:
                seen.add(inp)
                acc.states += 1
            ok = compare_text(case, inp, acc, kind)
            if len(inp) > 1:
                acc.nontrivial += 1
            acc.outcome((i, len(inp), ok))
            if num == 3 ** (n - 1) // 2 and i % 9 == 0:
                acc.sample({'root': name, 'chunks': list(inp)})
    return acc.result()


# ---- all subsets of the gaps of one line -------------------------------------------------------------------------------------

MAX_GAPS = 12
MAX_OPT = 14


def gap_lines():
    """(program index, line index, number of gaps) for every code line with 1..MAX_GAPS gaps."""
    out = []
    for i, (_, st) in enumerate(the_corpus()):
        for li, ln in enumerate(st[0]):
            g = sum(1 for ws in ln[3] if ws)
            if not ln[0] and 1 <= g <= MAX_GAPS:
                out.append((i, li, g))
    return out


def opt_lines():
    """(program index, line index, number of optional-whitespace positions) for every code line with 1..MAX_OPT of them."""
    out = []
    for i, (_, st) in enumerate(the_corpus()):
        for li, ln in enumerate(st[0]):
            e = len(L.optional_gaps(st, li))
            if not ln[0] and 1 <= e <= MAX_OPT:
                out.append((i, li, e))
    return out


def fam_optsets(arg):
    acc = Acc('optional_blank_subsets')
    corpus = the_corpus()
    for i, li, e in arg:
        name = corpus[i][0]
        for mask in range(1 << e):
            subset = [b for b in range(e) if mask >> b & 1]
            for v in (0, 1):
                case = {'prog': i, 'name': name, 'line': li, 'opt': subset, 'v': v}
                acc.cases += 1
                acc.transitions += len(subset)
                ok, st = check_path(case, acc)
                if subset or v == 0:
                    acc.states += 1          # with no blank at all both phases give the same text
                if subset:
                    acc.nontrivial += 1
                acc.outcome((i, li, len(subset), ok))
                if mask == (1 << e) - 1 and v == 0 and (i + li) % 13 == 0:
                    acc.sample({'root': name, 'line': li, 'blank_at_every_optional_position': L.render(st)})
    return acc.result()


GAP_MODES = len(L.BREAKS) + 1    # every break of the subset in the same style (5 styles), or the styles in rotation


def fam_gapsets(arg):
    acc = Acc('gap_subsets')
    corpus = the_corpus()
    for i, li, g in arg:
        name = corpus[i][0]
        for mask in range(1 << g):
            subset = [b for b in range(g) if mask >> b & 1]
            seen = set()
            for mode in range(GAP_MODES):
                case = {'prog': i, 'name': name, 'line': li, 'gaps': subset, 'mode': mode}
                acc.cases += 1
                acc.transitions += len(subset)
                ok, st = check_path(case, acc)
                text = L.render(st)
                if text not in seen:
                    seen.add(text)
                    acc.states += 1
                    if subset:
                        acc.nontrivial += 1
                acc.outcome((i, li, len(subset), ok))
                if mask == (1 << g) - 1 and mode == 2 and (i + li) % 11 == 0:
                    acc.sample({'root': name, 'line': li, 'all_gaps_broken_tight': text})
    return acc.result()


# ---- statelessness -------------------------------------------------------------------------------------------------------------

def script_texts():
    corpus = the_corpus()
    valid = [L.render(st) for _, st in corpus[:16]]
    chunked = [list(L.render(L.chunking(st, [1] * (L.physical_lines(st) - 1)))) for _, st in corpus[16:20]]
    return (valid + chunked + list(L.INVALID_SCRIPTS) + [list(c) for c in L.INVALID_CHUNKED]
            + list(L.NEAR_SCRIPTS) + [list(c) for c in L.NEAR_CHUNKED])


def expr_texts():
    return list(L.VALID_EXPRS) + list(L.INVALID_EXPRS) + list(L.NEAR_EXPRS)


def _parse_any(kind, text):
    bs = load_impl()
    _CACHE['parsed_here'] = True
    fn = bs.parse_script if kind == 'script' else bs.parse_expression
    arg = list(text) if isinstance(text, list) else text
    try:
        return ('ok', fn(arg))
    except Exception as exc:  # pylint: disable=broad-exception-caught
        return ('raise', type(exc).__name__, str(exc), getattr(exc, 'error', None), getattr(exc, 'line', None),
                getattr(exc, 'column_number', None), getattr(exc, 'line_number', None))


def _scribble(model):
    """Mutate a returned model in place (the caller owns it)."""
    if isinstance(model, dict):
        for v in list(model.values()):
            _scribble(v)
        model.clear()
        model['scribbled'] = True
    elif isinstance(model, list):
        for v in model:
            _scribble(v)
        del model[:]


def baseline(kind):
    load_references()
    return _CACHE[('baseline', kind)]


def check_pairstate(case, acc):
    kind, i, j = case['kind'], case['i'], case['j']
    texts = script_texts() if kind == 'script' else expr_texts()
    base = baseline(kind)
    a, b = texts[i], texts[j]
    case = dict(case, a=a, b=b)
    first = _parse_any(kind, a)
    snap = copy.deepcopy(first)
    if first[0] == 'ok':
        _scribble(first[1])
    mid = _parse_any(kind, b)
    mid_snap = copy.deepcopy(mid)
    if mid[0] == 'ok':
        _scribble(mid[1])
    again = _parse_any(kind, a)
    acc.evals += 3
    acc.transitions += 3
    acc.traces += 1
    if again != snap:
        acc.violation(case, show(snap), show(again), 'parse(A) after parse(B) differs from the first parse(A)')
    elif snap != base[i]:
        acc.violation(case, show(base[i]), show(snap), 'parse(A) differs from the parse of A made in a fresh process')
    if mid_snap != base[j]:
        acc.violation(case, show(base[j]), show(mid_snap), 'parse(B) right after parse(A) is not the result B has in a fresh process')
    return (snap[0], mid[0])


def fam_state(arg):
    kind, rows = arg
    acc = Acc('stateless_' + kind)
    n = len(script_texts() if kind == 'script' else expr_texts())
    for i in rows:
        for j in range(n):
            acc.cases += 1
            acc.states += 1
            obs = check_pairstate({'kind': kind, 'i': i, 'j': j}, acc)
            acc.outcome(obs)
            texts = script_texts() if kind == 'script' else expr_texts()
            if obs[0] != obs[1] or (texts[i] != texts[j] and L.normalised(texts[i]) == L.normalised(texts[j])):
                acc.nontrivial += 1     # one text valid and the other rejected, or near-duplicates (equal up to case/whitespace/quotes/comments)
            if j == (i * 3 + 1) % n and i % 7 == 0:
                texts = script_texts() if kind == 'script' else expr_texts()
                acc.sample({'A': texts[i], 'B': texts[j], 'results': list(obs)})
    return acc.result()


# ---- families ----------------------------------------------------------------------------------------------------------------

SHORT_FILE_LINES = 100


def self_check():
    """The corpus notation and the quote scanner must agree on every corpus program (both are trusted inputs of the check)."""
    for name, st in the_corpus():
        text = L.render(st)
        if L.scan_state(text) != st:
            raise HarnessError(f'corpus notation and quote scanner disagree on the gaps of {name}')


def families(tier):
    self_check()
    corpus = the_corpus()
    # All reference results are computed here, each in its own forked child of the parent, which itself never calls the
    # parser; the shard processes inherit them. A reference can therefore not be disturbed by state the parser keeps.
    load_references()
    depth = 2 if tier == 'quick' else 3
    names = shipped_names()
    if not names:
        raise HarnessError('no *.bare file found in the bare_script.include package directory')
    ship = []
    for name in names:
        nlines = L.physical_lines(shipped_state(name))
        d = 2 if (tier == 'thorough' and nlines <= SHORT_FILE_LINES) else 1
        nsh = 16 if d == 2 else max(1, min(8, nlines // 50))
        ship.extend((d, name, k, nsh) for k in range(nsh))
    small = small_programs()
    glines = gap_lines()
    olines = opt_lines()
    ns, ne = len(script_texts()), len(expr_texts())
    # statelessness first: its witnesses replay in a fresh process, which the runner's confirmation step needs
    return [
        Family('stateless_script', fam_state, [('script', r) for r in split(list(range(ns)), 16)],
               f'every ordered pair (A, B) of {ns} valid, invalid and near-duplicate script texts: parse A, parse B, parse A', expected=ns * ns),
        Family('stateless_expression', fam_state, [('expression', r) for r in split(list(range(ne)), 8)],
               f'every ordered pair (A, B) of {ne} valid, invalid and near-duplicate expression texts: parse A, parse B, parse A', expected=ne * ne),
        Family('gap_subsets', fam_gapsets, split(glines, 32),
               f'{len(glines)} corpus code lines with 1..{MAX_GAPS} gaps: every subset of the gaps broken at once x (5 break styles, or the styles in rotation)',
               expected=sum(2 ** g for _, _, g in glines) * GAP_MODES),
        Family('optional_blank_subsets', fam_optsets, split(olines, 32),
               f'{len(olines)} corpus code lines with 1..{MAX_OPT} optional-whitespace positions (the statement grammar has \\s* there): every subset '
               'of them holding one blank (space / tab alternating, from either phase) and the others holding nothing',
               expected=sum(2 ** e for _, _, e in olines) * 2),
        Family('chunkings', fam_chunkings, split(small, 24),
               f'{len(small)} corpus programs of 2..8 lines: every assignment of (no cut | cut keeping the line end | cut dropping the line end) to every line boundary',
               expected=sum(3 ** (L.physical_lines(corpus[i][1]) - 1) for i in small)),
        Family('bfs_corpus', fam_bfs, bfs_shards(depth),
               f'{len(corpus)} corpus programs, every text reachable by <= {depth} layout rewrites (de-duplicated on the text)'
               + (f'; depth 2 for the {sum(1 for _, st in corpus if len(L.rewrites(st)) > DEPTH3_MAX_REWRITES)} program(s) with more than '
                  f'{DEPTH3_MAX_REWRITES} depth-1 rewrites' if depth >= 3 else '')),
        Family('bfs_shipped', fam_shipped, ship,
               f'{len(names)} shipped .bare files, every text reachable by 1 layout rewrite'
               + (f' (2 rewrites for the files of <= {SHORT_FILE_LINES} lines)' if tier == 'thorough' else '')),
    ]


def replay(family, case):
    acc = Acc(family)
    if family.startswith('stateless_'):
        obs = check_pairstate(case, acc)
    else:
        obs = check_path(case, acc)[0]
    res = acc.result()
    return {'differs': bool(res['nviol'] or res['nknown']), 'observed': show(obs), 'violations': res['violations'] + res['known_violations']}
