"""C14 JSON serialisation is faithful: jsonParse(jsonStringify(v)) equals v (DESIGN 4, C14)."""

import json
import math

from ..common import load_impl
from ..engine.shard import Acc, Family, split
from ..ref import jsonlex as jl

LEVEL = 'exploration'
RULE = ('value spaces, each indexed 0..size-1 and enumerated completely for every indent of the tier: (strings) every '
        'string of length <= 4 over {a . 0 , ] }}, of length <= 4 over {quote backslash 1 . 0 ,} of length <= 2 over 13 special characters, plus 40 strings that look like another type (dates, ISO datetimes, null/true/NaN/Infinity, 1e5, 0x10, -0, 007, JSON texts such as [1]) and 45 strings that look like syntax around JSON (// and /* */ and # comments, also after a line break inside the string, trailing commas, unquoted keys, escape look-alikes) (quote, backslash, slash, '
        'LF, NUL, U+001F, U+007F, e-acute, U+2028, a non-BMP emoji, a lone surrogate, ".", "0"), each placed in 7 '
        'contexts (top level, first/last array element, next to 1.0, object value, object key, key+value+nested); '
        '(flat) every array of length <= 2 and every object over keys b, a, a.0 (inserted in that order) over 9 leaves; '
        '(nested) arrays/objects whose members are leaves or depth-1 containers over a reduced leaf set; (nested3, '
        'thorough) one level deeper over a smaller set; (deep) every path of <= 5 array/object steps around 14 leaves; '
        '(numbers) doubles m x 10^e and integers, as int and float carriers, in 4 contexts. Per value and indent: the text of '
        'jsonStringify (direct call and inside a script) must be valid JSON for an independent strict lexer/parser and for '
        'json.loads, both decoding to a value equal to v; jsonParse of it (direct and in the script) must equal v; object keys '
        'appear in sorted order; no number token of an integral value has a fraction; without indent there is no line break, '
        'with indent n every line break is followed by n x depth spaces. (inject) the whole enumerated set once more per '
        'indent in one process: equal texts imply equal values. A case is non-trivial when the text contains a string '
        'that needs escaping or holds one of . 0 , ] }, a number token with a fraction or exponent, or an object with >= 2 keys. '
        '(keys) objects over 19 keys mixing canonical non-negative integers (0, 2, 9, 10, 100, 4294967295), near-integers (00, 01, -1, 1.0) and '
        'keys that sort before / between / after digits: every ordered pair and every 3-subset in two insertion orders - keys must appear in '
        'code-point order. (snippets) every string prefix + number + suffix (JSON punctuation around 0.0, 1.0, -2.0, 1.00, 10.0, 1.0e5, 1.5), bare '
        'and inside a sentence, as value and as key. '
        '(history) for every array/object of depth <= 2 over a small alphabet, every target (top level / first nested container) and every '
        'documented mutator (arrayPush, arraySet, arrayPop, arrayShift, arrayDelete, arrayExtend, objectSet new/existing key, objectDelete, '
        'objectAssign), direct and inside a script: parse T, mutate, parse T, mutate, parse T - every result is the value of T and no two '
        'results share a container; stringify v, mutate v, stringify v, stringify a fresh copy of the original - every text decodes to '
        'the value at that moment; non-trivial when the mutation changed the value. Failed calls (same family): for every good value o of a '
        'small set and every unserialisable value f built around o (inf / -inf / nan at top level and in 8 array/object positions, 6 kinds '
        'of cycle, mixed int/str keys) the histories [fail, ok], [fail, fail, ok], [ok, fail, ok], compact and indented, direct and in a '
        'script: the outcome of the failing call is not compared; afterwards the very containers of each failing value with the offending '
        'member removed, o itself, and a fresh copy of o made after the failing values were dropped must serialise faithfully; likewise '
        'jsonParse(T) around jsonParse of 10 invalid texts; non-trivial when the call that should fail did fail. (pairs) every ordered pair of values built from the '
        'colliding leaves 1, 1.0, true, "1", null, 0, false, "", -0.0, "true", "null": interleaved parses of both texts and '
        'stringification of short-lived temporaries (id reuse). (indents) a 2 220-value set under every indent argument null, -1, 0, 1..12 in '
        'both tiers, int in the direct call and float in the script.')
ASSUMPTIONS = [
    'equality of values is BareScript equality: numbers by value (1 == 1.0, -0.0 == 0), booleans are not numbers',
    'json.loads of the standard library is the "standard JSON parser" of the property; the independent lexer is strict RFC 8259 '
    '(duplicate keys rejected)',
    'a lone surrogate counts as a character of an arbitrary string; two adjacent lone surrogates that would form a pair are not generated',
    'layout: only line breaks and the width of the indentation are compared (doc comment "The indentation number"); spaces after '
    'separators, empty containers and ASCII escaping of non-ASCII characters are UNSPECIFIED',
    'sorted order of keys = code point order (equal to UTF-16 order for the generated keys)',
    'nested3 is not part of the cross-value injectivity pass (memory); injectivity inside it follows from the decode checks',
    'indent 0 and negative indents are outside the documented argument range (the argument model says >= 1): UNSPECIFIED - only a '
    'returned text that does not decode to v would be reported; indents above 12 are not exercised',
    'the mutators used in the history family are trusted only to be deterministic: the expected value after a mutation is a snapshot '
    'of what the mutator produced, not a model of the mutator (that is C15)',
]

S1_ALPHABET = ['a', '.', '0', ',', ']', '}']
S3_ALPHABET = ['"', '\\', '1', '.', '0', ',']
S2_ALPHABET = ['"', '\\', '/', '\n', '\x00', '\x1f', '\x7f', '\u00e9', '\u2028', '\U0001F600', '\ud800', '.', '0']
# strings whose content looks like a value of another type (a "helpful" parser might revive them); none is in S1/S2/S3
S4_LOOKALIKES = ['2024-02-29', '2024-02-30', '1970-01-01', '2024-02-29T12:00:00Z', '2024-02-29T12:00:00+00:00', '2024-02-29T12:00:00-05:30',
                 '2024-02-29T12:00:00.123Z', '2024-02-29T12:00:00.123456+02:00', '2024-02-29T12:00:00', '2024-02-29 12:00:00', '12:00:00',
                 'null', 'true', 'false', 'NaN', 'Infinity', '-Infinity', 'undefined', '1e5', '1E+5', '0x10', '-0', '-0.0', '007', '0123',
                 '00.5', '1.50', '+1', '12', '1.5', ' 1', '[1]', '[]', '{}', '{"a":1}', '"x"', '"2024-02-29"', '<function>', '<regex>',
                 '550e8400-e29b-41d4-a716-446655440000']
# strings whose content looks like syntax *around* JSON that a lenient pre-processor might strip or rewrite before parsing: line and
# block comments, hash comments, trailing commas, unquoted keys, escape look-alikes; also after a line break inside the string.
# (the bare trailing-comma look-alikes ",]" ",}" are in S1, "//" and backslash-slash in S2, the words NaN / Infinity / -Infinity in S4)
S5_SYNTAX = [' // x', 'see // below', '// x', 'a //', ' //', 'http://x/y', '/* x */', 'a /* b */ c', '/*', '*/', '/**/', '# x', 'a # b', '#',
             ' #x', 'a\n// b', '\n//', '\n // x\n', 'a\n# b', 'a\n/* b\n*/', '\t// x', '\r\n// x', '-- x', '; x', '<!-- x -->', "'x'",
             '{/* a */}', '[1, // one\n2]', '[1,]', '{"a":1,}', ', ]', ', }', ',\n]', 'a: 1', 'key: value', '{a: 1}', '\\u0041', '\\n',
             '\\x41', '$ref', '@x', '%7B', '&amp;', '${x}', '{{x}}']
# object keys: canonical non-negative integers (an "array index keys first, in numeric order" serialiser orders them differently from
# code-point order) next to keys that sort before, between and after digits
KEY_ALPHABET = ['0', '2', '9', '10', '100', '00', '01', '-1', '1.0', '4294967295', '', ' ', '!', ',', '-', '.', 'a', 'A', '_']
KEY_VALUES = [1.0, 'x', None]
# number look-alikes inside strings with JSON punctuation around them
SNIPPET_PREFIXES = ['', ',', ':', '[', ', ', ': ', '"', ' ']
SNIPPET_NUMBERS = ['0.0', '1.0', '-2.0', '1.00', '10.0', '1.0e5', '1.5']
SNIPPET_SUFFIXES = ['', ',', ']', '}', ' ', '"']
SNIPPET_FRAMES = [('', ''), ('sizes: 1,', ',3 end')]
CONTEXTS = ['top', 'arr-first', 'arr-last', 'arr-float', 'obj-value', 'obj-key', 'obj-mixed']
LEAVES = [None, True, 1, 1.0, 1.5, -0.0, 1e+21, 's', 'a.0]']
KEYS = ['b', 'a', 'a.0']
REDUCED = [None, 1.0, 'a.0]']
TINY = [1.0, 'a.0]']
KEYS2 = ['b', 'a.0']
DEEP_LEAVES = ['a.0]', '1.0}', 'etc., x', '.', '"\\', '\u2028\U0001F600', 1.0, -0.0, 1e+21, 1.5, None, True, {}, []]
DEEP_STEPS = ['A0', 'A1', 'O']
INDENTS = {'quick': [None, 1, 2, 4], 'thorough': [None, 1, 2, 3, 4, 5, 6, 7, 8]}
NUM_CONTEXTS = ['top', 'arr', 'obj', 'arr-str']
NUM_INDENTS = [None, 2]
NESTED3_INDENTS = [None, 1, 2, 8]
PARAMS = {
    'quick': {'deep': 5, 'DA': 1, 'DB': 2, 'NI': 1000},
    'thorough': {'deep': 6, 'DA': 2, 'DB': 3, 'NI': 10000},
}
BIG_INTS = [2 ** 53 - 1, 2 ** 53, 2 ** 53 + 2, 10 ** 15, 10 ** 15 + 1, 10 ** 16, 10 ** 17, 10 ** 21, 10 ** 22]
NUM_SPECIALS = [1.05, 10.05, 1.005, 100.5, 2.05, 0.001, 0.0001, 1e-05, 1.5e-07, 1000000.5, 123456789012345.6, 1234567890123456.8,
                1.5e+16, 1.2345678901234567e+19, 1.7976931348623157e+308, 5e-324, 0.1, 0.30000000000000004, 100.0, 1e+16, 1e+23]

_IMPL = {}
_CACHE = {}


def impl():
    if not _IMPL:
        bs = load_impl()
        from bare_script.library import SCRIPT_FUNCTIONS  # pylint: disable=import-outside-toplevel,import-error
        _IMPL['bs'] = bs
        _IMPL['F'] = SCRIPT_FUNCTIONS
        _IMPL['s_indent'] = bs.parse_script('tt = jsonStringify(vv, ind)\nreturn arrayNew(tt, jsonParse(tt), jsonParse(jsonStringify(vv, ind)))')
        _IMPL['s_plain'] = bs.parse_script('tt = jsonStringify(vv)\nreturn arrayNew(tt, jsonParse(tt), jsonParse(jsonStringify(vv)))')
    return _IMPL


# ---------------------------------------------------------------------------------------------------------------------
# indexed value spaces


def all_strings(alphabet, maxlen):
    out = ['']
    layer = ['']
    for _ in range(maxlen):
        layer = [s + ch for s in layer for ch in alphabet]
        out.extend(layer)
    return out


def strings():
    if 'strings' not in _CACHE:
        out = all_strings(S1_ALPHABET, 4)
        for more in (all_strings(S3_ALPHABET, 4), all_strings(S2_ALPHABET, 2)):
            seen = set(out)
            out = out + [s for s in more if s not in seen]
        if set(out) & set(S4_LOOKALIKES) or len(set(S4_LOOKALIKES)) != len(S4_LOOKALIKES):
            raise ValueError('S4_LOOKALIKES must be disjoint from the generated string sets')
        out = out + S4_LOOKALIKES
        if set(out) & set(S5_SYNTAX) or len(set(S5_SYNTAX)) != len(S5_SYNTAX):
            raise ValueError('S5_SYNTAX must be disjoint from the other string sets')
        _CACHE['strings'] = out + S5_SYNTAX
    return _CACHE['strings']


# S1 + (S3 minus the strings over the common symbols . 0 ,) + (S2 minus the strings over the symbols " \ . 0 it shares with S1/S3)
N_STRINGS = 1555 + (1555 - sum(3 ** k for k in range(5))) + (sum(13 ** k for k in range(3)) - sum(4 ** k for k in range(3))) + 40 + 45


def in_context(s, ctx):
    if ctx == 'top':
        return s
    if ctx == 'arr-first':
        return [s, 1]
    if ctx == 'arr-last':
        return [1, s]
    if ctx == 'arr-float':
        return [s, 1.0]
    if ctx == 'obj-value':
        return {'k': s}
    if ctx == 'obj-key':
        return {s: 1}
    return {'b': 1.0, s: s, 'a': [s]}


class ArrSpace:
    """Arrays of length <= maxlen over pool, simplest first."""

    def __init__(self, pool, maxlen):
        self.pool, self.maxlen = pool, maxlen
        self.size = sum(len(pool) ** k for k in range(maxlen + 1))

    def at(self, idx):
        n = len(self.pool)
        for k in range(self.maxlen + 1):
            if idx < n ** k:
                items = []
                for _ in range(k):
                    idx, r = divmod(idx, n)
                    items.append(self.pool[r])
                return items[::-1]
            idx -= n ** k
        raise IndexError(idx)


class ObjSpace:
    """Objects over `keys` (inserted in the given, unsorted, order); each key absent or a pool member; at most maxkeys present."""

    def __init__(self, keys, pool, maxkeys):
        self.keys, self.pool = keys, pool
        self.subsets = []
        for mask in range(1 << len(keys)):
            present = [i for i in range(len(keys)) if mask >> i & 1]
            if len(present) <= maxkeys:
                self.subsets.append(present)
        self.subsets.sort(key=lambda p: (len(p), p))
        self.size = sum(len(pool) ** len(p) for p in self.subsets)

    def at(self, idx):
        n = len(self.pool)
        for present in self.subsets:
            cnt = n ** len(present)
            if idx < cnt:
                vals = []
                for _ in present:
                    idx, r = divmod(idx, n)
                    vals.append(self.pool[r])
                vals = vals[::-1]
                return {self.keys[i]: v for i, v in zip(present, vals)}
            idx -= cnt
        raise IndexError(idx)


class Union:
    def __init__(self, parts):
        self.parts = parts
        self.size = sum(p.size for p in parts)

    def at(self, idx):
        for p in self.parts:
            if idx < p.size:
                return p.at(idx)
            idx -= p.size
        raise IndexError(idx)


class ListSpace:
    def __init__(self, items):
        self.items = items
        self.size = len(items)

    def at(self, idx):
        return self.items[idx]


def enumerate_all(space):
    return [space.at(i) for i in range(space.size)]


class StringSpace:
    size = N_STRINGS * len(CONTEXTS)

    @staticmethod
    def at(idx):
        si, ci = divmod(idx, len(CONTEXTS))
        return in_context(strings()[si], CONTEXTS[ci])


class DeepSpace:
    def __init__(self, maxdepth):
        self.maxdepth = maxdepth
        self.paths = sum(len(DEEP_STEPS) ** k for k in range(maxdepth + 1))
        self.size = self.paths * len(DEEP_LEAVES)

    def at(self, idx):
        pi, li = divmod(idx, len(DEEP_LEAVES))
        v = DEEP_LEAVES[li]
        n = len(DEEP_STEPS)
        for k in range(self.maxdepth + 1):
            if pi < n ** k:
                for _ in range(k):
                    pi, r = divmod(pi, n)
                    step = DEEP_STEPS[r]
                    v = [v, 1.0] if step == 'A0' else ([1.0, v] if step == 'A1' else {'b': 1.0, 'a': v})
                return v
            pi -= n ** k
        raise IndexError(idx)


PRUNED = ('PRUNED',)


def number_list(tier):
    """Numbers for the numbers family: integers as int and float carriers, m x 10^e products (a product that is zero or
    overflows is kept as the placeholder PRUNED so that the size has a closed form)."""
    key = ('numbers', tier)
    if key in _CACHE:
        return _CACHE[key]
    pr = PARAMS[tier]
    out = []
    for n in list(range(0, pr['NI'] + 1)) + BIG_INTS:
        out.extend((n, float(n), -n, -float(n)))
    for x in NUM_SPECIALS:
        out.extend((x, -x))
    for digits, erange in ((pr['DA'], range(-326, 309)), (pr['DB'], range(-8, 23))):
        for m in range(1, 10 ** digits):
            if m % 10 == 0:
                continue
            for e in erange:
                x = float(f'{m}e{e}')
                if x == 0 or math.isinf(x):
                    out.extend((PRUNED, PRUNED))
                else:
                    out.extend((x, -x))
    _CACHE[key] = out
    return out


class NumberSpace:
    def __init__(self, tier):
        self.nums = number_list(tier)
        self.size = len(self.nums) * len(NUM_CONTEXTS)

    def at(self, idx):
        ni, ci = divmod(idx, len(NUM_CONTEXTS))
        x = self.nums[ni]
        if x is PRUNED:
            return PRUNED
        ctx = NUM_CONTEXTS[ci]
        if ctx == 'top':
            return x
        if ctx == 'arr':
            return [x]
        if ctx == 'obj':
            return {'a': x}
        return [x, 's.0', x]


class KeySpace:
    """Objects with 2 keys (every ordered pair = both insertion orders) and 3 keys (every 3-subset, inserted in list order and reversed)."""

    def __init__(self):
        import itertools  # pylint: disable=import-outside-toplevel
        n = len(KEY_ALPHABET)
        self.items = [list(p) for p in itertools.permutations(range(n), 2)]
        for c in itertools.combinations(range(n), 3):
            self.items.append(list(c))
            self.items.append(list(c)[::-1])
        self.size = len(self.items)

    def at(self, idx):
        return {KEY_ALPHABET[k]: KEY_VALUES[i] for i, k in enumerate(self.items[idx])}


class SnippetSpace:
    size = 2 * 8 * 7 * 6 * 7

    @staticmethod
    def at(idx):
        idx, ci = divmod(idx, len(CONTEXTS))
        idx, si = divmod(idx, len(SNIPPET_SUFFIXES))
        idx, ni = divmod(idx, len(SNIPPET_NUMBERS))
        fi, pi = divmod(idx, len(SNIPPET_PREFIXES))
        head, tail = SNIPPET_FRAMES[fi]
        return in_context(head + SNIPPET_PREFIXES[pi] + SNIPPET_NUMBERS[ni] + SNIPPET_SUFFIXES[si] + tail, CONTEXTS[ci])


def space(name, tier):
    key = (name, tier)
    if key in _CACHE:
        return _CACHE[key]
    if name == 'strings':
        sp = StringSpace
    elif name == 'flat':
        sp = Union([ListSpace(LEAVES), ArrSpace(LEAVES, 2), ObjSpace(KEYS, LEAVES, 3)])
    elif name == 'nested':
        inner = enumerate_all(Union([ArrSpace(REDUCED, 2), ObjSpace(KEYS, REDUCED, 3)]))
        pool = LEAVES + inner
        sp = Union([ArrSpace(pool, 2), ObjSpace(KEYS, pool, 2 if tier == 'quick' else 3)])
    elif name == 'nested3':
        c1 = enumerate_all(Union([ArrSpace(TINY, 2), ObjSpace(KEYS2, TINY, 2)]))
        c2 = enumerate_all(Union([ArrSpace(TINY + c1, 2), ObjSpace(KEYS2, TINY + c1, 2)]))
        pool = TINY + c1 + c2
        sp = Union([ArrSpace(pool, 2), ObjSpace(KEYS2, pool, 2)])
    elif name == 'deep':
        sp = DeepSpace(PARAMS[tier]['deep'])
    elif name == 'numbers':
        sp = NumberSpace(tier)
    elif name == 'keys':
        sp = KeySpace()
    elif name == 'snippets':
        sp = SnippetSpace
    else:
        raise KeyError(name)
    _CACHE[key] = sp
    return sp


def indents_of(name, tier):
    if name == 'numbers':
        return NUM_INDENTS
    if name == 'nested3':
        return NESTED3_INDENTS
    return INDENTS[tier]


def family_names(tier):
    return ['strings', 'keys', 'snippets', 'flat', 'nested', 'deep', 'numbers'] + (['nested3'] if tier == 'thorough' else [])


# ---------------------------------------------------------------------------------------------------------------------
# the check for one (value, indent)


def interesting(text, info, tokens):
    for tok in tokens:
        if tok[0] == 'string':
            raw = text[tok[1] + 1:tok[2] - 1]
            if '\\' in raw or any(c in raw for c in '.0,]}'):
                return True
        elif tok[0] == 'number' and any(c in tok[3] for c in '.eE'):
            return True
    return any(len(k) >= 2 for k in info.object_keys)


def check_text(v, indent, text, case, acc, route):
    """All lexical / decode checks on one output text. Returns (ok, nontrivial, digest)."""
    c2 = dict(case, route=route)
    if not isinstance(text, str):
        acc.violation(c2, 'a JSON text', text, f'{route}: jsonStringify did not return a string')
        return False, False, None
    # (i) a standard JSON parser maps the text back to v
    try:
        std = json.loads(text, parse_constant=_reject_constant)
    except (ValueError, RecursionError) as exc:
        acc.violation(c2, 'valid JSON', text, f'{route}: json.loads rejects the text ({type(exc).__name__})')
        return False, False, None
    if not jl.equal(std, v):
        acc.violation(c2, v, std, f'{route}: json.loads(text) is not equal to the value (text {text!r})')
        return False, False, None
    # (ii) independent strict lexer / parser
    try:
        tokens = jl.lex(text)
        mine, info = jl.parse(tokens)
    except jl.JsonError as exc:
        acc.violation(c2, 'valid JSON (RFC 8259)', text, f'{route}: the independent JSON parser rejects the text: {exc}')
        return False, False, None
    if not jl.equal(mine, v):
        acc.violation(c2, v, mine, f'{route}: the independently decoded text is not equal to the value (text {text!r})')
        return False, False, None
    for keys in info.object_keys:
        if keys != sorted(keys):
            acc.violation(c2, sorted(keys), keys, f'{route}: object keys are not in sorted order')
            break
    for tok_text, val in info.numbers:
        if val == math.floor(val):
            frac = tok_text.partition('.')[2]
            for mark in 'eE':
                frac = frac.partition(mark)[0]
            if '.' in tok_text and set(frac) <= {'0'}:
                acc.violation(c2, 'an integral number without a fraction', tok_text, f'{route}: an integral number is written with an all-zero fraction')
                break
            if '.' in tok_text and abs(val) < 1e16:
                acc.violation(c2, 'an integral number without a decimal point', tok_text, f'{route}: an integral number below 1e16 is written with a decimal point')
                break
    # layout
    if indent is None:
        if any('\n' in ws or '\r' in ws for ws, _d, _k in info.breaks):
            acc.violation(c2, 'a single line', text, f'{route}: line break outside a string although no indent was given')
    else:
        nbreaks = 0
        for ws, depth, _kind in info.breaks:
            if '\n' in ws:
                nbreaks += 1
                if ws != '\n' + ' ' * (indent * depth):
                    acc.violation(c2, f'newline + {indent * depth} spaces', ws, f'{route}: a line at nesting depth {depth} is not indented by indent x depth spaces')
                    break
        if info.nonempty and nbreaks == 0:
            acc.violation(c2, 'an indented, multi-line text', text, f'{route}: indent was given but a non-empty container is written on one line')
    return True, interesting(text, info, tokens), (len(tokens), info.max_depth, len(info.numbers), len(info.object_keys))


def _reject_constant(name):
    raise ValueError(name)


def check_value(case, acc, v=PRUNED, script_indent=None):
    """case: {'space': name, 'tier': tier, 'idx': index, 'indent': None|n}."""
    im = impl()
    F, bs = im['F'], im['bs']
    if v is PRUNED:
        v = space(case['space'], case['tier']).at(case['idx'])
    indent = case['indent']
    text = F['jsonStringify']([v] if indent is None else [v, indent], None)
    acc.evals += 1
    ok, nontrivial, dig = check_text(v, indent, text, case, acc, 'direct')
    if ok:
        try:
            back = F['jsonParse']([text], None)
        except Exception as exc:  # pylint: disable=broad-exception-caught
            back = ('raise', type(exc).__name__, str(exc))
        acc.evals += 1
        if not jl.equal(back, v):
            acc.violation(dict(case, route='direct'), v, back, f'jsonParse(jsonStringify(v)) is not equal to v (text {text!r})')
    # the script path
    try:
        if indent is None:
            res = bs.execute_script(im['s_plain'], {'globals': {'vv': v}})
        else:
            res = bs.execute_script(im['s_indent'], {'globals': {'vv': v, 'ind': indent if script_indent is None else script_indent}})
    except Exception as exc:  # pylint: disable=broad-exception-caught
        res = ('raise', type(exc).__name__, str(exc))
    acc.evals += 3
    c3 = dict(case, route='script')
    if not (isinstance(res, list) and len(res) == 3):
        acc.violation(c3, 'text and two parsed values', res, 'the script tt = jsonStringify(vv, ind); [tt, jsonParse(tt), jsonParse(jsonStringify(vv, ind))] did not run as written')
    else:
        if res[0] != text:
            acc.count('script_text_differs_from_direct')
            check_text(v, indent, res[0], case, acc, 'script')
        if not jl.equal(res[1], v) or not jl.equal(res[2], v):
            acc.violation(c3, v, res[1:], 'jsonParse(jsonStringify(v)) evaluated in a script is not equal to v')
    return nontrivial, dig


def label_of(v):
    try:
        return ascii(v)[:120]
    except Exception:  # pylint: disable=broad-exception-caught
        return '?'


def fam_values(arg):
    name, tier, start, stop = arg
    acc = Acc(name)
    sp = space(name, tier)
    inds = indents_of(name, tier)
    for idx in range(start, stop):
        v = sp.at(idx)
        if v is PRUNED:
            acc.cases += len(inds)
            acc.pruned += len(inds)
            continue
        label = label_of(v)
        for indent in inds:
            acc.cases += 1
            nontrivial, dig = check_value({'space': name, 'tier': tier, 'idx': idx, 'indent': indent, 'value': label}, acc)
            if nontrivial:
                acc.nontrivial += 1
            acc.outcome(dig)
        if idx == start + (stop - start) // 2:
            acc.sample({'value': label, 'indent': inds[-1], 'text': ascii(impl()['F']['jsonStringify']([v, inds[-1]], None))[:160]})
    return acc.result()


# ---------------------------------------------------------------------------------------------------------------------
# injectivity over the whole enumerated set


INJECT_SPACES = ['strings', 'keys', 'snippets', 'flat', 'nested', 'deep', 'numbers']


def inject_items(tier, indent):
    for name in INJECT_SPACES:
        if indent not in indents_of(name, tier):
            continue
        sp = space(name, tier)
        for idx in range(sp.size):
            yield name, idx, sp.at(idx)


def stringify(v, indent):
    return impl()['F']['jsonStringify']([v] if indent is None else [v, indent], None)


def check_inject(case, acc):
    """case: {'tier', 'indent', 'a': [space, idx], 'b': [space, idx]} - two enumerated values."""
    tier, indent = case['tier'], case['indent']
    va = space(case['a'][0], tier).at(case['a'][1])
    vb = space(case['b'][0], tier).at(case['b'][1])
    ta, tb = stringify(va, indent), stringify(vb, indent)
    acc.evals += 2
    if ta == tb and not jl.equal(va, vb):
        acc.violation(dict(case, values=[label_of(va), label_of(vb)]), 'different texts for different values', ta,
                      'two different values serialise to the same text')
        return True
    return False


def fam_inject(arg):
    tier, indent = arg
    acc = Acc('inject')
    seen = {}
    for name, idx, v in inject_items(tier, indent):
        acc.cases += 1
        if v is PRUNED:
            acc.pruned += 1
            continue
        text = stringify(v, indent)
        acc.evals += 1
        if not isinstance(text, str):
            continue                  # reported by the value families
        prev = seen.get(text)
        if prev is None:
            seen[text] = (name, idx)
        elif check_inject({'tier': tier, 'indent': indent, 'a': list(prev), 'b': [name, idx]}, acc):
            pass
        else:
            acc.count('equal_values_enumerated_twice')
    acc.nontrivial = len(seen)
    acc.outcome(('distinct texts', len(seen) > 1))
    acc.outcome(('indent', indent))
    acc.sample({'indent': indent, 'values': acc.cases, 'distinct_texts': len(seen)})
    return acc.result()


# ---------------------------------------------------------------------------------------------------------------------


# ---------------------------------------------------------------------------------------------------------------------
# call histories: jsonParse / jsonStringify must not remember anything between calls


HIST_LEAVES = {'quick': [1.5, 'x'], 'thorough': [None, 1.5, 'x']}
HIST_TOP_LEAVES = [None, 1.5, 'x']
HIST_KEYS = ['b', 'a']
HIST_INDENTS = [None, 2]
TARGETS = ['top', 'nested']
MUTATIONS = ['push', 'set0', 'pop', 'shift', 'del0', 'extend', 'oset-new', 'oset-old', 'odel', 'oassign']
HIST_VIAS = ['direct', 'script']
PAIR_LEAVES = [1, 1.0, True, '1', None, 0, False, '', -0.0, 'true', 'null']
PAIR_CONTEXTS = {'quick': ['top', 'arr', 'obj', 'arr-arr'], 'thorough': ['top', 'arr', 'obj', 'arr-arr', 'arr2', 'obj-arr']}


def hist_space(tier):
    key = ('hist', tier)
    if key not in _CACHE:
        inner = enumerate_all(Union([ArrSpace(HIST_LEAVES[tier], 2), ObjSpace(HIST_KEYS, HIST_LEAVES[tier], 2)]))
        pool = HIST_TOP_LEAVES + inner
        _CACHE[key] = Union([ArrSpace(pool, 2), ObjSpace(HIST_KEYS, pool, 2)])
    return _CACHE[key]


def hist_size(tier):
    n = len(HIST_LEAVES[tier])
    pool = 3 + (1 + n + n * n) + (n + 1) ** 2
    return (1 + pool + pool * pool) + (pool + 1) ** 2


def pair_values(tier):
    out = []
    for ctx in PAIR_CONTEXTS[tier]:
        for x in PAIR_LEAVES:
            out.append({'top': x, 'arr': [x], 'obj': {'a': x}, 'arr-arr': [[x]], 'arr2': [x, x], 'obj-arr': {'a': [x]}}[ctx])
    return out


def clone(v):
    """Own deep copy of a JSON value (fresh containers everywhere)."""
    if isinstance(v, list):
        return [clone(x) for x in v]
    if isinstance(v, dict):
        return {k: clone(x) for k, x in v.items()}
    return v


def ref_text(v):
    """Compact JSON text of a value written by the reference writer (input for jsonParse)."""
    from ..ref import values as rv  # pylint: disable=import-outside-toplevel
    return rv.json_text(v)


def container_ids(v, out=None):
    out = {} if out is None else out
    if isinstance(v, (list, dict)):
        out[id(v)] = v
        for x in (v if isinstance(v, list) else v.values()):
            container_ids(x, out)
    return out


def shares(a, b):
    return bool(set(container_ids(a)) & set(container_ids(b)))


def locate(v, target):
    """-> (kind, locator): the container to mutate. 'top' is v itself; 'nested' the first member that is a container."""
    if target == 'top':
        return ('top', None) if isinstance(v, (list, dict)) else None
    if isinstance(v, list):
        for i, x in enumerate(v):
            if isinstance(x, (list, dict)):
                return ('index', i)
    elif isinstance(v, dict):
        for k, x in v.items():
            if isinstance(x, (list, dict)):
                return ('key', k)
    return None


def resolve(v, loc):
    if loc[0] == 'top':
        return v
    return v[loc[1]]


def applicable(container, mutation):
    if mutation in ('push', 'extend'):
        return isinstance(container, list)
    if mutation in ('set0', 'pop', 'shift', 'del0'):
        return isinstance(container, list) and len(container) > 0
    if mutation in ('oset-new', 'oassign'):
        return isinstance(container, dict)
    return isinstance(container, dict) and len(container) > 0


def mutate_direct(container, mutation):
    F = impl()['F']
    if mutation == 'push':
        F['arrayPush']([container, 9], None)
    elif mutation == 'set0':
        F['arraySet']([container, 0, 9], None)
    elif mutation == 'pop':
        F['arrayPop']([container], None)
    elif mutation == 'shift':
        F['arrayShift']([container], None)
    elif mutation == 'del0':
        F['arrayDelete']([container, 0], None)
    elif mutation == 'extend':
        F['arrayExtend']([container, [9]], None)
    elif mutation == 'oset-new':
        F['objectSet']([container, 'z', 9], None)
    elif mutation == 'oset-old':
        F['objectSet']([container, sorted(container)[0], 9], None)
    elif mutation == 'odel':
        F['objectDelete']([container, sorted(container)[0]], None)
    else:
        F['objectAssign']([container, {'z': 9}], None)


_MUT_SRC = {
    'push': 'arrayPush({t}, 9)', 'set0': 'arraySet({t}, 0, 9)', 'pop': 'arrayPop({t})', 'shift': 'arrayShift({t})',
    'del0': 'arrayDelete({t}, 0)', 'extend': 'arrayExtend({t}, arrayNew(9))', 'oset-new': "objectSet({t}, 'z', 9)",
    'oset-old': 'objectSet({t}, k2, 9)', 'odel': 'objectDelete({t}, k2)', 'oassign': "objectAssign({t}, objectNew('z', 9))",
}
_LOC_SRC = {'top': '{r}', 'index': 'arrayGet({r}, kk)', 'key': 'objectGet({r}, kk)'}


def hist_script(kind, lockind, mutation):
    key = ('hs', kind, lockind, mutation)
    if key not in _IMPL:
        lines = []
        if kind == 'parse':
            for n in (1, 2):
                lines.append(f'r{n} = jsonParse(tt)')
                lines.append(f't{n} = ' + _LOC_SRC[lockind].format(r=f'r{n}'))
                lines.append(_MUT_SRC[mutation].format(t=f't{n}'))
            lines.append('r3 = jsonParse(tt)')
            lines.append('return arrayNew(r1, r2, r3)')
        else:
            lines.append('s1 = if(ind == null, jsonStringify(vv), jsonStringify(vv, ind))')
            lines.append('t1 = ' + _LOC_SRC[lockind].format(r='vv'))
            lines.append(_MUT_SRC[mutation].format(t='t1'))
            lines.append('s2 = if(ind == null, jsonStringify(vv), jsonStringify(vv, ind))')
            lines.append('s3 = if(ind == null, jsonStringify(v2), jsonStringify(v2, ind))')
            lines.append('return arrayNew(s1, s2, s3)')
        _IMPL[key] = impl()['bs'].parse_script('\n'.join(lines))
    return _IMPL[key]


def decodes_to(text, want):
    """The text is valid JSON for the independent parser and decodes to `want`."""
    if not isinstance(text, str):
        return False
    try:
        got, _info = jl.loads(text)
    except jl.JsonError:
        return False
    return jl.equal(got, want)


def check_hparse(case, acc):
    """r1 = jsonParse(T); mutate r1; r2 = jsonParse(T); mutate r2; r3 = jsonParse(T)."""
    tier, target, mutation, via = case['tier'], case['target'], case['mutation'], case['via']
    v = hist_space(tier).at(case['idx'])
    loc = locate(v, target)
    if loc is None or not applicable(resolve(v, loc), mutation):
        return 'pruned'
    text = ref_text(v)
    case = dict(case, text=text)
    im = impl()
    F = im['F']
    if via == 'direct':
        r1 = F['jsonParse']([text], None)
        ok1 = jl.equal(r1, v)
        if ok1:
            mutate_direct(resolve(r1, loc), mutation)
        snap1 = clone(r1)
        r2 = F['jsonParse']([str(text)], None)
        ok2 = jl.equal(r2, v)
        still1 = jl.equal(r1, snap1)
        if ok2:
            mutate_direct(resolve(r2, loc), mutation)
        r3 = F['jsonParse']([text], None)
        acc.evals += 5
        if not ok1:
            acc.violation(case, v, r1, 'jsonParse(T) is not the value of the text T')
            return 'bad'
        if not ok2:
            acc.violation(case, v, r2, 'jsonParse(T) after an earlier result of jsonParse(T) was mutated is not the value of T')
        if not still1:
            acc.violation(case, snap1, r1, 'a second jsonParse(T) changed the (mutated) result of the first call')
    else:
        glob = {'tt': text, 'kk': loc[1], 'k2': sorted(resolve(v, loc))[0] if isinstance(resolve(v, loc), dict) and resolve(v, loc) else None}
        res = im['bs'].execute_script(hist_script('parse', loc[0], mutation), {'globals': glob})
        acc.evals += 5
        if not (isinstance(res, list) and len(res) == 3):
            acc.violation(case, 'three parsed values', res, 'the history script did not run as written')
            return 'bad'
        r1, r2, r3 = res
        snap1 = r1
        if not jl.equal(r1, r2):
            acc.violation(case, r1, r2, 'the same mutation of two results of jsonParse(T) gives different values (the second parse did not return the value of T)')
    if not jl.equal(r3, v):
        acc.violation(case, v, r3, 'jsonParse(T) after two earlier results were mutated is not the value of T')
    if shares(r1, r2) or shares(r1, r3) or shares(r2, r3):
        acc.violation(case, 'fresh containers on every call', 'a container object is shared between two results', 'two calls of jsonParse(T) returned the same container object')
    return 'changed' if not jl.equal(snap1, v) else 'unchanged'


def check_hstringify(case, acc):
    """s1 = jsonStringify(v); mutate v; s2 = jsonStringify(v); s3 = jsonStringify(fresh copy of the original)."""
    tier, target, mutation, via, indent = case['tier'], case['target'], case['mutation'], case['via'], case['indent']
    orig = hist_space(tier).at(case['idx'])
    loc = locate(orig, target)
    if loc is None or not applicable(resolve(orig, loc), mutation):
        return 'pruned'
    v = clone(orig)
    v2 = clone(orig)
    im = impl()
    if via == 'direct':
        s1 = stringify(v, indent)
        mutate_direct(resolve(v, loc), mutation)
        s2 = stringify(v, indent)
        s3 = stringify(v2, indent)
        acc.evals += 4
    else:
        cont = resolve(v, loc)
        glob = {'vv': v, 'v2': v2, 'ind': indent, 'kk': loc[1], 'k2': sorted(cont)[0] if isinstance(cont, dict) and cont else None}
        res = im['bs'].execute_script(hist_script('stringify', loc[0], mutation), {'globals': glob})
        acc.evals += 4
        if not (isinstance(res, list) and len(res) == 3):
            acc.violation(case, 'three texts', res, 'the history script did not run as written')
            return 'bad'
        s1, s2, s3 = res
    snap = clone(v)
    if not decodes_to(s1, orig):
        acc.violation(case, orig, s1, 'jsonStringify(v) does not decode to v')
        return 'bad'
    if not decodes_to(s2, snap):
        acc.violation(case, snap, s2, 'jsonStringify(v) after v was serialised once and then mutated does not decode to the mutated v')
    if not decodes_to(s3, orig):
        acc.violation(case, orig, s3, 'jsonStringify of a fresh copy of the original value, after the original was mutated, does not decode to it')
    return 'changed' if not jl.equal(snap, orig) else 'unchanged'


def fam_history(arg):
    tier, kind, start, stop = arg
    if kind in ('fail', 'failparse'):
        return fam_history_fail(arg)
    acc = Acc('history')
    sp = hist_space(tier)
    for idx in range(start, stop):
        for target in TARGETS:
            for mutation in MUTATIONS:
                for via in HIST_VIAS:
                    for indent in ([None] if kind == 'parse' else HIST_INDENTS):
                        acc.cases += 1
                        case = {'kind': kind, 'tier': tier, 'idx': idx, 'target': target, 'mutation': mutation, 'via': via, 'indent': indent,
                                'value': label_of(sp.at(idx))}
                        out = (check_hparse if kind == 'parse' else check_hstringify)(case, acc)
                        if out == 'pruned':
                            acc.pruned += 1
                        elif out == 'changed':
                            acc.nontrivial += 1
                        acc.outcome((kind, out, target, mutation))
        if idx == start:
            acc.sample({'kind': kind, 'value': label_of(sp.at(idx)), 'history': 'parse, mutate, parse, mutate, parse' if kind == 'parse'
                        else 'stringify, mutate, stringify, stringify(fresh copy)'})
    return acc.result()


# ---------------------------------------------------------------------------------------------------------------------
# failed calls must leave nothing behind


OFFENDERS = [('inf', float('inf')), ('-inf', float('-inf')), ('nan', float('nan'))]
OFFENDER_POSITIONS = ['top', 'arr-after', 'arr-before', 'arr-nested', 'obj-first', 'obj-last', 'obj-nested', 'arr-in-obj', 'obj-in-arr']
CYCLES = ['self-array', 'self-array-after', 'self-object', 'array-in-object-in-array', 'object-in-array-in-object', 'two-step-array']
OTHER_FAILS = ['mixed-keys']
FAIL_KINDS = [f'{o}@{p}' for o, _x in OFFENDERS for p in OFFENDER_POSITIONS] + CYCLES + OTHER_FAILS
N_FAIL_KINDS = 3 * 9 + 6 + 1
FAIL_HISTORIES = ['F-O', 'F-F-O', 'O-F-O']
BAD_TEXTS = ['', '[1,', '{"a"}', '[1] x', '{"a":1,}', 'nul', '"abc', '[1 2]', "['a']", '{a:1}']
FAILPARSE_HISTORIES = ['B-T', 'B-B-T', 'T-B-T']


def ok_space(tier):
    """The 'good' values of the fail histories."""
    if tier == 'thorough':
        return hist_space('quick')
    key = ('ok', tier)
    if key not in _CACHE:
        pool = HIST_TOP_LEAVES + [[], {}, [1.5], {'a': 'x'}]
        _CACHE[key] = Union([ArrSpace(pool, 2), ObjSpace(HIST_KEYS, pool, 2)])
    return _CACHE[key]


def ok_size(tier):
    return hist_size('quick') if tier == 'thorough' else (1 + 7 + 49) + 8 ** 2


def build_fail(kind, o):
    """-> (value that cannot be serialised, repair) where `o` (a good value, possibly a container) is a member of it whenever the
    shape has room; repair() removes the offending member from the *same* container objects and returns the now good value
    (None when there is nothing left to repair, i.e. the offender is the whole value)."""
    if '@' in kind:
        name, pos = kind.split('@')
        x = dict(OFFENDERS)[name]
        if pos == 'top':
            return x, None
        if pos == 'arr-after':
            v = [o, x]
            return v, lambda: (v.pop(), v)[1]
        if pos == 'arr-before':
            v = [x, o]
            return v, lambda: (v.pop(0), v)[1]
        if pos == 'arr-nested':
            inner = [x]
            v = [inner, o]
            return v, lambda: (inner.pop(), v)[1]
        if pos == 'obj-first':
            v = {'b': o, 'a': x}
            return v, lambda: (v.pop('a'), v)[1]
        if pos == 'obj-last':
            v = {'a': o, 'b': x}
            return v, lambda: (v.pop('b'), v)[1]
        if pos == 'obj-nested':
            inner = {'b': x}
            v = {'a': inner, 'z': o}
            return v, lambda: (inner.pop('b'), v)[1]
        if pos == 'arr-in-obj':
            inner = [o, x]
            v = {'a': inner}
            return v, lambda: (inner.pop(), v)[1]
        inner = {'a': x, 'b': o}
        v = [inner]
        return v, lambda: (inner.pop('a'), v)[1]
    if kind == 'self-array':
        v = [o]
        v.append(v)
        return v, lambda: (v.pop(), v)[1]
    if kind == 'self-array-after':
        v = []
        v.append(v)
        v.append(o)
        return v, lambda: (v.pop(0), v)[1]
    if kind == 'self-object':
        v = {'b': o}
        v['a'] = v
        return v, lambda: (v.pop('a'), v)[1]
    if kind == 'array-in-object-in-array':
        v = [o]
        inner = {'a': v}
        v.append(inner)
        return v, lambda: (inner.pop('a'), v)[1]
    if kind == 'object-in-array-in-object':
        v = {'b': o}
        inner = [v]
        v['a'] = inner
        return v, lambda: (inner.pop(), v)[1]
    if kind == 'two-step-array':
        v = [o]
        inner = [v]
        v.append(inner)
        return v, lambda: (inner.pop(), v)[1]
    v = {'a': o, 1: 2}
    return v, lambda: (v.pop(1), v)[1]


def try_stringify(v, indent):
    """The outcome of a call that is expected to fail is not compared: ('text', t) | ('null',) | ('raise', class)."""
    try:
        t = stringify(v, indent)
    except Exception as exc:  # pylint: disable=broad-exception-caught
        return ('raise', type(exc).__name__)
    return ('text', t) if isinstance(t, str) else ('other', type(t).__name__)


_FAIL_SCRIPT = ("s0 = if(first != null, if(ind == null, jsonStringify(first), jsonStringify(first, ind)), null)\n"
                "f1 = if(ind == null, jsonStringify(f1v), jsonStringify(f1v, ind))\n"
                "f2 = if(f2v != null, if(ind == null, jsonStringify(f2v), jsonStringify(f2v, ind)), null)\n"
                "fixed = repairIt()\n"
                "s1 = if(fixed != null, if(ind == null, jsonStringify(fixed), jsonStringify(fixed, ind)), null)\n"
                "fixed2 = repairIt2()\n"
                "s1b = if(fixed2 != null, if(ind == null, jsonStringify(fixed2), jsonStringify(fixed2, ind)), null)\n"
                "s2 = if(ind == null, jsonStringify(oo), jsonStringify(oo, ind))\n"
                "dropIt()\n"
                "s3 = if(ind == null, jsonStringify(freshIt()), jsonStringify(freshIt(), ind))\n"
                "return arrayNew(s0, f1, f2, s1, s2, s3, s1b)")


def check_hfail(case, acc):
    """Histories around a failing jsonStringify. `o` is a good value that is also a member of the failing value.
    F-O: fail(f); ok.   F-F-O: fail(f); fail(next kind); ok.   O-F-O: ok(o); fail(f); ok.
    ok = the same containers with the offending member removed, o itself, and a fresh copy of o built after the failing values were dropped."""
    tier, hist, via, indent = case['tier'], case['hist'], case['via'], case['indent']
    kind = FAIL_KINDS[case['fail']]
    orig = ok_space(tier).at(case['idx'])
    o = clone(orig)
    state = {}
    f1, state['repair'] = build_fail(kind, o)
    has_repair = state['repair'] is not None
    f2 = None
    if hist == 'F-F-O':
        f2, state['repair2'] = build_fail(FAIL_KINDS[(case['fail'] + 1) % len(FAIL_KINDS)], o)

    def do_repair(*_args):
        state['fixed'] = state['repair']() if has_repair else None
        state['snap'] = clone(state['fixed'])
        return state['fixed']

    def do_repair2(*_args):
        # every failing value of the history is repaired and serialised again inside the same case, so that whatever a failed
        # call leaves behind is noticed by the case that created it (and replays on its own)
        state['fixed2'] = state['repair2']() if state.get('repair2') is not None else None
        state['snap2'] = clone(state['fixed2'])
        return state['fixed2']

    def do_drop(*_args):
        state.pop('fixed', None)       # the failing containers (cycle already broken by the repair) become garbage here
        state.pop('repair', None)
        state.pop('fixed2', None)
        state.pop('repair2', None)
        return None

    def do_fresh(*_args):
        return clone(orig)

    if via == 'direct':
        s0 = try_stringify(o, indent) if hist == 'O-F-O' else None
        out1 = try_stringify(f1, indent)
        out2 = try_stringify(f2, indent) if f2 is not None else None
        del f1, f2
        fixed = do_repair()
        s1 = try_stringify(fixed, indent) if has_repair else None
        del fixed
        fixed2 = do_repair2()
        s1b = try_stringify(fixed2, indent) if fixed2 is not None else None
        del fixed2
        s2 = try_stringify(o, indent)
        do_drop()
        s3 = try_stringify(do_fresh(), indent)
        acc.evals += 7
    else:
        glob = {'first': o if hist == 'O-F-O' else None, 'f1v': f1, 'f2v': f2, 'oo': o, 'ind': indent,
                'repairIt': do_repair, 'repairIt2': do_repair2, 'dropIt': do_drop, 'freshIt': do_fresh}
        del f1, f2
        res = impl()['bs'].execute_script(_fail_script(), {'globals': glob})
        glob.clear()
        acc.evals += 7
        if not (isinstance(res, list) and len(res) == 7):
            acc.violation(case, 'seven results', res, 'the failure-history script did not run as written')
            return ('bad',)
        wrap = lambda t: ('text', t) if isinstance(t, str) else ('null',)
        s0 = wrap(res[0])
        out1, out2 = wrap(res[1]), (wrap(res[2]) if hist == 'F-F-O' else None)
        s1 = wrap(res[3]) if has_repair else None
        s2, s3 = wrap(res[4]), wrap(res[5])
        s1b = wrap(res[6]) if state.get('snap2') is not None else None
    c2 = dict(case, fail_kind=kind, ok=label_of(orig), fail_outcome=out1[0])
    if hist == 'O-F-O' and not (s0[0] == 'text' and decodes_to(s0[1], orig)):
        acc.violation(c2, orig, s0, 'jsonStringify(o) does not decode to o (before anything failed in this history)')
        return ('bad',)
    if s1 is not None and not (s1[0] == 'text' and decodes_to(s1[1], state['snap'])):
        acc.violation(c2, state['snap'], s1, 'after a failed jsonStringify, the same containers with the offending member removed do not serialise faithfully')
    if s1b is not None and not (s1b[0] == 'text' and decodes_to(s1b[1], state['snap2'])):
        acc.violation(c2, state['snap2'], s1b, 'after two failed jsonStringify calls, the containers of the second failing value with the offending member removed do not serialise faithfully')
    if not (s2[0] == 'text' and decodes_to(s2[1], orig)):
        acc.violation(c2, orig, s2, 'after a failed jsonStringify, a good value that was a member of the failing value does not serialise faithfully')
    if not (s3[0] == 'text' and decodes_to(s3[1], orig)):
        acc.violation(c2, orig, s3, 'after a failed jsonStringify (failing values dropped), a fresh good value does not serialise faithfully')
    return (out1[0], None if out2 is None else out2[0])


def _fail_script():
    if 'fail_script' not in _IMPL:
        _IMPL['fail_script'] = impl()['bs'].parse_script(_FAIL_SCRIPT)
    return _IMPL['fail_script']


def try_parse(text, via):
    im = impl()
    try:
        if via == 'direct':
            return ('value', im['F']['jsonParse']([text], None))
        return ('value', im['bs'].execute_script(im['p_global'], {'globals': {'tt': text}}))
    except Exception as exc:  # pylint: disable=broad-exception-caught
        return ('raise', type(exc).__name__)


def check_hfailparse(case, acc):
    """Histories around a failing jsonParse: B-T: parse(bad); parse(T).  B-B-T: two bad texts first.  T-B-T: parse(T); parse(bad); parse(T)."""
    tier, hist, via = case['tier'], case['hist'], case['via']
    v = ok_space(tier).at(case['idx'])
    text = ref_text(v)
    bad = BAD_TEXTS[case['bad']]
    bad2 = BAD_TEXTS[(case['bad'] + 1) % len(BAD_TEXTS)]
    if 'p_global' not in _IMPL:
        _IMPL['p_global'] = impl()['bs'].parse_script('return jsonParse(tt)')
    steps = {'B-T': [bad, text], 'B-B-T': [bad, bad2, text], 'T-B-T': [text, bad, text]}[hist]
    results = [try_parse(str(t), via) for t in steps]
    results.append(try_parse(str(text), via))
    acc.evals += len(results)
    c2 = dict(case, text=text, bad_text=bad)
    good = []
    for t, r in zip(steps + [text], results):
        if t is text or t == text:
            if r[0] != 'value' or not jl.equal(r[1], v):
                acc.violation(c2, v, r, 'jsonParse(T) around a failed jsonParse is not the value of T')
                return ('bad',)
            good.append(r[1])
    if any(shares(good[i], good[j]) for i in range(len(good)) for j in range(i + 1, len(good))):
        acc.violation(c2, 'fresh containers', 'shared container', 'two calls of jsonParse(T) returned the same container object')
    first_bad = next(r for t, r in zip(steps, results) if t is bad)
    return (first_bad[0] if first_bad[0] == 'raise' or first_bad[1] is not None else 'null',)


def fam_history_fail(arg):
    tier, kind, start, stop = arg
    acc = Acc('history')
    sp = ok_space(tier)
    for idx in range(start, stop):
        if kind == 'fail':
            for fk in range(len(FAIL_KINDS)):
                for hist in FAIL_HISTORIES:
                    for via in HIST_VIAS:
                        for indent in HIST_INDENTS:
                            acc.cases += 1
                            out = check_hfail({'kind': 'fail', 'tier': tier, 'idx': idx, 'fail': fk, 'hist': hist, 'via': via, 'indent': indent}, acc)
                            if out[0] in ('raise', 'null', 'other'):
                                acc.nontrivial += 1          # the call that should fail did fail
                            acc.outcome((out, hist))
        else:
            for bk in range(len(BAD_TEXTS)):
                for hist in FAILPARSE_HISTORIES:
                    for via in HIST_VIAS:
                        acc.cases += 1
                        out = check_hfailparse({'kind': 'failparse', 'tier': tier, 'idx': idx, 'bad': bk, 'hist': hist, 'via': via}, acc)
                        if out[0] in ('raise', 'null'):
                            acc.nontrivial += 1
                        acc.outcome((out, hist, bk))
        if idx == start:
            acc.sample({'kind': kind, 'ok_value': label_of(sp.at(idx)), 'fail_kinds': FAIL_KINDS[:3] + CYCLES[:2] if kind == 'fail' else BAD_TEXTS[:4]})
    return acc.result()


def check_pair(case, acc):
    """Two different values / texts interleaved: parse(Ta), parse(Tb), parse(Ta), parse(Tb); stringify of temporaries a, b, a."""
    tier, indent = case['tier'], case['indent']
    vals = pair_values(tier)
    a, b = vals[case['a']], vals[case['b']]
    F = impl()['F']
    ta, tb = ref_text(a), ref_text(b)
    res = [F['jsonParse']([t], None) for t in (ta, tb, str(ta), str(tb))]
    acc.evals += 4
    for r, want, name in zip(res, (a, b, a, b), ('Ta', 'Tb', 'Ta again', 'Tb again')):
        if not jl.equal(r, want):
            acc.violation(dict(case, step='parse ' + name, texts=[ta, tb]), want, r, f'in the history parse(Ta), parse(Tb), parse(Ta), parse(Tb) the result for {name} is not its value')
            break
    if any(shares(res[i], res[j]) for i in range(4) for j in range(i + 1, 4)):
        acc.violation(dict(case, step='parse', texts=[ta, tb]), 'fresh containers', 'shared container', 'two calls of jsonParse returned the same container object')
    # temporaries: each argument is dropped right after the call (id reuse)
    outs = [stringify(clone(x), indent) for x in (a, b, a)]
    keep = clone(a)
    outs.append(stringify(keep, indent))
    outs.append(stringify(clone(b), indent))
    acc.evals += 5
    for text, want, name in zip(outs, (a, b, a, a, b), ('a', 'b', 'a again', 'a (kept alive)', 'b again')):
        if not decodes_to(text, want):
            acc.violation(dict(case, step='stringify ' + name, values=[label_of(a), label_of(b)]), want, text,
                          f'in the history stringify(a), stringify(b), stringify(a), ... the text for {name} does not decode to its value')
            break
    return jl.equal(a, b)


def fam_pairs(arg):
    tier, rows = arg
    acc = Acc('pairs')
    n = len(pair_values(tier))
    for i in rows:
        for j in range(n):
            for indent in HIST_INDENTS:
                acc.cases += 1
                same = check_pair({'tier': tier, 'a': i, 'b': j, 'indent': indent}, acc)
                if not same:
                    acc.nontrivial += 1
                acc.outcome((same, indent))
        acc.sample({'a': label_of(pair_values(tier)[i]), 'b': label_of(pair_values(tier)[(i * 7 + 3) % n])})
    return acc.result()


# ---------------------------------------------------------------------------------------------------------------------
# every indent, in both tiers


ALL_INDENTS = [None] + list(range(-1, 13))        # null, -1, 0 (outside the documented range: UNSPECIFIED), 1..12
INDENT_CONTEXTS = ['arr-last', 'obj-mixed']


def indent_space():
    if 'indent_space' not in _CACHE:
        s1 = all_strings(S1_ALPHABET, 3)
        items = [in_context(s, ctx) for s in s1 for ctx in INDENT_CONTEXTS]
        items += [[x] for x in NUM_SPECIALS] + [{'a': [x, -x]} for x in NUM_SPECIALS]
        items += [DeepSpace(3).at(i) for i in range(DeepSpace(3).size)]
        _CACHE['indent_space'] = Union([space('flat', 'quick'), ListSpace(items)])
    return _CACHE['indent_space']


INDENT_SPACE_SIZE = 1100 + (1 + 6 + 36 + 216) * 2 + 21 * 2 + (1 + 3 + 9 + 27) * 14


def check_indent(case, acc):
    """One value, one indent argument (int for the direct call, float in the script)."""
    indent = case['indent']
    v = indent_space().at(case['idx'])
    if indent is None or indent >= 1:
        nontrivial, dig = check_value(dict(case, space='indents'), acc, v=v, script_indent=None if indent is None else float(indent))
        return nontrivial, dig
    # indent 0 / negative: the doc comment says "The indentation number", the argument model says >= 1: UNSPECIFIED.
    acc.unspecified += 1
    try:
        text = impl()['F']['jsonStringify']([v, indent], None)
    except Exception:  # pylint: disable=broad-exception-caught
        return False, ('outside', 'raise')
    acc.evals += 1
    if isinstance(text, str) and not decodes_to(text, v):
        acc.violation(dict(case, value=label_of(v)), v, text, 'jsonStringify with an indent outside the documented range returned a text that does not decode to v')
    return False, ('outside', type(text).__name__)


def fam_indents(arg):
    start, stop = arg
    acc = Acc('indents')
    sp = indent_space()
    for idx in range(start, stop):
        label = label_of(sp.at(idx))
        for indent in ALL_INDENTS:
            acc.cases += 1
            nontrivial, dig = check_indent({'idx': idx, 'indent': indent, 'value': label}, acc)
            if nontrivial:
                acc.nontrivial += 1
            acc.outcome((dig, indent))
        if idx == start:
            acc.sample({'value': label, 'indents': ALL_INDENTS[1:], 'text_indent_12': ascii(stringify(sp.at(idx), 12))[:120]})
    return acc.result()


def families(tier):
    fams = []
    nshards = {'strings': 24, 'keys': 8, 'snippets': 8, 'flat': 8, 'nested': 48, 'nested3': 64, 'deep': 8, 'numbers': 24}
    bounds = {
        'strings': f'{N_STRINGS} strings (length <= 4 over {"".join(S1_ALPHABET)!r}; length <= 4 over {"".join(S3_ALPHABET)!r}; length <= 2 over 13 special characters; 40 strings that look like dates, datetimes, literals, numbers or JSON texts; 45 that look like comments, trailing commas and other syntax around JSON) x {len(CONTEXTS)} contexts',
        'keys': f'objects over the {len(KEY_ALPHABET)} keys {KEY_ALPHABET}: every ordered pair (both insertion orders) and every 3-subset inserted in list order and reversed',
        'snippets': f'strings frame-head + prefix + number + suffix + frame-tail, prefix in {SNIPPET_PREFIXES}, number in {SNIPPET_NUMBERS}, suffix in {SNIPPET_SUFFIXES}, '
                    f'frame in {SNIPPET_FRAMES}, each in the {len(CONTEXTS)} contexts (incl. object key)',
        'flat': '9 leaves; arrays of length <= 2 and objects over keys b, a, a.0 over the 9 leaves',
        'nested': 'arrays of length <= 2 and objects over keys b, a, a.0 ' + ('(at most 2 present) ' if tier == 'quick' else '')
                  + 'over 9 leaves + 77 depth-1 containers over {null, 1.0, "a.0]"}',
        'nested3': 'arrays of length <= 2 and objects over keys b, a.0 over {1.0, "a.0]"} + their depth-1 and depth-2 containers',
        'deep': f'every path of <= {PARAMS[tier]["deep"]} steps ([x,1.0] / [1.0,x] / {{b:1.0,a:x}}) around {len(DEEP_LEAVES)} leaves',
        'numbers': f'integers 0..{PARAMS[tier]["NI"]} and around 2^53/1e15..1e22 (int and float carriers, both signs), 21 special doubles, m x 10^e with <= {PARAMS[tier]["DA"]} digits '
                   f'e in -326..308 and <= {PARAMS[tier]["DB"]} digits e in -8..22; contexts {NUM_CONTEXTS}',
    }
    for name in family_names(tier):
        sp = space(name, tier)
        inds = indents_of(name, tier)
        ranges = split(list(range(sp.size)), nshards[name])
        fams.append(Family(name, fam_values, [(name, tier, r[0], r[-1] + 1) for r in ranges],
                           bounds[name] + f'; indent in {inds}', expected=expected_size(name, tier) * len(inds)))
    total = sum(expected_size(name, tier) * len(indents_of(name, tier)) for name in INJECT_SPACES)
    fams.append(Family('inject', fam_inject, [(tier, ind) for ind in INDENTS[tier]],
                       f'all values of {INJECT_SPACES} once more, one pass per indent in {INDENTS[tier]} (numbers: indents {NUM_INDENTS}): '
                       'equal texts imply equal values', expected=total))
    nh = hist_size(tier)
    per = len(TARGETS) * len(MUTATIONS) * len(HIST_VIAS)
    hshards = [(tier, 'parse', r[0], r[-1] + 1) for r in split(list(range(nh)), 8)] + \
              [(tier, 'stringify', r[0], r[-1] + 1) for r in split(list(range(nh)), 12)]
    nok = ok_size(tier)
    hshards += [(tier, 'fail', r[0], r[-1] + 1) for r in split(list(range(nok)), 16)] + \
               [(tier, 'failparse', r[0], r[-1] + 1) for r in split(list(range(nok)), 4)]
    nfail = nok * N_FAIL_KINDS * len(FAIL_HISTORIES) * len(HIST_VIAS) * len(HIST_INDENTS)
    nfailparse = nok * len(BAD_TEXTS) * len(FAILPARSE_HISTORIES) * len(HIST_VIAS)
    fams.append(Family('history', fam_history, hshards,
                       f'{nh} arrays/objects of depth <= 2 over {HIST_TOP_LEAVES} / {HIST_LEAVES[tier]} x target {TARGETS} x mutation {MUTATIONS} x '
                       f'{HIST_VIAS}: parse-mutate-parse-mutate-parse; stringify-mutate-stringify-stringify(copy) with indent in {HIST_INDENTS} '
                       f'(inapplicable target/mutation combinations pruned); failed calls: {nok} good values x {N_FAIL_KINDS} unserialisable values '
                       f'(inf/-inf/nan in 9 positions, 6 cycles, mixed keys; the good value is a member of the failing one) x {FAIL_HISTORIES} x {HIST_VIAS} x '
                       f'indent {HIST_INDENTS}; {len(BAD_TEXTS)} invalid texts x {FAILPARSE_HISTORIES} x {HIST_VIAS} for jsonParse',
                       expected=nh * per * (1 + len(HIST_INDENTS)) + nfail + nfailparse))
    npv = len(PAIR_LEAVES) * len(PAIR_CONTEXTS[tier])
    fams.append(Family('pairs', fam_pairs, [(tier, r) for r in split(list(range(npv)), 11)],
                       f'every ordered pair of {npv} values ({len(PAIR_LEAVES)} colliding leaves 1/1.0/true/"1"/null/0/false/""/-0.0/"true"/"null" x contexts '
                       f'{PAIR_CONTEXTS[tier]}) x indent {HIST_INDENTS}: interleaved parses and stringification of short-lived temporaries',
                       expected=npv * npv * len(HIST_INDENTS)))
    fams.append(Family('indents', fam_indents, [(r[0], r[-1] + 1) for r in split(list(range(INDENT_SPACE_SIZE)), 16)],
                       f'{INDENT_SPACE_SIZE} values (flat space, strings of length <= 3 in 2 contexts, special numbers, paths of <= 3 steps) x '
                       f'indent in {ALL_INDENTS} (same in both tiers; script path passes the indent as a float)',
                       expected=INDENT_SPACE_SIZE * len(ALL_INDENTS)))
    # the self-contained call histories first: their violations replay on their own even when the defect is a cache
    # whose effect on the other families depends on everything a shard did before
    return fams[-3:] + fams[:-3]


def expected_size(name, tier):
    """Closed forms, written independently of the index decoders."""
    if name == 'strings':
        return (1555 + 1434 + 162 + 40 + 45) * 7
    if name == 'keys':
        return 19 * 18 + (19 * 18 * 17 // 6) * 2
    if name == 'snippets':
        return 2 * 8 * 7 * 6 * 7
    if name == 'flat':
        return 9 + (1 + 9 + 81) + 10 ** 3
    if name == 'nested':
        p = 9 + (1 + 3 + 9) + 4 ** 3
        objs = (p + 1) ** 3 if tier == 'thorough' else 1 + 3 * p + 3 * p * p
        return (1 + p + p * p) + objs
    if name == 'nested3':
        c1 = (1 + 2 + 4) + 3 ** 2
        c2 = (1 + (2 + c1) + (2 + c1) ** 2) + (2 + c1 + 1) ** 2
        p = 2 + c1 + c2
        return (1 + p + p * p) + (p + 1) ** 2
    if name == 'deep':
        d = PARAMS[tier]['deep']
        return (3 ** (d + 1) - 1) // 2 * 14
    if name == 'numbers':
        pr = PARAMS[tier]
        mant = lambda d: 9 * 10 ** (d - 1)      # m in 1..10^d-1 that are not multiples of 10
        return ((pr['NI'] + 1 + 9) * 4 + 21 * 2 + mant(pr['DA']) * 635 * 2 + mant(pr['DB']) * 31 * 2) * 4
    raise KeyError(name)


def replay(family, case):
    acc = Acc(family)
    if family == 'inject':
        check_inject(case, acc)
    elif family == 'history':
        {'parse': check_hparse, 'stringify': check_hstringify, 'fail': check_hfail, 'failparse': check_hfailparse}[case['kind']](case, acc)
    elif family == 'pairs':
        check_pair(case, acc)
    elif family == 'indents':
        check_indent(case, acc)
    else:
        check_value(case, acc)
    res = acc.result()
    return {'differs': bool(res['nviol'] or res['nknown']), 'violations': res['violations'] + res['known_violations']}
