"""C17 Includes resolve relative to the including file and run in global scope (DESIGN 4/C17)."""

import copy
import functools
import itertools
import re

from ..common import HarnessError, canon, load_impl
from ..engine.shard import Acc, Family, split
from ..engine.tape import Tape, explore
from ..ref import jumpvm, urls

LEVEL = 'model_checking'
RULE = ('virtual file system; every include tree up to the depth / fan-out bound where each edge chooses a reference '
        'form from {sibling x.bare, sub/x.bare, ../x.bare, /abs/x.bare, http://h/p/x.bare, file:/srv/q/x.bare (an absolute URL with a single slash), mem:x.bare (an absolute URL without any slash), <x.bare> system}; the root is '
        'started with a path base, a sub-directory path base, a URL base or without urlFn, with a path / URL / no system '
        'prefix; files log on entry and exit, assign a global, optionally return in the middle; adjacent and separated '
        'include lines. Every fetch is a decision point of the tape with answers {text, missing, fetchFn raises, text '
        'with a syntax error, an empty file, a comments-only file}; all tapes with <= k non-default answers are explored. Compared with the reference: the '
        'sequence of locations passed to fetchFn (modulo "." segments), logs, globals, error class and the location it '
        'names, child line number of a syntax error. A state is a (tree, root config, tape prefix) node. A tree is '
        'non-trivial when it has at least 2 include edges.')
ASSUMPTIONS = [
    'ref/urls.py is the documented resolution; locations are compared modulo "." segments and doubled separators, never modulo ".."',
    'the child text is parsed by the real parser for the reference machine too (parsing is decided by other properties)',
    'the error message wording is not compared, only the exception class and the quoted location it contains',
]

FORMS = ('sib', 'sub', 'up', 'abs', 'url', 'url1', 'url0', 'sys')
FORMS_CORE = ('sib', 'sub', 'up', 'abs', 'url', 'sys')
ROOTS = [
    {'name': 'path', 'base': 'main.bare', 'sys': 'sys/inc/'},
    {'name': 'subdir-path', 'base': 'lib/main.bare', 'sys': None},
    {'name': 'url', 'base': 'http://h/p/main.bare', 'sys': 'http://h/sys/'},
    {'name': 'no-urlfn', 'base': None, 'sys': None},
]
BROKEN = "systemLog('broken-in')\nzz = (1 +\n"
FETCH_ANSWERS = 6   # 0 text, 1 missing, 2 raises, 3 syntax error, 4 an empty file, 5 a file of comments and blank lines only


def ref_text(form, name):
    return {'sib': name, 'sub': 'sub/' + name, 'up': '../' + name, 'abs': '/abs/' + name,
            'url': 'http://h/p/q/' + name, 'url1': 'file:/srv/q/' + name, 'url0': 'mem:' + name, 'sys': name}[form]


def trees(depth, fan):
    """Every tree (tuple of children) up to depth with fan-out <= fan."""
    if depth == 0:
        return [()]
    sub = trees(depth - 1, fan)
    out = [()]
    for k in range(1, fan + 1):
        out.extend(itertools.product(sub, repeat=k))
    return out


def edges(tree):
    return sum(1 + edges(c) for c in tree)


def build_files(tree, labels, root, style, early):
    """Returns (root_text, files: normalized location -> text, order: list of node names).
    Files are placed where the REFERENCE resolution says each reference points."""
    files = {}
    it = iter(labels)
    counter = itertools.count(1)

    def node(t, name, loc):
        lines = [f"systemLog('{name}-in')", f"g_{name} = '{name}'"]
        kids = []
        for child in t:
            form = next(it)
            cname = f'n{next(counter)}'
            fname = cname + '.bare'
            text = ref_text(form, fname)
            if form == 'sys':
                line = f'include <{text}>'
                if root['sys'] is not None:
                    cloc = urls.resolve(root['sys'], text)
                elif loc is not None:
                    cloc = urls.resolve(loc, text)
                else:
                    cloc = text
            else:
                line = f"include '{text}'"
                cloc = urls.resolve(loc, text) if loc is not None else text
            kids.append((line, child, cname, cloc))
        for j, (line, child, cname, cloc) in enumerate(kids):
            if style == 'separated' and j:
                lines.append(f"systemLog('{name}-mid')")
            lines.append(line)
            if style == 'twice' and j == 0:
                lines.append(line)      # the same include line again, directly adjacent: fetched and executed once per statement
        if early == name:
            lines.append("return 'early-" + name + "'")   # a return WITH a value inside an included script ends only that script
        if style == 'in-function' and name == 'n0' and kids:
            # the root's includes sit inside a function body: included scripts still run in GLOBAL scope
            inc = lines[2:]
            lines = lines[:2] + ["pa = 'global-pa'", 'function hh(pa):', "    lv = 'local'"] + ['    ' + ln for ln in inc] + \
                ["    systemLog('hh-lv=' + lv + ' pa=' + pa)", 'endfunction', "hh('arg')", "systemLog('lv-global=' + lv)"]
        elif style == 'in-function' and name != 'n0':
            # a child reads and writes names that are locals of the including function
            lines.append("systemLog('" + name + "-sees pa=' + pa + ' lv=' + lv)")
            lines.append("lv = 'set-by-" + name + "'")
        lines.append(f"systemLog('{name}-out')")
        text = '\n'.join(lines) + '\n'
        if loc is not None or name != 'n0':
            files[urls.normalize(loc)] = text
        for line, child, cname, cloc in kids:
            node(child, cname, cloc)
        return text

    root_text = node(tree, 'n0', root['base'])
    return root_text, files


def run_case(tree, labels, root, style, early, prefix, which):
    """which: 'impl' or 'ref'."""
    bs = load_impl()
    root_text, files = build_files(tree, labels, root, style, early)
    tape = Tape(prefix)
    fetched = []
    logs = []

    def answer(loc):
        key = urls.normalize(loc)
        fetched.append(key)
        choice = tape.ask('fetch', FETCH_ANSWERS)
        if key not in files:
            return ('missing', None)
        if choice == 0:
            return ('text', files[key])
        if choice == 1:
            return ('missing', None)
        if choice == 2:
            return ('raises', None)
        if choice == 4:
            return ('text', '')
        if choice == 5:
            return ('text', '# nothing here\n\n   \n')
        return ('text', BROKEN)

    if which == 'impl':
        from bare_script.options import url_file_relative  # pylint: disable=import-outside-toplevel,import-error

        def fetch(req):
            kind, text = answer(req['url'])
            if kind == 'raises':
                raise OSError('fetch failed')
            return text

        glob = {}
        options = {'globals': glob, 'logFn': logs.append, 'fetchFn': fetch, 'maxStatements': 2000}
        if root['base'] is not None:
            options['urlFn'] = functools.partial(url_file_relative, root['base'])
        if root['sys'] is not None:
            options['systemPrefix'] = root['sys']
        model = pristine = None
        try:
            model = bs.parse_script(root_text)
            pristine = copy.deepcopy(model)
            res = ('ok', canon(bs.execute_script(model, options)))
        except bs.BareScriptRuntimeError as exc:
            res = ('raise', 'BareScriptRuntimeError', quoted_locations(str(exc)), None)
        except bs.BareScriptParserError as exc:
            res = ('raise', 'BareScriptParserError', quoted_locations(str(exc).split('\n')[0]), exc.line_number)
        except Exception as exc:  # pylint: disable=broad-exception-caught
            res = ('raise', type(exc).__name__, str(exc), None)
        if tape.error:
            raise HarnessError('implementation diverged from its recorded prefix: ' + tape.error)
        user = {k: canon(v) for k, v in glob.items() if k.startswith('g_') or k in ('lv', 'pa')}
        if model is not None and model != pristine:
            res = ('model-modified', res)       # executing includes must not write into the model (C08: execution never modifies the model)
    else:
        class RefSyntax(Exception):
            def __init__(self, url, line):
                super().__init__(url)
                self.url = url
                self.line = line

        def loader(url):
            kind, text = answer(url)
            if kind != 'text':
                return None
            try:
                return bs.parse_script(text)['statements']
            except bs.BareScriptParserError as exc:
                raise RefSyntax(url, exc.line_number) from exc

        glob = {}
        m = jumpvm.Machine(glob, {}, logs, limit=2000, lib=jumpvm.lib_basic(), loader=loader, resolver=urls.resolve, system_prefix=root['sys'])
        m.base = root['base']      # includes inside a function body of the root resolve against the root's own location
        try:
            model = bs.parse_script(root_text)
            res = ('ok', canon(m.run(model['statements'], None, root['base'])))
        except jumpvm.RefRuntimeError as exc:
            res = ('raise', 'BareScriptRuntimeError', quoted_locations(str(exc)), None)
        except RefSyntax as exc:
            res = ('raise', 'BareScriptParserError', [urls.normalize(exc.url)], exc.line)
        user = {k: canon(v) for k, v in glob.items() if k.startswith('g_') or k in ('lv', 'pa')}
    return {'result': res, 'logs': logs, 'globals': user, 'fetches': fetched, 'points': tape.points}


_QUOTED = re.compile(r'"([^"]*)"')


def quoted_locations(text):
    return [urls.normalize(q) for q in _QUOTED.findall(text)]


def diff(x, y):
    rx, ry = x['result'], y['result']
    if rx[0] != ry[0] or (rx[0] == 'raise' and rx[1] != ry[1]):
        return 'result / exception class'
    if rx[0] == 'ok' and rx != ry:
        return 'result'
    if rx[0] == 'raise':
        # the error must name the resolved location (wording free): the expected location is among the quoted strings
        want = ry[2][-1] if ry[2] else None
        if want is not None and want not in rx[2]:
            return 'the error does not name the resolved location'
        if ry[1] == 'BareScriptParserError' and rx[3] != ry[3]:
            return 'line number of the syntax error in the included text'
    for key in ('fetches', 'logs', 'globals'):
        if x[key] != y[key]:
            return key
    return None


def check_tree(case, acc):
    tree = tuple_tree(case['tree'])
    labels = case['labels']
    root = ROOTS[case['root']]
    style = case['style']
    early = case.get('early')
    bound = case['bound']
    seen = set()

    def run_pair(prefix):
        x = run_case(tree, labels, root, style, early, prefix, 'impl')
        y = run_case(tree, labels, root, style, early, prefix, 'ref')
        acc.evals += 1
        d = diff(x, y)
        seen.add((x['result'][0], tuple(x['fetches'])))
        return x['points'], (d, x, y) if d else None

    def on_run(prefix, points, verdict):
        acc.states += 1
        acc.traces += 1
        if verdict is None:
            return True
        d, x, y = verdict
        acc.violation(dict(case, tape=list(prefix), root_config=root), y, x, 'differs from the reference in: ' + d)
        return False

    _, decisions, capped = explore(run_pair, bound, 8, on_run, max_runs=500)
    acc.transitions += decisions
    acc.capped = acc.capped or capped
    if len(labels) >= 2:
        acc.nontrivial += 1
    for o in itertools.islice(seen, 3):
        acc.outcome(o)


def tuple_tree(t):
    return tuple(tuple_tree(c) for c in t)


def list_tree(t):
    return [list_tree(c) for c in t]


def node_names(tree):
    n = 1 + edges(tree)
    return [f'n{i}' for i in range(n)]


def plan(tier):
    """(tree list, forms, bound, styles, early?) groups."""
    if tier == 'quick':
        return [
            (trees(3, 1), FORMS, 1, ('adjacent',), True),                 # chains to depth 3, all eight forms
            (trees(2, 2), ('sib', 'up', 'sys'), 1, ('adjacent', 'separated'), False),
            (trees(1, 2), FORMS, 1, ('adjacent', 'separated'), False),
            (trees(2, 1), ('sib', 'sub', 'sys'), 1, ('in-function',), False),
            (trees(2, 1), ('sib', 'sub', 'sys'), 1, ('twice',), False),
            (trees(1, 2), ('sib', 'url'), 0, ('twice',), False),
            (trees(1, 2), ('sib', 'up'), 0, ('in-function',), False),
        ]
    return [
        (trees(4, 1), FORMS_CORE, 2, ('adjacent',), True),      # depth-4 chains over the six core forms
        (trees(3, 1), FORMS, 2, ('adjacent',), True),           # all eight forms to depth 3
        (trees(2, 2), ('sib', 'up', 'sys'), 2, ('adjacent', 'separated'), True),
        (trees(2, 2), FORMS_CORE, 1, ('adjacent',), False),
        (trees(2, 2), ('sib', 'url1', 'url0', 'sys'), 1, ('adjacent',), False),   # the two odd URL shapes in fan-out trees
        (trees(1, 3), FORMS, 1, ('adjacent', 'separated'), False),
        (trees(2, 3), ('sib', 'up'), 1, ('adjacent',), False),
        (trees(3, 1), FORMS, 1, ('in-function',), False),
        (trees(3, 1), FORMS, 1, ('twice',), False),
        (trees(2, 2), ('sib', 'up', 'sys'), 1, ('twice',), False),
        (trees(2, 2), ('sib', 'up', 'sys'), 1, ('in-function',), False),
    ]


def cases(tier):
    out = []
    for group, (tlist, forms, bound, styles, early) in enumerate(plan(tier)):
        for tree in tlist:
            ne = edges(tree)
            for labels in itertools.product(forms, repeat=ne):
                for ri in range(len(ROOTS)):
                    for style in styles:
                        if style == 'separated' and not any(len(c) > 1 for c in all_nodes(tree)):
                            continue
                        if style in ('in-function', 'twice') and not tree:
                            continue
                        earlies = [None]
                        if early and ne:
                            earlies.append('n' + str(ne))      # the last node returns early
                            earlies.append('n1')
                        for e in dict.fromkeys(earlies):
                            out.append({'tree': list_tree(tree), 'labels': list(labels), 'root': ri, 'style': style, 'early': e, 'bound': bound, 'group': group})
    return out


def all_nodes(tree):
    yield tree
    for c in tree:
        yield from all_nodes(c)


def fam_trees(arg):
    acc = Acc('trees')
    for case in arg:
        acc.cases += 1
        check_tree(case, acc)
    if arg:
        acc.sample(arg[len(arg) // 2])
    return acc.result()


def check_nofetch(case, acc):
    """No fetchFn at all: an include must raise the runtime error naming the location."""
    bs = load_impl()
    root = ROOTS[case['root']]
    form = case['form']
    text = ref_text(form, 'n1.bare')
    src = "systemLog('in')\n" + (f'include <{text}>' if form == 'sys' else f"include '{text}'") + "\nsystemLog('out')\n"
    from bare_script.options import url_file_relative  # pylint: disable=import-outside-toplevel,import-error
    logs = []
    options = {'globals': {}, 'logFn': logs.append}
    if root['base'] is not None:
        options['urlFn'] = functools.partial(url_file_relative, root['base'])
    if root['sys'] is not None:
        options['systemPrefix'] = root['sys']
    if form == 'sys' and root['sys'] is not None:
        want = urls.resolve(root['sys'], text)
    else:
        want = urls.resolve(root['base'], text) if root['base'] is not None else text
    acc.evals += 1
    acc.states += 1
    acc.transitions += 1
    acc.traces += 1
    try:
        bs.execute_script(bs.parse_script(src), options)
        acc.violation(case, 'BareScriptRuntimeError', 'completed', 'include without fetchFn did not fail')
    except bs.BareScriptRuntimeError as exc:
        if urls.normalize(want) not in quoted_locations(str(exc)):
            acc.violation(case, urls.normalize(want), str(exc), 'the error does not name the resolved location')
        if logs != ['in']:
            acc.violation(case, ['in'], logs, 'statements after the failed include ran')
    except Exception as exc:  # pylint: disable=broad-exception-caught
        acc.violation(case, 'BareScriptRuntimeError', (type(exc).__name__, str(exc)), 'wrong exception class')
    acc.outcome(want)
    acc.nontrivial += 1


def fam_nofetch(arg):
    acc = Acc('nofetch')
    for case in arg:
        acc.cases += 1
        check_nofetch(case, acc)
    acc.sample(arg[0])
    return acc.result()


# ---------------------------------------------------------------- the command line interface: several scripts in one run

CLI_ITEMS = [
    ('file', 'lib/setup.bare', ['setup', 'lib-extra']),
    ('file', 'top.bare', ['top', 'cwd-extra']),
    ('code', "include 'extra.bare'", ['cwd-extra']),
    ('code', "systemLog('inline')", ['inline']),
    ('file', 'lib/sys.bare', ['sys', 'pager-ok']),
]
CLI_FILES = {
    'extra.bare': "systemLog('cwd-extra')\n",
    'lib/extra.bare': "systemLog('lib-extra')\n",
    'lib/setup.bare': "systemLog('setup')\ninclude 'extra.bare'\n",
    'top.bare': "systemLog('top')\ninclude 'extra.bare'\n",
    # a system include (resolved against the package's own include directory), then nothing relative
    'lib/sys.bare': "systemLog('sys')\ninclude <args.bare>\nsystemLog(if(systemType(argsParse) == 'function', 'pager-ok', 'missing'))\n",
}


def check_cli(case, acc):
    """bare_script.bare.main with a sequence of file / inline scripts: every script's includes resolve against that
    script's own location (inline code: as written, i.e. the working directory), whatever ran before it."""
    import contextlib  # pylint: disable=import-outside-toplevel
    import io  # pylint: disable=import-outside-toplevel
    import os  # pylint: disable=import-outside-toplevel
    import shutil  # pylint: disable=import-outside-toplevel
    import tempfile  # pylint: disable=import-outside-toplevel
    load_impl()
    from bare_script import bare  # pylint: disable=import-outside-toplevel,import-error
    seq = case['seq']
    argv = []
    want = []
    for i in seq:
        kind, value, logs = CLI_ITEMS[i]
        argv += ['-c', value] if kind == 'code' else [value]
        want += logs
    tmp = tempfile.mkdtemp(prefix='bsv-cli-', dir='/var/tmp')
    cwd = os.getcwd()
    acc.evals += 1
    acc.states += 1
    acc.transitions += len(seq)
    acc.traces += 1
    try:
        for rel, text in CLI_FILES.items():
            path = os.path.join(tmp, rel)
            os.makedirs(os.path.dirname(path), exist_ok=True)
            with open(path, 'w', encoding='utf-8') as fh:
                fh.write(text)
        os.chdir(tmp)
        out = io.StringIO()
        code = None
        with contextlib.redirect_stdout(out):
            try:
                bare.main(argv)
            except SystemExit as exc:
                code = exc.code
        got = [ln for ln in out.getvalue().splitlines() if ln]
    except Exception as exc:  # pylint: disable=broad-exception-caught
        got = ['EXCEPTION ' + type(exc).__name__ + ': ' + str(exc)[:200]]
        code = 'exception'
    finally:
        os.chdir(cwd)
        shutil.rmtree(tmp, ignore_errors=True)
    c2 = dict(case, argv=argv)
    if got != want or code not in (0, None):
        acc.violation(c2, {'stdout': want, 'exit': 0}, {'stdout': got, 'exit': code}, 'the command line ran the scripts with includes resolved against the wrong location')
    if len(set(seq)) > 1:
        acc.nontrivial += 1
    acc.outcome(tuple(got))


def check_reuse(case, acc):
    """Run 1 fails inside a NESTED include (missing / broken file at depth 2); run 2 uses the SAME options object:
    its relative includes must resolve against its own base (the host's urlFn), exactly as on a fresh options object."""
    bs = load_impl()
    from bare_script.options import url_file_relative  # pylint: disable=import-outside-toplevel,import-error
    fault = case['fault']
    files = {
        'proj/lib/a.bare': "systemLog('a-in')\ninclude 'sub/b.bare'\nsystemLog('a-out')\n",
        'proj/lib/sub/b.bare': "systemLog('b')\n",
        'proj/c.bare': "systemLog('c')\n",
        'proj/lib/c.bare': "systemLog('WRONG lib/c')\n",
        'proj/lib/sub/c.bare': "systemLog('WRONG lib/sub/c')\n",
    }
    if fault == 'missing':
        del files['proj/lib/sub/b.bare']
    elif fault == 'broken':
        files['proj/lib/sub/b.bare'] = 'zz = (1 +\n'
    elif fault == 'runtime-error':
        files['proj/lib/sub/b.bare'] = "systemLog('b')\nmissing()\n"
    fetched = []

    def fetch(req):
        key = urls.normalize(req['url'])
        fetched.append(key)
        return files.get(key)

    logs = []
    options = {'globals': {}, 'logFn': logs.append, 'fetchFn': fetch, 'urlFn': functools.partial(url_file_relative, 'proj/main.bare'), 'maxStatements': 500}
    acc.evals += 2
    acc.states += 1
    acc.transitions += 2
    acc.traces += 1
    try:
        bs.execute_script(bs.parse_script("include 'lib/a.bare'\n"), options)
        first = 'ok'
    except (bs.BareScriptRuntimeError, bs.BareScriptParserError) as exc:
        first = type(exc).__name__
    except Exception as exc:  # pylint: disable=broad-exception-caught
        acc.violation(case, 'a documented exception', (type(exc).__name__, str(exc)[:200]), 'run 1 raised a host exception')
        return
    want_first = 'ok' if fault == 'none' else ('BareScriptParserError' if fault == 'broken' else 'BareScriptRuntimeError')
    if first != want_first:
        acc.violation(case, want_first, first, 'run 1: unexpected outcome')
        return
    del fetched[:]
    del logs[:]
    try:
        bs.execute_script(bs.parse_script("include 'c.bare'\n"), options)
    except Exception as exc:  # pylint: disable=broad-exception-caught
        acc.violation(case, 'run 2 completes', (type(exc).__name__, str(exc)[:200]), 'the second run with the same options failed')
        return
    if fetched != ['proj/c.bare'] or logs != ['c']:
        acc.violation(case, {'fetches': ['proj/c.bare'], 'logs': ['c']}, {'fetches': fetched, 'logs': logs},
                      'after a failed nested include the same options object resolves includes against the wrong base')
    acc.nontrivial += 1
    acc.outcome((fault, first))


def fam_reuse(arg):
    acc = Acc('reuse')
    for case in arg:
        acc.cases += 1
        check_reuse(case, acc)
    acc.sample(arg[0])
    return acc.result()


def fam_cli(arg):
    acc = Acc('cli')
    for seq in arg:
        acc.cases += 1
        check_cli({'seq': list(seq)}, acc)
    acc.sample({'argv_items': [CLI_ITEMS[i][1] for i in arg[len(arg) // 2]]})
    return acc.result()


def families(tier):
    load_impl()
    cs = cases(tier)
    maxseq = 3 if tier == 'quick' else 4
    def contiguous_files(seq):
        # argparse takes the positional file arguments as ONE block: file scripts must be adjacent on the command line
        kinds = [CLI_ITEMS[i][0] for i in seq]
        idx = [k for k, kd in enumerate(kinds) if kd == 'file']
        return not idx or idx[-1] - idx[0] + 1 == len(idx)
    cli = [seq for n in range(1, maxseq + 1) for seq in itertools.product(range(len(CLI_ITEMS)), repeat=n) if contiguous_files(seq)]
    nf = [{'root': r, 'form': f} for r in range(len(ROOTS)) for f in FORMS]
    return [
        Family('trees', fam_trees, split(cs, 64), 'include trees per mc/props/C17.plan(tier): chains with all eight reference forms, fan-out 2 trees, four root configurations, fault answers on every fetch', expected=len(cs)),
        Family('reuse', fam_reuse, [[{'fault': f} for f in ('none', 'missing', 'broken', 'runtime-error')]], 'a run whose nested include fails (missing file, syntax error, runtime error at depth 2) or succeeds, followed by a second run with the SAME options object', expected=4),
        Family('cli', fam_cli, split(cli, 16), f'bare_script.bare.main with every sequence of <= {maxseq} scripts over {{a file in a sub-directory, a file in the working directory, inline code with an include, inline code, a file with a system include}} on real temporary files', expected=len(cli)),
        Family('nofetch', fam_nofetch, [nf], 'no fetchFn: every reference form x root configuration', expected=len(nf)),
    ]


_CHECKS = {'reuse': check_reuse, 'cli': check_cli, 'trees': check_tree, 'nofetch': check_nofetch}


def replay(family, case):
    acc = Acc(family)
    _CHECKS[family](case, acc)
    res = acc.result()
    return {'differs': bool(res['nviol'] or res['nknown']), 'violations': res['violations'] + res['known_violations']}
