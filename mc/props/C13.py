"""C13 Numbers survive conversion to text and back; the number parsers reject non-numbers (DESIGN 4, C13)."""

import itertools
import math

from ..common import load_impl
from ..engine.shard import Acc, Family, split
from ..ref import numtext as nt

LEVEL = 'exploration'
RULE = ('number families, each enumerated completely: (digits) every double m x 10^e with m of <= D significant digits '
        '(m not a multiple of 10), e in -326..308, both signs; (pow2) 2^e and its two neighbours for every e in -1074..1023, '
        'both signs, plus special values; (bits) every pattern of the upper 16 bits x a fixed list of lower-48-bit patterns; '
        '(ints) every integer 0..N and n +- 0..K around 2^53, 1e15, 1e16, 1e17, 1e21, 1e22, as int and as float carrier, both '
        'signs. For each number every stringification route (value_string, stringNew, arrayJoin, systemLog, script '
        "'' + x and x + '') is taken and each distinct text must (1) be a decimal text whose exactly rounded value "
        '(reference: integer arithmetic) is x, (2) parse back to x with numberParseFloat (direct and in a script), (3) for '
        'x >= 0 parse as the expression / script literal {number: x}, (4) carry no decimal point when x is integral and '
        '|x| < 1e16 and never an empty or all-zero fraction when x is integral. A number is non-trivial when its text '
        'has a fraction or an exponent. Parser families: every string of length <= L over a 14-symbol alphabet for '
        'numberParseFloat and over an 11-symbol alphabet x radix {2, 10, 16, 36, default} for numberParseInt, compared with '
        'a strict grammar (core texts must give the exactly rounded value, every text outside the grammar must give '
        'null, never a non-finite or prefix value); a text is non-trivial when it is in the grammar or accepted. (radix) numberParseInt for '
        'every radix 2..36 on every short string over the digits at the edge of the radix. (memo) every call history a, b, a over a set of '
        'parser / stringNew calls whose texts or values collide when normalised (1, 1.0, true, "1", " 1", -0.0 ...), each call checked '
        'by its own oracle, so that nothing remembered between calls can go unnoticed; non-trivial when a and b are different calls. '
        '(grouping) both parsers on every short string over 0 1 9 , . - and over 1 0 apostrophe thin-space NBSP comma: a grouping '
        'character inside the text makes it not a number; non-trivial when the text has a digit and a grouping character. (failhist) for every '
        'stringifying consumer (arrayJoin, stringNew, systemLog, script concatenation, arrayJoin in a script) a call that fails part-way on an '
        'array holding good numbers and an element that cannot be stringified ([inf], [nan], circular array/object), then ordinary calls of every '
        'consumer on pool numbers whose texts must still round-trip; also ok, fail, ok; non-trivial when the failing call did fail.')
ASSUMPTIONS = [
    'IEEE-754 binary64 floats; math.ldexp, math.nextafter and struct are exact (used to build doubles and compare bits)',
    "float('<m>e<e>') is only used to *pick* the doubles of the digits family; the oracle never uses float(str)",
    'int carriers are restricted to integers that are exactly representable as doubles (the property quantifies over doubles)',
    'texts with leading/trailing white space, .5 / 1E5 / 1e5 spellings, overflowing or underflowing decimal texts, '
    '0x-prefixed text under radix 16 and "1.0" under numberParseInt radix 10 are UNSPECIFIED: the result may be null or the '
    'exact value, nothing else',
    "Python-only spellings outside the alphabet ('1_0', non-ASCII digits) are not exercised: the property does not say "
    'whether they are numbers',
    'the sign of a zero result is compared only for the round trip of -0.0 / 0.0, not for arbitrary zero texts',
    'upper-case letter digits (FF under radix 16) are UNSPECIFIED: null or the exact value',
    'NBSP / thin space / figure space before or after a number count as white-space padding (UNSPECIFIED); between digits they, the comma and '
    'the apostrophe make the text not a number (must be null); the underscore stays outside the alphabets as decided',
    'state kept between calls is only looked for inside one process along the enumerated histories (a, b, a) and along the fixed '
    'enumeration order of each shard; every shard runs in a fresh process',
]

FLOAT_ALPHABET = ['0', '1', '9', '.', 'e', 'E', '+', '-', ' ', 'x', 'n', 'a', 'i', 'f']
INT_ALPHABET = ['0', '1', '9', 'a', 'f', 'z', 'x', '-', '+', ' ', '.']
RADIXES = [10, 2, 16, 36, None]          # None = the documented default (10)
LOW48 = {
    'quick': [0, 1, (1 << 48) - 1, 0x555555555555, 0xAAAAAAAAAAAA],
    'thorough': [0, 1, (1 << 48) - 1, 0x555555555555, 0xAAAAAAAAAAAA, 2, (1 << 48) - 2, 0x800000000000, 0x7FFFFFFFFFFF,
                 0x800000000001, 0x123456789ABC, 0xFEDCBA987654],
}
BIG = [('2^53', 2 ** 53), ('1e15', 10 ** 15), ('1e16', 10 ** 16), ('1e17', 10 ** 17), ('1e21', 10 ** 21), ('1e22', 10 ** 22)]
SPECIALS = [0.0, -0.0, 5e-324, -5e-324, 1.7976931348623157e+308, -1.7976931348623157e+308, 2.2250738585072014e-308,
            2.225073858507201e-308, 0.1, 0.2, 0.30000000000000004, 1 / 3, 2 / 3, 1e-7, 1.5e-7, 1e-5, 0.0001, 0.001, 123456789012345.6,
            1234567890123456.8, 9999999999999998.0, 1e16, 1.5e16, 12345678901234567890.0, 1e21, 1e22, 1e23, 9.999999999999999e22,
            4.35, 0.000001, 100.0, 1000000.0, 2.5, 2.05, 10.05, 1.005, 100.5]
PARAMS = {
    'quick': {'D': 3, 'N': 100000, 'K': 64, 'LF': 5, 'LI': 5, 'LS': 3},
    'thorough': {'D': 4, 'N': 1000000, 'K': 256, 'LF': 6, 'LI': 6, 'LS': 4},
}
EXPONENTS = sorted(range(-326, 309), key=lambda e: (abs(e), e))

ROUTE_SCRIPT = ("systemLog(x)\n"
                "tt = '' + x\n"
                "return arrayNew(tt, x + '', stringNew(x), arrayJoin(arrayNew(x, x), ';'), numberParseFloat(tt))")

_IMPL = {}


def impl():
    if not _IMPL:
        bs = load_impl()
        from bare_script.library import SCRIPT_FUNCTIONS  # pylint: disable=import-outside-toplevel,import-error
        from bare_script.value import value_string  # pylint: disable=import-outside-toplevel,import-error
        _IMPL['bs'] = bs
        _IMPL['F'] = SCRIPT_FUNCTIONS
        _IMPL['value_string'] = value_string
        _IMPL['routes'] = bs.parse_script(ROUTE_SCRIPT)
        _IMPL['pf_global'] = bs.parse_script('return numberParseFloat(ss)')
        _IMPL['pi_global'] = bs.parse_script('return numberParseInt(ss, rr)')
        _IMPL['pi_global_default'] = bs.parse_script('return numberParseInt(ss)')
        _IMPL['sn_global'] = bs.parse_script('return stringNew(xx)')
    return _IMPL


def is_num(v):
    return isinstance(v, (int, float)) and not isinstance(v, bool)


def same_number(r, x):
    """r is the number x, including the sign of zero."""
    if not is_num(r) or not is_num(x):
        return False
    if isinstance(r, float) and (math.isnan(r) or math.isinf(r)):
        return False
    if r != x:
        return False
    if x == 0:
        return math.copysign(1.0, float(r)) == math.copysign(1.0, float(x))
    return True


def number_of_case(case):
    if 'int' in case:
        return case['int']
    return nt.bits_double(case['bits'])


def gather_texts(x, acc, case):
    """Every stringification route -> {text: [routes]}; also the in-script round trip result."""
    im = impl()
    F = im['F']
    out = {}

    def put(route, text):
        if not isinstance(text, str):
            acc.violation(dict(case, route=route), 'a string', text, f'{route} did not produce a string')
            return
        routes = out.setdefault(text, [])
        if route not in routes:
            routes.append(route)

    put('value_string', im['value_string'](x))
    put('stringNew', F['stringNew']([x], None))
    joined = F['arrayJoin']([[x, x], ';'], None)
    if isinstance(joined, str) and joined.count(';') == 1:
        for part in joined.split(';'):
            put('arrayJoin', part)
    else:
        acc.violation(dict(case, route='arrayJoin'), 'text;text', joined, 'arrayJoin of [x, x] is not two texts and one separator')
    logs = []
    F['systemLog']([x], {'logFn': logs.append})
    if len(logs) == 1:
        put('systemLog', logs[0])
    else:
        acc.violation(dict(case, route='systemLog'), 'one log line', logs, 'systemLog did not log exactly once')
    slogs = []
    res = im['bs'].execute_script(im['routes'], {'globals': {'x': x}, 'logFn': slogs.append})
    acc.evals += 5
    script_back = None
    if isinstance(res, list) and len(res) == 5 and len(slogs) == 1:
        put("script '' + x", res[0])
        put("script x + ''", res[1])
        put('script stringNew', res[2])
        if isinstance(res[3], str) and res[3].count(';') == 1:
            for part in res[3].split(';'):
                put('script arrayJoin', part)
        else:
            acc.violation(dict(case, route='script arrayJoin'), 'text;text', res[3], 'arrayJoin in a script is not two texts and one separator')
        put('script systemLog', slogs[0])
        script_back = ('ok', res[4])
    else:
        acc.violation(dict(case, route='script'), 'an array of five results and one log line', [res, slogs], 'the route script did not run as written')
    return out, script_back


def check_number(case, acc):
    """All comparisons for one number. Returns (trivial?, outcome digest)."""
    x = number_of_case(case)
    im = impl()
    bs, F = im['bs'], im['F']
    texts, script_back = gather_texts(x, acc, case)
    if script_back is not None and not same_number(script_back[1], x):
        acc.violation(dict(case, route="script numberParseFloat('' + x)"), x, script_back[1],
                      "numberParseFloat('' + x) evaluated in a script is not x")
    integral = x == math.floor(x)
    nonneg = x > 0 or (x == 0 and math.copysign(1.0, float(x)) > 0)
    nontrivial = False
    first = None
    for text, routes in texts.items():
        c2 = dict(case, text=text, routes=routes)
        if first is None:
            first = text
        p = nt.parse_decimal(text)
        if p is None:
            acc.violation(c2, 'a decimal number text', text, 'the text of a finite number is not a decimal number')
            continue
        if p['dot'] or p['has_exp']:
            nontrivial = True
        # (1) the text denotes x (independent of the implementation's parser)
        val = nt.decimal_to_double(p)
        if val is nt.OVERFLOW or not same_number(val, x):
            acc.violation(c2, x, 'overflow' if val is nt.OVERFLOW else val, 'the text does not denote x (exactly rounded value of the decimal text differs)')
        # (2) numberParseFloat brings x back
        back = F['numberParseFloat']([text], None)
        acc.evals += 1
        if not same_number(back, x):
            acc.violation(c2, x, back, 'numberParseFloat(text(x)) is not x')
        # (3) numeric literal in source text
        if nonneg:
            try:
                expr = bs.parse_expression(text)
            except Exception as exc:  # pylint: disable=broad-exception-caught
                expr = ('raise', type(exc).__name__)
            acc.evals += 1
            if not (isinstance(expr, dict) and list(expr) == ['number'] and same_number(expr['number'], x)):
                acc.violation(c2, {'number': x}, expr, 'parse_expression(text(x)) is not the number literal x')
            try:
                lit = bs.execute_script(bs.parse_script('return ' + text), {})
            except Exception as exc:  # pylint: disable=broad-exception-caught
                lit = ('raise', type(exc).__name__)
            acc.evals += 1
            if not same_number(lit, x):
                acc.violation(c2, x, lit, 'the script "return <text(x)>" does not return x')
        # (4) integral values print without a decimal point / empty fraction
        if integral:
            if p['dot'] and set(p['frac']) <= {'0'}:
                acc.violation(c2, 'no empty or all-zero fraction', text, 'an integral value prints with an empty or all-zero fraction')
            elif p['dot'] and abs(x) < 1e16:
                acc.violation(c2, 'no decimal point', text, 'an integral value below 1e16 prints with a decimal point')
    if len(texts) > 1:
        acc.count('numbers_with_route_dependent_text')
    if first is None:
        return False, None
    return nontrivial, (len(first), '.' in first, 'e' in first, '-' in first[1:])


def _run_number(case, acc):
    acc.cases += 1
    nontrivial, out = check_number(case, acc)
    if nontrivial:
        acc.nontrivial += 1
    acc.outcome(out)


def fam_digits(arg):
    _tier, ms = arg
    acc = Acc('digits')
    for m in ms:
        for e in EXPONENTS:
            x = float(f'{m}e{e}')
            for neg in (False, True):
                if x == 0 or math.isinf(x):
                    acc.cases += 1
                    acc.pruned += 1
                    continue
                case = {'bits': nt.double_bits(-x if neg else x), 'label': f'{"-" if neg else ""}{m}e{e}'}
                _run_number(case, acc)
                if e == 21 and not neg and m == ms[0]:
                    acc.sample(dict(case, text=impl()['value_string'](x)))
    return acc.result()


def pow2_values(e):
    x = math.ldexp(1.0, e)
    return [x, math.nextafter(x, math.inf), math.nextafter(x, 0.0)]


def fam_pow2(arg):
    _tier, es, with_specials = arg
    acc = Acc('pow2')
    if with_specials:
        for x in SPECIALS:
            _run_number({'bits': nt.double_bits(x), 'label': repr(x)}, acc)
    for e in es:
        for k, x in enumerate(pow2_values(e)):
            for neg in (False, True):
                case = {'bits': nt.double_bits(-x if neg else x), 'label': f'{"-" if neg else ""}2^{e}{["", "+ulp", "-ulp"][k]}'}
                _run_number(case, acc)
        if e % 500 == 0:
            acc.sample({'label': f'2^{e}+ulp', 'text': impl()['value_string'](pow2_values(e)[1])})
    return acc.result()


def fam_bits(arg):
    tier, his = arg
    acc = Acc('bits')
    for hi in his:
        for lo in LOW48[tier]:
            b = (hi << 48) | lo
            if (hi >> 4) & 0x7FF == 0x7FF:
                acc.cases += 1
                acc.pruned += 1      # infinities and NaNs: the property is about finite numbers
                continue
            _run_number({'bits': b, 'label': f'0x{b:016x}'}, acc)
        if hi % 4099 == 0:
            b = (hi << 48) | 0x555555555555
            if (hi >> 4) & 0x7FF != 0x7FF:
                acc.sample({'bits': f'0x{b:016x}', 'text': impl()['value_string'](nt.bits_double(b))})
    return acc.result()


def int_cases(n, label):
    """Four cases for an integer n >= 0: int / float carrier x sign."""
    out = []
    for neg in (False, True):
        v = -n if neg else n
        f = float(n)
        exact = int(f) == n
        out.append(({'int': v, 'label': f'int {"-" if neg else ""}{label}'}, exact))
        out.append(({'bits': nt.double_bits(-f if neg else f), 'label': f'float {"-" if neg else ""}{label}'}, True))
    return out


def fam_ints(arg):
    _tier, kind, items = arg
    acc = Acc('ints')
    if kind == 'small':
        todo = ((n, str(n)) for n in items)
    else:
        name, base, k = items
        todo = ((base + d, f'{name}{d:+d}') for d in sorted(range(-k, k + 1), key=lambda d: (abs(d), d)))
    for n, label in todo:
        for case, ok in int_cases(n, label):
            if not ok:
                acc.cases += 1
                acc.pruned += 1      # an int that is not a double is outside the property's quantifier
                continue
            _run_number(case, acc)
        if n % 25013 == 0 or (kind == 'big' and n == items[1]):
            acc.sample({'int': n, 'text_int': impl()['value_string'](n), 'text_float': impl()['value_string'](float(n))})
    return acc.result()


# ---------------------------------------------------------------------------------------------------------------------
# parsers


def call_parse_float(text, via):
    im = impl()
    if via == 'direct':
        return im['F']['numberParseFloat']([text], None)
    if via == 'script-global':
        return im['bs'].execute_script(im['pf_global'], {'globals': {'ss': text}})
    return im['bs'].execute_script(im['bs'].parse_script(f"return numberParseFloat('{text}')"), {})


def call_parse_int(text, radix, via):
    im = impl()
    if via == 'direct':
        return im['F']['numberParseInt']([text] if radix is None else [text, radix], None)
    if via == 'script-global':
        if radix is None:
            return im['bs'].execute_script(im['pi_global_default'], {'globals': {'ss': text}})
        return im['bs'].execute_script(im['pi_global'], {'globals': {'ss': text, 'rr': radix}})
    src = f"return numberParseInt('{text}')" if radix is None else f"return numberParseInt('{text}', {radix})"
    return im['bs'].execute_script(im['bs'].parse_script(src), {})


def prefix_value_note(text, r):
    for k in range(len(text) - 1, 0, -1):
        p = nt.parse_decimal(text[:k].strip())
        if p is not None:
            v = nt.decimal_to_double(p)
            if v is not nt.OVERFLOW and v == r:
                return f' (it is the value of the proper prefix {text[:k]!r})'
    return ''


def check_pfloat(case, acc):
    text = case['text']
    via = case.get('via', 'direct')
    ring, p = nt.classify_float(text)
    r = call_parse_float(text, via)
    acc.evals += 1
    obs = (ring, r is None)
    if r is not None and not is_num(r):
        acc.violation(case, 'null or a number', r, 'numberParseFloat returned something that is neither null nor a number')
        return obs
    if isinstance(r, float) and (math.isnan(r) or math.isinf(r)):
        acc.violation(case, 'null' if ring == 'reject' else 'null or a finite number', r, 'numberParseFloat returned a non-finite value')
        return obs
    if ring == 'reject':
        if r is not None:
            acc.violation(case, None, r, 'text that is not a number did not give null' + prefix_value_note(text, r))
        return obs
    val = nt.decimal_to_double(p)
    if val is nt.OVERFLOW or (val == 0 and nt.is_nonzero(p)):
        acc.unspecified += 1          # a decimal text beyond the double range: null or any finite answer
        return obs
    if r is None:
        if ring == 'core':
            acc.violation(case, val, None, 'a decimal number text in literal/stringification form was rejected')
        else:
            acc.unspecified += 1
        return obs
    if ring != 'core':
        acc.unspecified += 1
    if r != val:
        acc.violation(case, val, r, 'the parsed value is not the exactly rounded value of the decimal text')
    return obs


def check_pint(case, acc):
    text, radix = case['text'], case['radix']
    via = case.get('via', 'direct')
    ring, val = nt.classify_int(text, 10 if radix is None else radix)
    r = call_parse_int(text, radix, via)
    acc.evals += 1
    obs = (ring, r is None, radix)
    if r is not None and not is_num(r):
        acc.violation(case, 'null or a number', r, 'numberParseInt returned something that is neither null nor a number')
        return obs
    if isinstance(r, float) and (math.isnan(r) or math.isinf(r)):
        acc.violation(case, None, r, 'numberParseInt returned a non-finite value')
        return obs
    if ring == 'reject':
        if r is not None:
            acc.violation(case, None, r, 'text that is not an integer in this radix did not give null')
        return obs
    if r is None:
        if ring == 'core':
            acc.violation(case, val, None, 'an integer text in this radix was rejected')
        else:
            acc.unspecified += 1
        return obs
    if ring != 'core':
        acc.unspecified += 1
    if r != val:
        acc.violation(case, val, r, 'the parsed integer is not the value of the digits in this radix')
    return obs


def strings_with_prefix(alphabet, prefix, maxlen):
    """prefix (tuple of indices, length 2) followed by every tail of length 0..maxlen-2."""
    head = ''.join(alphabet[i] for i in prefix)
    for n in range(0, maxlen - len(prefix) + 1):
        for tail in itertools.product(alphabet, repeat=n):
            yield head + ''.join(tail)


def short_strings(alphabet, maxlen):
    for n in range(0, min(maxlen, 1) + 1):
        for t in itertools.product(alphabet, repeat=n):
            yield ''.join(t)


def shard_texts(alphabet, prefixes, maxlen, with_short):
    if with_short:
        yield from short_strings(alphabet, maxlen)
    if maxlen >= 2:
        for prefix in prefixes:
            yield from strings_with_prefix(alphabet, prefix, maxlen)


def fam_pfloat(arg):
    _tier, prefixes, maxlen, with_short = arg
    acc = Acc('pfloat')
    for text in shard_texts(FLOAT_ALPHABET, prefixes, maxlen, with_short):
        acc.cases += 1
        obs = check_pfloat({'text': text}, acc)
        acc.outcome(obs)
        if obs != ('reject', True):
            acc.nontrivial += 1
            if len(text) == maxlen and text[2:] == '1e+9'[:maxlen - 2]:
                acc.sample({'text': text, 'ring': obs[0], 'null': obs[1]})
    return acc.result()


def fam_pint(arg):
    _tier, prefixes, maxlen, with_short = arg
    acc = Acc('pint')
    for text in shard_texts(INT_ALPHABET, prefixes, maxlen, with_short):
        for radix in RADIXES:
            acc.cases += 1
            obs = check_pint({'text': text, 'radix': radix}, acc)
            acc.outcome(obs)
            if obs[:2] != ('reject', True):
                acc.nontrivial += 1
                if len(text) == maxlen and text[2:] == 'f1z'[:maxlen - 2] and radix == 36:
                    acc.sample({'text': text, 'radix': radix, 'ring': obs[0], 'null': obs[1]})
    return acc.result()


SCRIPT_VIAS = ['script-global', 'script-literal']


def fam_pscript(arg):
    _tier, which, prefixes, maxlen, with_short = arg
    acc = Acc('pscript')
    if which == 'float':
        for text in shard_texts(FLOAT_ALPHABET, prefixes, maxlen, with_short):
            for via in SCRIPT_VIAS:
                acc.cases += 1
                obs = check_pfloat({'text': text, 'via': via, 'fn': 'float'}, acc)
                acc.outcome(obs)
                if obs != ('reject', True):
                    acc.nontrivial += 1
    else:
        for text in shard_texts(INT_ALPHABET, prefixes, maxlen, with_short):
            for radix in RADIXES:
                for via in SCRIPT_VIAS:
                    acc.cases += 1
                    obs = check_pint({'text': text, 'radix': radix, 'via': via, 'fn': 'int'}, acc)
                    acc.outcome(obs)
                    if obs[:2] != ('reject', True):
                        acc.nontrivial += 1
    if with_short:
        acc.sample({'script': "return numberParseFloat('1e+9')" if which == 'float' else "return numberParseInt('ff', 16)",
                    'result': call_parse_float('1e+9', 'script-literal') if which == 'float' else call_parse_int('ff', 16, 'script-literal')})
    return acc.result()


def check_pscript(case, acc):
    if case.get('fn') == 'int':
        return check_pint(case, acc)
    return check_pfloat(case, acc)


# ---------------------------------------------------------------------------------------------------------------------
# every radix, and call histories (nothing may be remembered between calls)


def radix_alphabet(radix):
    """0, 1, the largest digit of the radix (lower and upper case), the first non-digit, z, sign, space."""
    top = nt.DIGITS[radix - 1]
    beyond = nt.DIGITS[radix] if radix < 36 else '!'
    out = []
    for ch in ['0', '1', top, top.upper(), beyond, 'z', '-', ' ']:
        if ch not in out:
            out.append(ch)
    return out


RADIX_LEN = {'quick': 3, 'thorough': 4}


def radix_texts(radix, maxlen):
    alpha = radix_alphabet(radix)
    for n in range(maxlen + 1):
        for t in itertools.product(alpha, repeat=n):
            yield ''.join(t)


def radix_expected(maxlen):
    """Alphabet sizes: radix 2 has 6 symbols (largest digit = 1), radix 3..10 have 7 (no upper case), radix 11..34 have 8,
    radix 35 (first non-digit = z) and radix 36 (largest digit = z) have 7."""
    return _nstrings(6, maxlen) + 8 * _nstrings(7, maxlen) + 24 * _nstrings(8, maxlen) + 2 * _nstrings(7, maxlen)


def fam_radix(arg):
    tier, radixes = arg
    acc = Acc('radix')
    for radix in radixes:
        for text in radix_texts(radix, RADIX_LEN[tier]):
            acc.cases += 1
            obs = check_pint({'text': text, 'radix': radix, 'via': 'script-global' if len(text) == 2 else 'direct'}, acc)
            acc.outcome(obs)
            if obs[:2] != ('reject', True):
                acc.nontrivial += 1
        acc.sample({'radix': radix, 'alphabet': radix_alphabet(radix), 'largest': call_parse_int(nt.DIGITS[radix - 1] * 2, radix, 'direct')})
    return acc.result()


MEMO_FLOAT_TEXTS = ['1', '1.0', ' 1', '1 ', '+1', '01', '1e0', '1e+0', '1.', '-1', '-0', '0', '0.0', '', 'true', '1x', 'nan', 'inf', '-inf',
                    'NaN', 'Infinity', '1e999', '0x1', '10', '1.5', '15', '1e1']
MEMO_INT_TEXTS = ['10', '1', '11', 'z', 'a', 'A', '010', ' 10', '10 ', '+10', '-10', '1.0', '', '0x10', '1e1', 'true']
MEMO_INT_RADIXES = [None, 10, 2, 16, 36, 10.0]
MEMO_VALUES = [1, 1.0, True, '1', -0.0, 0, 0.0, False, None, 'true', '1.0', 1e21, 10 ** 21, 1.5, '1.5', 10, 10.0, '10', -1, -1.0, 100.0, 1e-7]


def memo_calls():
    if 'memo' not in _MEMO:
        calls = [('pf', t) for t in MEMO_FLOAT_TEXTS]
        calls += [('pi', t, r) for t in MEMO_INT_TEXTS for r in MEMO_INT_RADIXES]
        calls += [('sn', i) for i in range(len(MEMO_VALUES))]
        _MEMO['memo'] = calls
    return _MEMO['memo']


N_MEMO_CALLS = 27 + 16 * 6 + 22
_MEMO = {}


def run_memo_call(call, via, case, acc):
    """One call of a history, checked by its own oracle. Returns a small observation."""
    if call[0] == 'pf':
        return check_pfloat(dict(case, text=call[1], via=via), acc)
    if call[0] == 'pi':
        return check_pint(dict(case, text=call[1], radix=call[2], via=via), acc)
    x = MEMO_VALUES[call[1]]
    im = impl()
    if via == 'direct':
        text = im['F']['stringNew']([x], None)
    else:
        text = im['bs'].execute_script(im['sn_global'], {'globals': {'xx': x}})
    acc.evals += 1
    if not is_num(x):
        return ('sn', 'other')       # booleans, strings, null: only there to set up state for the next call
    c2 = dict(case, value=repr(x), text=text)
    p = nt.parse_decimal(text) if isinstance(text, str) else None
    if p is None:
        acc.violation(c2, 'a decimal number text', text, 'the text of a number (after other values were stringified) is not a decimal number')
        return ('sn', 'bad')
    val = nt.decimal_to_double(p)
    if val is nt.OVERFLOW or not same_number(val, x):
        acc.violation(c2, x, val, 'the text of a number (after other values were stringified) does not denote it')
    elif x == math.floor(x) and p['dot'] and (set(p['frac']) <= {'0'} or abs(x) < 1e16):
        acc.violation(c2, 'no fraction', text, 'an integral value prints with a decimal point')
    return ('sn', text)


def check_memo(case, acc):
    """The history a, b, a (three calls in this order in one process)."""
    calls = memo_calls()
    a, b = calls[case['a']], calls[case['b']]
    via = case['via']
    c2 = dict(case, calls=[repr(a), repr(b)])
    o1 = run_memo_call(a, via, dict(c2, step=1), acc)
    o2 = run_memo_call(b, via, dict(c2, step=2), acc)
    o3 = run_memo_call(a, via, dict(c2, step=3), acc)
    return (o1 == o3, o2)


def fam_memo(arg):
    _tier, rows = arg
    acc = Acc('memo')
    n = len(memo_calls())
    for i in rows:
        for j in range(n):
            for via in ('direct', 'script-global'):
                acc.cases += 1
                before = acc.unspecified
                obs = check_memo({'a': i, 'b': j, 'via': via}, acc)
                acc.outcome(obs)
                if memo_calls()[i][0] != memo_calls()[j][0] or i != j:
                    acc.nontrivial += 1
                acc.unspecified = before + min(acc.unspecified - before, 1)
        acc.sample({'history': [repr(memo_calls()[i]), repr(memo_calls()[(i * 5 + 1) % n]), repr(memo_calls()[i])]})
    return acc.result()


# ---------------------------------------------------------------------------------------------------------------------
# digit grouping characters are not part of a number


GROUP_ALPHABET_A = ['0', '1', '9', ',', '.', '-']
GROUP_ALPHABET_B = ['1', '0', "'", '\u2009', '\u00a0', ',']
GROUP_LEN = {'quick': (5, 4), 'thorough': (6, 5)}
GROUP_CALLS = ['float', 'int10', 'int-default']


def check_grouping(case, acc):
    if case['fn'] == 'float':
        return check_pfloat(case, acc)
    return check_pint(dict(case, radix=10 if case['fn'] == 'int10' else None), acc)


def fam_grouping(arg):
    _tier, which, prefixes, maxlen, with_short = arg
    acc = Acc('grouping')
    alphabet = GROUP_ALPHABET_A if which == 'A' else GROUP_ALPHABET_B
    for text in shard_texts(alphabet, prefixes, maxlen, with_short):
        grouped = any(ch in text for ch in ",'\u2009\u00a0")
        for fn in GROUP_CALLS:
            acc.cases += 1
            obs = check_grouping({'text': text, 'fn': fn, 'via': 'script-global' if len(text) == 3 else 'direct'}, acc)
            acc.outcome((fn,) + tuple(obs[:2]))
            if grouped and any(ch.isdigit() for ch in text):
                acc.nontrivial += 1
        if text in ('1,000', "1'00"):
            acc.sample({'text': text, 'numberParseFloat': call_parse_float(text, 'direct'), 'numberParseInt': call_parse_int(text, 10, 'direct')})
    return acc.result()


# ---------------------------------------------------------------------------------------------------------------------
# a FAILED stringification must leave nothing behind


CONSUMERS = ['arrayJoin', 'stringNew', 'systemLog', 'concat', 'arrayJoin-script']
POISONS = ['[inf]', '[nan]', '[-inf]', 'circular-array', '{a: inf}', 'circular-object', 'control [1e308]']
POISON_SHAPES = ['good-good-bad', 'good-bad-good']
FAIL_HISTS = ['F-O', 'O-F-O']
FAIL_POOL = [0.5, 1.0, -0.0, 7, 1e21, 1e-7, 123456789.125, 5e-324, 1.5e16, 100.0, -2.5, 2 ** 53]


def build_poison(kind, shape):
    """An array whose stringification fails part-way: good numbers, then an element that cannot be stringified."""
    if kind == '[inf]':
        bad = [float('inf')]
    elif kind == '[nan]':
        bad = [float('nan')]
    elif kind == '[-inf]':
        bad = [1, float('-inf')]
    elif kind == 'circular-array':
        bad = [1]
        bad.append(bad)
    elif kind == '{a: inf}':
        bad = {'a': float('inf')}
    elif kind == 'circular-object':
        bad = {}
        bad['a'] = bad
    else:
        bad = [1e308]             # control: stringifies fine, so the "failing" call succeeds (a trivial case)
    return [7, 0.25, bad] if shape == 'good-good-bad' else [7, bad, 3]


def consume(consumer, value):
    """Stringify `value` with one consumer -> text (exceptions propagate)."""
    im = impl()
    if 'fh_concat' not in im:
        im['fh_concat'] = im['bs'].parse_script("return '' + xx")
        im['fh_join'] = im['bs'].parse_script("return arrayJoin(xx, ',')")
    if consumer == 'arrayJoin':
        return im['F']['arrayJoin']([value, ','], None)
    if consumer == 'stringNew':
        return im['F']['stringNew']([value], None)
    if consumer == 'systemLog':
        logs = []
        im['F']['systemLog']([value], {'logFn': logs.append})
        return logs[0] if len(logs) == 1 else logs
    if consumer == 'concat':
        return im['bs'].execute_script(im['fh_concat'], {'globals': {'xx': value}})
    return im['bs'].execute_script(im['fh_join'], {'globals': {'xx': value}})


def ok_call(consumer, x, y, case, acc, step):
    """An ordinary call on pool numbers; every number text obtained must denote its number and parse back to it."""
    joins = consumer in ('arrayJoin', 'arrayJoin-script')
    try:
        out = consume(consumer, [x, y] if joins else x)
    except Exception as exc:  # pylint: disable=broad-exception-caught
        out = ('raise', type(exc).__name__)
    acc.evals += 1
    c2 = dict(case, step=step, numbers=[repr(x), repr(y)] if joins else [repr(x)], text=out)
    if not isinstance(out, str):
        acc.violation(c2, 'a text', out, f'{consumer} of finite numbers did not produce a text')
        return False
    parts = out.split(',') if joins else [out]
    wants = [x, y] if joins else [x]
    if len(parts) != len(wants):
        acc.violation(c2, f'{len(wants)} number texts', out, f'{consumer} of {len(wants)} numbers does not consist of {len(wants)} number texts')
        return False
    for part, want in zip(parts, wants):
        p = nt.parse_decimal(part)
        val = nt.decimal_to_double(p) if p is not None else None
        if p is None or val is nt.OVERFLOW or not same_number(val, want):
            acc.violation(c2, want, part, f'the text {consumer} produced for a number does not denote that number')
            return False
        back = impl()['F']['numberParseFloat']([part], None)
        acc.evals += 1
        if not same_number(back, want):
            acc.violation(c2, want, back, 'numberParseFloat(text(x)) is not x')
            return False
        if want == math.floor(want) and p['dot'] and (set(p['frac']) <= {'0'} or abs(want) < 1e16):
            acc.violation(c2, 'an integral value without a decimal point', part, 'an integral value prints with a decimal point / all-zero fraction')
            return False
    return True


def check_failhist(case, acc):
    """F-O: failing call (consumer c1 on a poisoned array), then an ordinary call (consumer c2 on pool numbers), round trip.
    O-F-O: ordinary call, failing call, the same ordinary call again."""
    c1, c2 = CONSUMERS[case['c1']], CONSUMERS[case['c2']]
    x = FAIL_POOL[case['x']]
    y = FAIL_POOL[(case['x'] + 5) % len(FAIL_POOL)]
    if case['hist'] == 'O-F-O' and not ok_call(c2, x, y, case, acc, 'before'):
        return ('bad',)
    poison = build_poison(POISONS[case['poison']], POISON_SHAPES[case['shape']])
    try:
        out = consume(c1, poison)
        failed = 'text' if isinstance(out, str) else 'null'
    except Exception as exc:  # pylint: disable=broad-exception-caught
        failed = 'raise ' + type(exc).__name__
    acc.evals += 1
    del poison
    ok = ok_call(c2, x, y, case, acc, 'after the failing call')
    if ok:
        ok_call(c1 if c1 != 'concat' else 'stringNew', y, x, case, acc, 'second call after the failing call')
    return (failed, c1)


def failhist_cases(c1_poison_pairs):
    for c1, poison in c1_poison_pairs:
        for shape in range(len(POISON_SHAPES)):
            for hist in FAIL_HISTS:
                for c2 in range(len(CONSUMERS)):
                    for x in range(len(FAIL_POOL)):
                        yield {'c1': c1, 'poison': poison, 'shape': shape, 'hist': hist, 'c2': c2, 'x': x}


def fam_failhist(arg):
    _tier, pairs = arg
    acc = Acc('failhist')
    for case in failhist_cases(pairs):
        acc.cases += 1
        obs = check_failhist(case, acc)
        acc.outcome(obs)
        if obs[0] != 'text' and obs[0] != 'bad':
            acc.nontrivial += 1          # the call that should fail did fail
    acc.sample({'history': [f'{CONSUMERS[pairs[0][0]]}({POISON_SHAPES[0]} with {POISONS[pairs[0][1]]})', 'arrayJoin([0.5, 1e-07], ",")', 'round trip']})
    return acc.result()


def _prefix_shards(nsym, nshards):
    prefixes = list(itertools.product(range(nsym), repeat=2))
    return split(prefixes, nshards)


def _nstrings(nsym, maxlen):
    return sum(nsym ** k for k in range(maxlen + 1))


def families(tier):
    pr = PARAMS[tier]
    mants = [m for m in range(1, 10 ** pr['D']) if m % 10]
    nf, ni = len(FLOAT_ALPHABET), len(INT_ALPHABET)
    fams = [
        Family('digits', fam_digits, [(tier, ms) for ms in split(mants, 60)],
               f'every m x 10^e, m in 1..{10 ** pr["D"] - 1} not a multiple of 10, e in -326..308, both signs (zero/overflowing products pruned)',
               expected=len(mants) * len(EXPONENTS) * 2),
        Family('pow2', fam_pow2, [(tier, es, i == 0) for i, es in enumerate(split(list(range(-1074, 1024)), 16))],
               f'2^e, next double up, next double down for e in -1074..1023, both signs; plus {len(SPECIALS)} special values',
               expected=2098 * 3 * 2 + len(SPECIALS)),
        Family('bits', fam_bits, [(tier, his) for his in split(list(range(65536)), 32)],
               f'upper 16 bits: all 65536 patterns x lower 48 bits in {len(LOW48[tier])} fixed patterns (non-finite pruned)',
               expected=65536 * len(LOW48[tier])),
        Family('ints', fam_ints,
               [(tier, 'small', ns) for ns in split(list(range(pr['N'] + 1)), 26)] + [(tier, 'big', (name, n, pr['K'])) for name, n in BIG],
               f'every integer 0..{pr["N"]} and n +- 0..{pr["K"]} for n in 2^53, 1e15, 1e16, 1e17, 1e21, 1e22; int and float carrier; both signs '
               '(ints that are not doubles pruned)',
               expected=(pr['N'] + 1) * 4 + len(BIG) * (2 * pr['K'] + 1) * 4),
        Family('pfloat', fam_pfloat, [(tier, p, pr['LF'], i == 0) for i, p in enumerate(_prefix_shards(nf, 49))],
               f'numberParseFloat on every string of length <= {pr["LF"]} over {"".join(FLOAT_ALPHABET)!r}',
               expected=_nstrings(nf, pr['LF'])),
        Family('pint', fam_pint, [(tier, p, pr['LI'], i == 0) for i, p in enumerate(_prefix_shards(ni, 40))],
               f'numberParseInt on every string of length <= {pr["LI"]} over {"".join(INT_ALPHABET)!r} x radix {RADIXES}',
               expected=_nstrings(ni, pr['LI']) * len(RADIXES)),
        Family('pscript', fam_pscript,
               [(tier, 'float', p, pr['LS'], i == 0) for i, p in enumerate(_prefix_shards(nf, 14))]
               + [(tier, 'int', p, pr['LS'], i == 0) for i, p in enumerate(_prefix_shards(ni, 11))],
               f'the same parsers called from scripts (text in a global, text in a string literal) on every string of length <= {pr["LS"]}',
               expected=_nstrings(nf, pr['LS']) * 2 + _nstrings(ni, pr['LS']) * len(RADIXES) * 2),
        Family('radix', fam_radix, [(tier, rs) for rs in split(list(range(2, 37)), 35)],
               f'numberParseInt for EVERY radix 2..36 on every string of length <= {RADIX_LEN[tier]} over 0, 1, the largest digit (both cases), '
               'the first non-digit, z, -, space',
               expected=radix_expected(RADIX_LEN[tier])),
        Family('memo', fam_memo, [(tier, rs) for rs in split(list(range(N_MEMO_CALLS)), 29)],
               f'every history a, b, a over {N_MEMO_CALLS} calls ({len(MEMO_FLOAT_TEXTS)} numberParseFloat texts, {len(MEMO_INT_TEXTS)} numberParseInt texts x '
               f'{len(MEMO_INT_RADIXES)} radix arguments, stringNew of {len(MEMO_VALUES)} values incl. 1 / 1.0 / true / "1"), direct and in scripts',
               expected=N_MEMO_CALLS * N_MEMO_CALLS * 2),
        Family('grouping', fam_grouping,
               [(tier, 'A', p, GROUP_LEN[tier][0], i == 0) for i, p in enumerate(_prefix_shards(6, 12))]
               + [(tier, 'B', p, GROUP_LEN[tier][1], i == 0) for i, p in enumerate(_prefix_shards(6, 6))],
               f'numberParseFloat, numberParseInt radix 10 and default radix on every string of length <= {GROUP_LEN[tier][0]} over 0 1 9 , . - and of '
               f"length <= {GROUP_LEN[tier][1]} over 1 0 ' U+2009 U+00A0 , (text with a grouping character inside is not a number: null)",
               expected=(_nstrings(6, GROUP_LEN[tier][0]) + _nstrings(6, GROUP_LEN[tier][1])) * 3),
        Family('failhist', fam_failhist,
               [(tier, ps) for ps in split([(c1, po) for c1 in range(len(CONSUMERS)) for po in range(len(POISONS))], 35)],
               f'failing stringification then ordinary stringification: consumer {CONSUMERS} x poisoned array ({POISONS} x {POISON_SHAPES}) x history '
               f'{FAIL_HISTS} x following consumer {CONSUMERS} x {len(FAIL_POOL)} pool numbers; each case runs in this fixed order in one process',
               expected=5 * 7 * 2 * 2 * 5 * 12),
    ]
    # the self-contained call histories first (their violations replay on their own)
    return fams[-1:] + fams[-4:-2] + fams[:-4] + fams[-2:-1]


def _replay_number(case, acc):
    check_number(case, acc)


_CHECKS = {'digits': _replay_number, 'pow2': _replay_number, 'bits': _replay_number, 'ints': _replay_number,
           'pfloat': check_pfloat, 'pint': check_pint, 'pscript': check_pscript, 'radix': check_pint, 'memo': check_memo, 'grouping': check_grouping, 'failhist': check_failhist}


def replay(family, case):
    acc = Acc(family)
    _CHECKS[family](case, acc)
    res = acc.result()
    return {'differs': bool(res['nviol'] or res['nknown']), 'violations': res['violations'] + res['known_violations']}
