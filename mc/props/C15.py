"""C15 Array, object and string functions obey their sequence/map/string contracts (DESIGN 4, C15; appendix A.3).

containers  Engine B: explicit-state BFS to fixpoint over a pool of live, aliased lists/dicts; every array*/object* call
            of the event alphabet is executed by the real interpreter on the live globals and compared (result, alias
            relation of the result to the pool, complete post-state) with mc/ref/lib.py.
strings     Engine C: every argument tuple of the string* functions over a pool of short strings.
regex       every ordered pair (s, t) of short punctuation strings: '^' + regexEscape(s) + '$' matches t iff s == t.
url         every string of length <= 2 over ASCII + 6 non-ASCII characters: allowed output alphabet, reversible.
callbacks   arraySort with comparators returning fractional / negative / huge / tiny numbers (only the sign counts);
            arrayIndexOf / arrayLastIndexOf with a match function returning values of every truthiness class.
regexctx    regexEscape of ~60 strings whose metacharacters only matter in context ('a{2}', '(?i)a', '[^a]', ...).
lastfit     string/array searches with the match at the last (first) position where it still fits, every start index.
fresh       short histories r1 = f(args); mutate r1 in place; r2 = f(same args) for every container-returning function:
            results are never shared between calls.
"""

import datetime
import itertools
import os
import re
import time
import warnings

from ..common import HarnessError, canon, load_impl
from ..engine import bfs
from ..engine.shard import Acc, Family, split
from ..ref import lib as rl
from ..ref import values as rv
from ..ref.values import UNSPECIFIED

LEVEL = 'model_checking'
RULE = ('containers: states are the distinct canonical states (values + alias graph + key insertion order) of the variable '
        'pool aa, bb, cc, oo, pp reachable from the seed states by any history of events; an event is one script '
        '`rr = fn(args)` of a fixed alphabet (every array*/object* function x pool variables x float-literal indices '
        '-2..L+2 and 1.5 x values 1, "x", null, bb, oo x predicate/comparator script functions x one wrong-typed value of '
        'every other type per parameter x missing and surplus arguments); every (state, event) pair is one case and one '
        'transition executed by the real interpreter; it is non-trivial when the documented call succeeds (is not a '
        'failure-value return). strings/regex/url: plain exhaustive tuples; non-trivial = the call succeeds with a '
        'specified result / the pair is a near miss (same length, one position differs) or equal / the text needs escaping. fresh: '
        'every (function, argument list, mutation) triple of a fixed table is one two-call history; non-trivial = the first call '
        'returned a container and the mutation changed it.')
ASSUMPTIONS = [
    'mc/ref/lib.py (plain list/dict/str operations written from the $doc/$arg/$return comments and the documented signatures) is right',
    'Python list/dict behaviour depends only on contents, element identity and (dict) insertion order - the three things the state key contains',
    'a missing trailing argument is null or its documented default (appendix A.3); arraySort is stable (as C11 demands)',
    'results left open by the documentation are not compared (UNSPECIFIED): arrayDelete/objectDelete result, objectKeys order, '
    'objectNew with a key without value, end < start in slices, empty search/separator/substr strings, non-ASCII case mapping and trimming',
]

POOL = ('aa', 'bb', 'cc', 'oo', 'pp')
SCALARS = frozenset(canon(v) for v in (1.0, 'x', None))
KEYSET = frozenset(('k1', 'k2'))

BOUNDS = {
    # L: max array length; T: max total number of cells (array elements + object entries) over all reachable
    # containers; D: max nesting depth of containers below a pool variable
    'quick': {'L': 2, 'T': 3, 'D': 2},
    'thorough': {'L': 3, 'T': 4, 'D': 2},
}

PRELUDE = '''\
function isOne(vv):
    return vv == 1
endfunction
function isArr(vv):
    return systemType(vv) == 'array'
endfunction
function cmpRev(va, vb):
    return systemCompare(vb, va)
endfunction
'''
REF_FUNCS = {
    'isOne': lambda v: rv.compare(v, 1) == 0,
    'isArr': lambda v: rv.rtype(v) == 'array',
    'cmpRev': lambda a, b: rv.compare(b, a),
}
SELF_ARRAY = [1.0]
SELF_ARRAY.append(SELF_ARRAY)       # an array that contains itself: it has no JSON text; read-only host global `sa`, never part of a state
DEEP_ARRAY = []
for _ in range(3000):               # an array nested deeper than any recursive encoder can follow; read-only host global `dp`
    DEEP_ARRAY = [DEEP_ARRAY]
DEEP_INNER = DEEP_ARRAY[0]
HUGE = 10 ** 400                    # a host integer beyond the float range (finite, integral): read-only host globals `big`, `nbig` (F22)
CONSTS = {'dt': datetime.datetime(2020, 1, 2, 3, 4, 5), 'rx': re.compile('a'), 'sa': SELF_ARRAY, 'dp': DEEP_ARRAY, 'big': HUGE, 'nbig': -HUGE}
NONFINITE = {'inf': float('inf'), 'nan': float('nan')}


# ---------------------------------------------------------------------------------------------------------------
# Argument descriptors: (kind, payload, script text)
# ---------------------------------------------------------------------------------------------------------------

def num(x):
    x = float(x)
    text = repr(abs(x))         # always a float literal: 0.0, 1.0, 1.5
    return ('n', x, ('-' if x < 0 else '') + text)


def var(name):
    return ('v', name, name)


def lit(s):
    return ('s', s, "'" + s + "'")


NULL = ('k', None, 'null')
TRUE = ('k', True, 'true')


def fn(name):
    return ('f', name, name)


def const(name):
    return ('g', name, name)


def fresh(text, build):
    return ('x', build, text)


def nonfinite(which):
    """An infinite / NaN number, obtained in script text by overflowing float arithmetic."""
    return ('e', which, {'inf': '1e+308 * 10', 'nan': '1e+308 * 10 - 1e+308 * 10'}[which])


WRONG = {
    'null': NULL, 'boolean': TRUE, 'number': num(1), 'string': lit('x'), 'array': var('bb'), 'object': var('oo'),
    'function': fn('isOne'), 'datetime': const('dt'), 'regex': const('rx'),
}


def wrong_values(ptype, nullable=False, table=None, negative_huge=False, deep=True):
    """[(label, descriptor)] of the invalid values tried for one typed parameter: one value of every other type (null
    unless accepted), the self-containing array `sa` (a wrong-typed value that has no JSON text) and the 3000-levels-deep array `dp` (no encoder can follow it) unless
    arrays are accepted, and - for number parameters, all of which are integer-constrained here - an infinite and a NaN number
    and the host integer 10**400 (beyond the float range; its negative too in the single-call families)."""
    out = [(t, w) for t, w in (table or WRONG).items() if t != ptype and not (t == 'null' and nullable)]
    if ptype != 'array':
        out.append(('array:self-containing', const('sa')))
        if deep:
            out.append(('array:nested-3000-deep', const('dp')))
    if ptype == 'number':
        out.append(('number:inf', nonfinite('inf')))
        out.append(('number:nan', nonfinite('nan')))
        out.append(('number:10**400', const('big')))
        if negative_huge:
            out.append(('number:-10**400', const('nbig')))
    return out


def n_wrong(ptype, nullable=False, negative_huge=False):
    """Closed form of len(wrong_values(...)): nine types minus the accepted one, minus null when nullable, plus the
    self-containing and the deep array when arrays are not accepted, plus inf, NaN and 10**400 (and -10**400) for numbers."""
    return 8 - (1 if nullable else 0) + (0 if ptype == 'array' else 2) + ((4 if negative_huge else 3) if ptype == 'number' else 0)


def impl_guard(default=None):
    """Decorator for a per-case check: an exception raised while running the implementation or while post-processing
    what it returned (decoding, compiling, sorting, indexing its output) is a property VIOLATION of that case - malformed
    output - never a harness exception. HarnessError (the harness's own consistency checks) passes through."""
    def wrap(check):
        def guarded(case, acc, *args, **kw):
            try:
                return check(case, acc, *args, **kw)
            except HarnessError:
                raise
            except Exception as exc:  # pylint: disable=broad-exception-caught
                acc.violation(case, 'a well-formed result', f'{type(exc).__name__}: {exc}',
                              'an exception escaped the implementation, or its output is malformed and could not be processed')
                return default
        guarded.__name__ = check.__name__
        guarded.__doc__ = check.__doc__
        return guarded
    return wrap


def opaque(value):
    """The self-containing and the deep host arrays as opaque tagged leaves (they must never be canonicalised)."""
    if value is DEEP_ARRAY:
        return '<host global dp>'
    if value is SELF_ARRAY:
        return '<host global sa>'
    return value


def self_array_intact():
    return (len(SELF_ARRAY) == 2 and SELF_ARRAY[0] == 1.0 and SELF_ARRAY[1] is SELF_ARRAY
            and len(DEEP_ARRAY) == 1 and DEEP_ARRAY[0] is DEEP_INNER)     # identity only: never walk the deep array


def ref_value(arg, pool):
    kind, payload, _ = arg
    if kind == 'v':
        return pool[payload]
    if kind in ('n', 's', 'k'):
        return payload
    if kind == 'f':
        return REF_FUNCS[payload]
    if kind == 'g':
        return CONSTS[payload]
    if kind == 'e':
        return NONFINITE[payload]
    return payload()


class Par:
    """Event-alphabet description of one parameter: the values tried when the call is otherwise valid, its accepted
    type (None = any) and whether null is accepted, whether it may be omitted, and the base value used while another
    parameter is being varied through the wrong types."""

    def __init__(self, valid, type_=None, nullable=False, optional=False, base=None):
        self.valid = valid
        self.type = type_
        self.nullable = nullable
        self.optional = optional
        self.base = valid[0] if base is None else base


DEEP_IN_BFS = ('arrayIndexOf', 'arrayLastIndexOf', 'arrayLength', 'objectHas', 'objectGet')


def alphabet(L):  # pylint: disable=too-many-locals,too-many-statements
    """The event alphabet for array length bound L: a list of (function name, [argument descriptors])."""
    arr = [var('aa'), var('bb'), var('cc')]
    obj = [var('oo'), var('pp')]
    idx = [num(i) for i in range(-2, L + 3)] + [num(1.5)]
    val = [num(1), lit('x'), NULL, var('bb'), var('oo')]
    keys = [lit('k1'), lit('k2')]
    rkeys = keys + [lit('zz')]
    seps = [lit(','), lit('')]
    arr2 = arr + [fresh("arrayNew(1.0, 'x')", lambda: [1.0, 'x']), fresh('arrayNew()', list)]
    obj2 = obj + [fresh("objectNew('k2', 'x')", lambda: {'k2': 'x'}), fresh("objectNew('k1', null, 'k2', 1.0)", lambda: {'k1': None, 'k2': 1.0})]
    aP = lambda: Par(arr, 'array')  # pylint: disable=unnecessary-lambda-assignment
    oP = lambda: Par(obj, 'object')  # pylint: disable=unnecessary-lambda-assignment
    iP = lambda **kw: Par(idx, 'number', base=num(0), **kw)  # pylint: disable=unnecessary-lambda-assignment
    sig = [
        ('arrayCopy', [aP()]),
        ('arrayDelete', [aP(), iP()]),
        ('arrayExtend', [aP(), Par(arr2, 'array')]),
        ('arrayGet', [aP(), iP()]),
        ('arrayIndexOf', [aP(), Par(val + [fn('isOne'), fn('isArr')], optional=True), iP(optional=True)]),
        ('arrayJoin', [aP(), Par(seps, 'string')]),
        ('arrayLastIndexOf', [aP(), Par(val + [fn('isOne'), fn('isArr')], optional=True), Par(idx + [NULL], 'number', nullable=True, optional=True, base=num(0))]),
        ('arrayLength', [aP()]),
        ('arrayNewSize', [iP(optional=True), Par(val, optional=True)]),
        ('arrayPop', [aP()]),
        ('arraySet', [aP(), iP(), Par(val, optional=True)]),
        ('arrayShift', [aP()]),
        ('arraySlice', [aP(), iP(optional=True), Par(idx + [NULL], 'number', nullable=True, optional=True, base=num(0))]),
        ('arraySort', [aP(), Par([NULL, fn('cmpRev')], 'function', nullable=True, optional=True)]),
        ('objectAssign', [oP(), Par(obj2, 'object')]),
        ('objectCopy', [oP()]),
        ('objectDelete', [oP(), Par(rkeys, 'string')]),
        ('objectGet', [oP(), Par(rkeys, 'string'), Par(val, optional=True)]),
        ('objectHas', [oP(), Par(rkeys, 'string')]),
        ('objectKeys', [oP()]),
        ('objectSet', [oP(), Par(keys, 'string'), Par(val, optional=True)]),
    ]
    events = []
    for name, pars in sig:
        required = sum(1 for p in pars if not p.optional)
        # 1. every combination of the valid-typed choices, trailing optional parameters present or omitted
        for m in range(required, len(pars) + 1):
            for combo in itertools.product(*[p.valid for p in pars[:m]]):
                events.append((name, list(combo)))
        base = [p.base for p in pars]
        # 2. one wrong-typed value of every other type per typed parameter (booleans for numbers included)
        for pos, p in enumerate(pars):
            if p.type is None:
                continue
            # the deep array costs a RecursionError inside the implementation (~0.2 ms): in the BFS alphabet only where the
            # failure value is not null, i.e. where a wrong failure value is observable; everywhere in the single-call families
            for _, w in wrong_values(p.type, p.nullable, deep=name in DEEP_IN_BFS):
                events.append((name, base[:pos] + [w] + base[pos + 1:]))
        # 3. a missing required argument (every shorter argument list), 4. a surplus argument
        for m in range(0, required):
            events.append((name, base[:m]))
        events.append((name, base + [num(1)]))
    # variadic constructors / arrayPush
    for n in range(0, 3):
        for combo in itertools.product(val, repeat=n):
            events.append(('arrayNew', list(combo)))
            for a in arr:
                events.append(('arrayPush', [a] + list(combo)))
    for _, w in wrong_values('array', deep=False):
        events.append(('arrayPush', [w, num(1)]))
    events.append(('arrayPush', []))
    events.append(('objectNew', []))
    for k1 in keys:
        for v1 in val:
            events.append(('objectNew', [k1, v1]))
            for k2 in keys:
                for v2 in val[:3]:
                    events.append(('objectNew', [k1, v1, k2, v2]))
    events.append(('objectNew', [lit('k1')]))                       # a key without a value: left open
    events.append(('objectNew', [lit('k1'), num(1), lit('k2')]))
    for _, w in wrong_values('string', deep=False):
        events.append(('objectNew', [w, num(1)]))
        events.append(('objectNew', [lit('k1'), num(1), w, num(1)]))
    out = []
    seen = set()
    for name, args in events:
        text = f"rr = {name}({', '.join(a[2] for a in args)})"
        if text not in seen:
            seen.add(text)
            out.append((name, args, text))
    return out


# ---------------------------------------------------------------------------------------------------------------
# Seeds
# ---------------------------------------------------------------------------------------------------------------

def seed_pools():
    """The initial state and six non-initial seed states (each at most 3 cells, so inside every tier's bound). Without
    events that rebind variables the binding topology (which variables share a container) is invariant along a
    history; the seeds supply the topologies: cc = aa / pp = oo (the design's pool), one array behind all three names,
    three separate arrays, pp a separate object, and containers that no variable names (anonymous)."""
    out = []
    aa, bb, oo = [], [], {}
    out.append(('empty: cc = aa, pp = oo', {'aa': aa, 'bb': bb, 'cc': aa, 'oo': oo, 'pp': oo}))
    aa, bb, oo = [1.0, 'x'], [None], {}
    out.append(('filled', {'aa': aa, 'bb': bb, 'cc': aa, 'oo': oo, 'pp': oo}))
    bb = ['x']
    aa, oo = [bb], {'k2': bb}
    out.append(('bb shared by aa and oo', {'aa': aa, 'bb': bb, 'cc': aa, 'oo': oo, 'pp': oo}))
    aa, oo = [1.0], {}
    out.append(('aa = bb = cc one array', {'aa': aa, 'bb': aa, 'cc': aa, 'oo': oo, 'pp': oo}))
    oo = {'k1': 'x'}
    out.append(('aa, bb, cc three separate arrays', {'aa': [1.0], 'bb': [], 'cc': ['x'], 'oo': oo, 'pp': oo}))
    aa, oo = [['x']], {'k1': {}}
    out.append(('anonymous nested containers', {'aa': aa, 'bb': [], 'cc': aa, 'oo': oo, 'pp': oo}))
    bb = [None]
    aa = [bb]
    out.append(('pp a separate object holding bb', {'aa': aa, 'bb': bb, 'cc': aa, 'oo': {}, 'pp': {'k2': bb}}))
    return out


# ---------------------------------------------------------------------------------------------------------------
# The model handed to Engine B
# ---------------------------------------------------------------------------------------------------------------

class Runtime:
    """Per-process: the live globals dictionary, the pre-parsed event scripts, the options passed to execute_script."""

    def __init__(self, tier):
        bs = load_impl()
        self.bs = bs
        self.tier = tier
        self.bounds = BOUNDS[tier]
        self.events = alphabet(self.bounds['L'])
        self.scripts = [bs.parse_script(text) for _, _, text in self.events]
        self.globals = dict(CONSTS)
        self.options = {'globals': self.globals}
        bs.execute_script(bs.parse_script(PRELUDE), self.options)
        self.names = frozenset(self.globals) | {'rr'} | frozenset(POOL)
        self.mutating = [name in rl.MUTATORS for name, _, _ in self.events]
        self.seen_outcomes = set()     # per process: outcomes already handed to the accumulator of this process



_RT = {}


def runtime(tier):
    if tier not in _RT:
        _RT[tier] = Runtime(tier)
    return _RT[tier]


def within(stats, b):
    return (stats['maxlen'] <= b['L'] and stats['cells'] <= b['T'] and stats['depth'] <= b['D'] and not stats['cycle']
            and stats['keys'] <= KEYSET and stats['scalars'] <= SCALARS)


def kinds_ok(pool):
    return all(isinstance(pool[n], list) for n in ('aa', 'bb', 'cc')) and all(isinstance(pool[n], dict) for n in ('oo', 'pp'))


NOTHING = ('NOTHING',)


def pretty(pool, rr=NOTHING):
    """Readable rendering of a pool (and a result) for violation reports: containers are written once as
    #n[...] / #n{...} and referred to as #n afterwards, so sharing is visible."""
    ids = {}

    def one(v):
        if isinstance(v, (list, dict)):
            if id(v) in ids:
                return f'#{ids[id(v)]}'
            ids[id(v)] = len(ids)
            n = ids[id(v)]
            if isinstance(v, list):
                return f'#{n}[' + ', '.join(one(x) for x in v) + ']'
            return f'#{n}{{' + ', '.join(f'{k}: {one(x)}' for k, x in v.items()) + '}'
        if v is UNSPECIFIED:
            return '(left open)'
        if callable(v):
            return '<function>'
        text = rv.string(v) if rv.rtype(v) in ('null', 'boolean', 'number') else repr(v)
        return text if text is not UNSPECIFIED else repr(v)

    text = ' '.join(f'{n}={one(pool[n])}' for n in POOL if n in pool)
    if rr is not NOTHING:
        text += ' | rr=' + one(rr)
    return text


class Live:
    """One rebuilt copy of a state: the pool of live objects, the numbering of its containers (first-visit order from
    the sorted variable names, as in common.canon) and a shallow snapshot of every container, by which "nothing was
    touched" is recognised without canonicalising (same element objects at the same places, same keys in the same order)."""

    def __init__(self, desc):
        self.pool = bfs.decode_pool(desc)
        self.memo = {}
        self.canon = canon(self.pool, self.memo)
        conts = []
        seen = set()

        def walk(v):
            if isinstance(v, (list, dict)) and id(v) not in seen:
                seen.add(id(v))
                conts.append(v)
                for x in (v if isinstance(v, list) else v.values()):
                    walk(x)

        for name in POOL:
            walk(self.pool[name])
        self.conts = conts
        self.snap = [list(c) if isinstance(c, list) else list(c.items()) for c in conts]

    def untouched(self):
        for c, snap in zip(self.conts, self.snap):
            if len(c) != len(snap):
                return False
            if isinstance(c, list):
                for a, b in zip(c, snap):
                    if a is not b:
                        return False
            else:
                for (k, v), (k2, v2) in zip(c.items(), snap):
                    if v is not v2 or k != k2:
                        return False
        return True

    def rel(self, value):
        """Canonical form of a result relative to the pool: pool containers appear as ('ref', their number), containers
        that are not part of the pool are numbered after them - fresh vs shared is part of the form."""
        if not isinstance(value, (list, dict)):
            return canon(value)
        return canon(value, dict(self.memo))


class Work:
    """The state being expanded: the copy the implementation runs on (installed in the interpreter's globals), the
    private copy the reference mutators run on, the key of the state."""

    def __init__(self, rt, desc):
        self.rt = rt
        self.desc = desc
        self.live = None
        self.rlive = None
        self.fresh_live()
        self.fresh_rlive()
        self.key0 = bfs.pool_key(self.live.pool)

    def fresh_live(self):
        self.live = Live(self.desc)
        self.rt.globals.update(self.live.pool)

    def fresh_rlive(self):
        self.rlive = Live(self.desc)


def run_event(rt, st, ei, acc, number=None):
    """ONE case: event number ei on the state st (a Work). Returns the validated in-bound successor or None, and leaves
    st pristine again."""
    name, args, text = rt.events[ei]
    mutating = rt.mutating[ei]
    G = rt.globals
    live = st.live
    case = {'tier': rt.tier, 'state': st.desc, 'event': ei, 'text': text}
    if number is not None:
        case['state_number'] = number

    # reference: mutators run on the private copy of the state, everything else on the live objects themselves (so the
    # alias relation of a result to the pool can be compared directly)
    rside = st.rlive if mutating else live
    out = rl.call(name, [ref_value(a, rside.pool) for a in args])
    want = out.value

    # implementation
    G.pop('rr', None)
    try:
        rt.bs.execute_script(rt.scripts[ei], rt.options)
    except Exception as exc:  # pylint: disable=broad-exception-caught
        acc.violation(case, 'the call returns', f'{type(exc).__name__}: {exc}', 'an exception escapes execute_script')
        st.fresh_live()
        st.fresh_rlive()
        return None
    acc.evals += 1
    acc.transitions += 1
    got = opaque(G.get('rr'))
    if name == 'objectKeys' and isinstance(got, list) and all(isinstance(k, str) for k in got):
        got = sorted(got)       # the order of the keys is not documented
    word = 'failure value' if out.failed else 'result'
    bad = False
    changed = False
    succ = None
    for n in POOL:
        if G.get(n) is not live.pool[n]:
            acc.violation(case, 'pool variables keep their bindings', n, 'a library call rebound a global variable')
            st.fresh_live()
            st.fresh_rlive()
            return None

    if not self_array_intact():
        acc.violation(case, 'sa = [1, sa]', 'changed', 'a call changed the read-only self-containing array argument')
        raise HarnessError('the self-containing host global was modified; the run cannot continue: ' + text)
    i_same = live.untouched()
    r_same = rside.untouched()
    if i_same and r_same:
        # neither side touched the state: only the result (and its alias relation to the pool) is left to compare
        if want is UNSPECIFIED:
            acc.unspecified += 1
        elif live.rel(got) != rside.rel(want):
            acc.violation(case, pretty(rside.pool, want), pretty(live.pool, got), word + ' differs from the reference (values, or fresh vs shared with the pool)')
            bad = True
    else:
        ipool = live.pool
        rpool = rside.pool
        if want is UNSPECIFIED:
            acc.unspecified += 1
            ci, cr = canon(ipool), canon(rpool)
        else:
            ci, cr = canon({'pool': ipool, 'rr': got}), canon({'pool': rpool, 'rr': want})
        key1 = bfs.pool_key(ipool)
        changed = key1 != st.key0
        if ci != cr:
            bad = True
            if canon(ipool) != canon(rpool):
                if out.failed or not mutating:
                    diff = ('a failing call' if out.failed else 'a call that is not a mutator') + ' changed the state'
                else:
                    diff = 'post-state (values or alias graph) differs from the reference'
            else:
                diff = word + ' differs from the reference (values, or fresh vs shared with the pool)'
            acc.violation(case, pretty(rpool, want), pretty(ipool, got), diff)
        elif changed and (out.failed or not mutating):
            bad = True      # only reachable if the reference itself is wrong; reported rather than hidden
            acc.violation(case, 'state unchanged', pretty(ipool, got), 'reference and implementation both changed the state in a call that must not')
        if changed and not bad:
            acc.count('state_changing')
            if kinds_ok(ipool) and within(bfs.pool_stats(ipool), rt.bounds):
                succ = (ei, key1, bfs.encode_pool(ipool))
            else:
                acc.pruned += 1
        if not i_same:
            st.fresh_live()
        if not r_same:
            if mutating:
                st.fresh_rlive()
            elif i_same:
                st.fresh_live()     # the reference touched the live objects: harness error, made visible above
    if not bad and want is not UNSPECIFIED:
        acc.traces += 1
    if not out.failed:
        acc.nontrivial += 1
    else:
        acc.count('failing_calls')
    obs = (name, out.failed, changed, rv.rtype(want) if want is not UNSPECIFIED else 'open')
    if obs not in rt.seen_outcomes:
        rt.seen_outcomes.add(obs)
        acc.outcome(obs)
    return succ


class ContainerModel:
    def __init__(self, tier, seed_filter=None):
        self.rt = runtime(tier)
        self.seed_filter = seed_filter

    def seeds(self):
        out = []
        for i, (label, pool) in enumerate(seed_pools()):
            if self.seed_filter is None or i in self.seed_filter:
                if not within(bfs.pool_stats(pool), self.rt.bounds):
                    raise HarnessError(f'seed {label!r} is outside the bounds {self.rt.bounds}')
                out.append((label, bfs.encode_pool(pool)))
        return out

    def key(self, desc):
        return bfs.pool_key(bfs.decode_pool(desc))

    def event_text(self, i):
        return self.rt.events[i][2]

    def expand(self, desc, acc, number):
        rt = self.rt
        st = Work(rt, desc)
        succs = []
        for ei in range(len(rt.events)):
            acc.cases += 1
            succ = run_event(rt, st, ei, acc, number)
            if succ is not None:
                succs.append(succ)
        if number % 97 == 0:
            acc.sample({'state': desc, 'events': len(rt.events), 'successors': len({k for _, k, _ in succs}),
                        'first_successor_by': rt.events[succs[0][0]][2] if succs else None})
        return succs


def check_containers(case, acc):
    rt = runtime(case['tier'])
    ei = case['event']
    if rt.events[ei][2] != case['text']:
        raise HarnessError(f'event {ei} is {rt.events[ei][2]!r}, the recorded case says {case["text"]!r}')
    acc.cases += 1
    return run_event(rt, Work(rt, case['state']), ei, acc)


def fam_containers(arg):
    tier, seed_filter = arg
    acc = Acc('containers')
    model = ContainerModel(tier, seed_filter)
    # stop between two levels before the runner's own cap would kill the shard (the evidence then says exhaustive: false)
    cap = 0.9 * float(os.environ.get('VERIF_TIME_CAP_S', '1500' if tier == 'quick' else '14400'))
    t0 = os.times()
    rep = bfs.explore(model, acc, deadline=time.time() + cap)
    t1 = os.times()
    acc.extra['cpu_seconds_all_bfs_workers'] = int(sum(t1[:4]) - sum(t0[:4]))
    if acc.cases != rep['expanded'] * len(model.rt.events):
        raise HarnessError(f'containers: {acc.cases} cases for {rep["expanded"]} expanded states x {len(model.rt.events)} events')
    acc.extra['events_in_alphabet'] = len(model.rt.events)
    acc.extra['fixpoint_reached'] = 1 if rep['fixpoint'] else 0
    acc.extra['bfs_depth'] = len(rep['levels']) - 1
    acc.extra['states_expanded'] = rep['expanded']
    for d, n in enumerate(rep['levels']):
        acc.extra[f'states_first_seen_at_depth_{d:02d}'] = n
    acc.extra['seeds'] = len(rep['seeds'])
    if rep['stopped']:
        acc.sample({'search_stopped': rep['stopped']})
    return acc.result()


# ---------------------------------------------------------------------------------------------------------------
# strings (Engine C)
# ---------------------------------------------------------------------------------------------------------------

MISSING = ('MISSING',)


STRLEN = {'quick': 3, 'thorough': 4}


def string_pool(maxlen):
    out = ['']
    for n in range(1, maxlen + 1):
        out.extend(''.join(t) for t in itertools.product('ab ', repeat=n))
    return out + ['A', 'é', '\U0001F600', '\t', 'a\n']


def str_indices(s):
    return [float(i) for i in range(-2, len(s) + 3)] + [1.5]


SWRONG = {'null': NULL, 'boolean': TRUE, 'number': num(1), 'array': var('arr'), 'object': var('obj'),
          'function': fn('isOne'), 'datetime': const('dt'), 'regex': const('rx'), 'string': lit('x')}
SGLOBALS = {'arr': ['a'], 'obj': {'a': 'b'}}
STRING_SIGS = {
    # name: (parameter kinds, number of required parameters); S string, I index (depends on the first string), N nullable index, C count
    'stringCharCodeAt': ('SI', 2), 'stringEndsWith': ('SS', 2), 'stringIndexOf': ('SSI', 2), 'stringLastIndexOf': ('SSN', 2),
    'stringLength': ('S', 1), 'stringLower': ('S', 1), 'stringRepeat': ('SC', 2), 'stringReplace': ('SSS', 3),
    'stringSlice': ('SIN', 2), 'stringSplit': ('SS', 2), 'stringStartsWith': ('SS', 2), 'stringTrim': ('S', 1), 'stringUpper': ('S', 1),
}
COUNTS = [-1.0, 0.0, 1.0, 2.0, 3.0, 1.5]
NEW_VALUES = [NULL, TRUE, ('k', False, 'false'), num(1), num(1.5), num(-2), num(0), var('arr'), var('obj'), fn('isOne'), const('rx')]
CODES = [97.0, 32.0, 233.0, 128512.0, 0.0]
BADCODES = [num(-1), num(1.5), NULL, TRUE, lit('a'), var('arr'), var('obj'), const('sa'), nonfinite('inf'), nonfinite('nan'), const('big'), const('nbig')]


def string_domain(kind, first, maxlen):
    if kind == 'S':
        return [('str', s) for s in string_pool(maxlen)]
    if kind == 'I':
        return [num(i) for i in str_indices(first)]
    if kind == 'N':
        return [num(i) for i in str_indices(first)] + [NULL]
    return [num(c) for c in COUNTS]


def string_cases(name, firsts, maxlen):
    """Every argument list of one string function whose first argument is string_pool(maxlen)[i] for i in firsts, followed -
    with the first of `firsts` only - by the wrong-typed, missing and surplus lists."""
    kinds, required = STRING_SIGS[name]
    pool = string_pool(maxlen)
    for fi in firsts:
        first = pool[fi]
        doms = [[('str', first)]] + [string_domain(k, first, maxlen) for k in kinds[1:]]
        for m in range(required, len(kinds) + 1):
            for combo in itertools.product(*doms[:m]):
                yield list(combo)
    if firsts and firsts[0] == 0:
        for base0 in ('ab', ''):
            base = [('str', base0)] + [('str', 'b') if k == 'S' else num(0) for k in kinds[1:]]
            for pos, k in enumerate(kinds):
                for _, w in wrong_values('string' if k == 'S' else 'number', k == 'N', SWRONG, True):
                    yield base[:pos] + [w] + base[pos + 1:]
            for m in range(0, required):
                yield base[:m]
            yield base + [num(1)]


def string_count(name, maxlen):
    kinds, required = STRING_SIGS[name]
    total = 0
    npool = len(string_pool(maxlen))
    for first in string_pool(maxlen):
        sizes = [1] + [{'S': npool, 'I': len(first) + 6, 'N': len(first) + 7, 'C': len(COUNTS)}[k] for k in kinds[1:]]
        for m in range(required, len(kinds) + 1):
            prod = 1
            for s in sizes[:m]:
                prod *= s
            total += prod
    wrong = 0
    for k in kinds:
        wrong += n_wrong('string' if k == 'S' else 'number', k == 'N', True)
    return total + 2 * (wrong + required + 1)


class StringRuntime:
    def __init__(self):
        self.bs = load_impl()
        self.globals = dict(CONSTS)
        self.globals.update(SGLOBALS)
        self.options = {'globals': self.globals}
        self.bs.execute_script(self.bs.parse_script(PRELUDE), self.options)
        self.cache = {}

    def call(self, name, args):
        """Run `rr = name(args)` through parse_script/execute_script: strings travel as global variables s0, s1, ...,
        everything else (indices as float literals) is part of the script text."""
        texts = []
        for i, a in enumerate(args):
            if a[0] == 'str':
                self.globals[f's{i}'] = a[1]
                texts.append(f's{i}')
            else:
                texts.append(a[2])
        text = f"rr = {name}({', '.join(texts)})"
        script = self.cache.get(text)
        if script is None:
            script = self.cache[text] = self.bs.parse_script(text)
        self.globals.pop('rr', None)
        self.bs.execute_script(script, self.options)
        return self.globals.get('rr'), text


_SRT = []


def sruntime():
    if not _SRT:
        _SRT.append(StringRuntime())
    return _SRT[0]


def sref_value(a):
    if a[0] == 'str':
        return a[1]
    if a[0] == 'v':
        return SGLOBALS[a[1]]
    return ref_value(a, None)


@impl_guard()
def check_strings(case, acc):
    name = case['fn']
    args = [tuple(a) for a in case['args']]
    srt = sruntime()
    before = canon(SGLOBALS)
    out = rl.call(name, [sref_value(a) for a in args])
    try:
        got, text = srt.call(name, args)
        got = opaque(got)
    except Exception as exc:  # pylint: disable=broad-exception-caught
        acc.violation(case, 'the call returns', f'{type(exc).__name__}: {exc}', 'an exception escapes execute_script')
        return None
    acc.evals += 1
    case = dict(case, text=text)
    if not self_array_intact():
        raise HarnessError('the self-containing host global was modified by ' + text)
    if canon({k: srt.globals[k] for k in SGLOBALS}) != before:
        acc.violation(case, 'arguments unchanged', canon({k: srt.globals[k] for k in SGLOBALS}), 'a string function changed an argument')
    if out.value is UNSPECIFIED:
        acc.unspecified += 1
        return ('open', out.failed)
    if canon(got) != canon(out.value):
        acc.violation(case, out.value, got, ('failure value' if out.failed else 'result') + ' differs from the reference')
    return (out.failed, repr(out.value)[:12])


def jsonable_args(args):
    return [list(a) for a in args]


def fam_strings(arg):
    name, firsts, maxlen = arg
    acc = Acc('strings')
    if name == 'stringNew':
        cases = [[a] for a in NEW_VALUES] + [[('str', s)] for s in string_pool(maxlen)] + [[], [lit('a'), lit('b')]]
    elif name == 'stringFromCharCode':
        cases = [[num(c) for c in combo] for n in range(0, 4) for combo in itertools.product(CODES, repeat=n)]
        cases += [[num(97)] * pos + [w] + [num(98)] * (1 - pos) for w in BADCODES for pos in (0, 1)]
    else:
        cases = string_cases(name, firsts, maxlen)
    for args in cases:
        acc.cases += 1
        obs = check_strings({'fn': name, 'args': jsonable_args(args)}, acc)
        acc.outcome((name, obs))
        if obs is not None and obs[0] is False:
            acc.nontrivial += 1
        if acc.cases % 4001 == 7:
            acc.sample({'fn': name, 'args': [a[1] if a[0] in ('str', 'n', 's', 'k') else a[2] for a in args], 'observed': obs})
    return acc.result()


# ---------------------------------------------------------------------------------------------------------------
# regexEscape
# ---------------------------------------------------------------------------------------------------------------

PUNCT = ''.join(chr(c) for c in range(33, 127) if not chr(c).isalnum())
assert len(PUNCT) == 32


def regex_strings(maxlen=2):
    chars = PUNCT + 'a0 '
    out = ['']
    for n in range(1, maxlen + 1):
        out.extend(''.join(t) for t in itertools.product(chars, repeat=n))
    return out


def impl_call(bs, name, args):
    """A call through the real expression evaluator (so that failures become their documented return values)."""
    glob = {f'v{i}': a for i, a in enumerate(args)}
    expr = {'function': {'name': name, 'args': [{'variable': f'v{i}'} for i in range(len(args))]}}
    from bare_script.library import SCRIPT_FUNCTIONS  # pylint: disable=import-outside-toplevel,import-error
    glob[name] = SCRIPT_FUNCTIONS[name]
    return bs.evaluate_expression(expr, {'globals': glob}, None, False)


@impl_guard(0)
def check_regex(case, acc, targets=None):
    if 'fn' in case:
        return check_bad_call(case, acc)
    bs = load_impl()
    from bare_script.library import SCRIPT_FUNCTIONS as F  # pylint: disable=import-outside-toplevel,import-error
    s = case['s']
    esc = impl_call(bs, 'regexEscape', [s])
    acc.evals += 1
    if not isinstance(esc, str):
        acc.violation(case, 'a string', esc, 'regexEscape of a string is not a string')
        return 0
    rx = impl_call(bs, 'regexNew', ['^' + esc + '$'])
    acc.evals += 1
    if rv.rtype(rx) != 'regex':
        acc.violation(dict(case, escaped=esc), 'a regex', rx, "regexNew('^' + regexEscape(s) + '$') is not a regular expression")
        return 0
    match = F['regexMatch']
    hits = 0
    for t in ([case['t']] if 't' in case else targets):
        m = match([rx, t], None)
        if (m is not None) != (s == t):
            acc.violation({'s': s, 't': t}, s == t, m is not None, "regexMatch(regexNew('^' + regexEscape(s) + '$'), t) succeeds iff s == t")
        hits += m is not None
    return hits


def fam_regex(arg):
    rows = arg
    acc = Acc('regex')
    pool = regex_strings()
    for i in rows:
        s = pool[i]
        hits = check_regex({'s': s}, acc, pool)
        acc.cases += len(pool)
        acc.evals += len(pool)
        acc.nontrivial += 1 + sum(1 for t in pool if len(t) == len(s) and sum(a != b for a, b in zip(s, t)) == 1)
        acc.outcome((hits, len(s), [c.isalnum() or c == ' ' for c in s]))
        if i % 400 == 17:
            acc.sample({'s': s, 'escaped': impl_call(load_impl(), 'regexEscape', [s]), 'matches_among_all_t': hits})
    if rows and rows[0] == 0:
        for case in bad_calls('regexEscape'):
            acc.cases += 1
            check_bad_call(case, acc)
    return acc.result()


def bad_calls(name):
    """Wrong-typed (every other type), missing and surplus argument lists of a one-string-parameter function."""
    return [{'fn': name, 'wrong': t} for t, _ in wrong_values('string')] + [{'fn': name, 'nargs': 0}, {'fn': name, 'nargs': 2}]


@impl_guard()
def check_bad_call(case, acc):
    bs = load_impl()
    args = [ref_value(dict(wrong_values('string'))[case['wrong']], {'bb': [], 'oo': {}})] if 'wrong' in case else ['a'] * case['nargs']
    got = opaque(impl_call(bs, case['fn'], args))
    acc.evals += 1
    if got is not None:
        acc.violation(case, None, got, f"{case['fn']} with a wrong-typed, missing or surplus argument does not return null")


# ---------------------------------------------------------------------------------------------------------------
# urlEncode / urlEncodeComponent
# ---------------------------------------------------------------------------------------------------------------

URL_CHARS = [chr(c) for c in range(128)] + ['é', 'ß', 'Ω', '中', '\U0001F600', '\u00a0']
UNRESERVED = frozenset('ABCDEFGHIJKLMNOPQRSTUVWXYZabcdefghijklmnopqrstuvwxyz0123456789-_.~')
ALLOWED = {
    # encodeURIComponent leaves the unreserved marks ! * ' ( ) alone; encodeURI also every reserved delimiter
    'urlEncodeComponent': UNRESERVED | frozenset("!*'()"),
    'urlEncode': UNRESERVED | frozenset("!*'();/?:@&=+$,#[]"),
}
URL_SURROGATES = ['\ud83d', 'a\udc00b']      # lone surrogate code points (stringFromCharCode(55357)): no UTF-8 encoding exists
URL_EXTRA = ['%41', '%zz', 'a%2', '%%%', 'a b', 'ééé']
HEX = frozenset('0123456789ABCDEFabcdef')


def percent_decode(text):
    """Strict percent-decoding: every '%' must be followed by two hex digits, everything else must be ASCII, and the
    decoded bytes must be valid UTF-8. Raises ValueError otherwise."""
    out = bytearray()
    i = 0
    while i < len(text):
        ch = text[i]
        if ch == '%':
            pair = text[i + 1:i + 3]
            if len(pair) != 2 or pair[0] not in HEX or pair[1] not in HEX:
                raise ValueError(f"'%' at offset {i} is not followed by two hex digits")
            out.append(int(pair, 16))
            i += 3
        else:
            if ord(ch) > 127:
                raise ValueError(f'non-ASCII character at offset {i}')
            out.append(ord(ch))
            i += 1
    return bytes(out).decode('utf-8', errors='strict')


@impl_guard()
def check_url(case, acc):
    if 'fn' in case and 's' not in case:
        return check_bad_call(case, acc)
    bs = load_impl()
    s = case['s']
    obs = []
    for name in ('urlEncodeComponent', 'urlEncode'):
        enc = impl_call(bs, name, [s])
        acc.evals += 1
        c2 = dict(case, fn=name)
        if enc is None and any(0xD800 <= ord(ch) <= 0xDFFF for ch in s):
            obs.append(None)        # a string that cannot be encoded: a failed call (null) is fine; a text must still round-trip
            continue
        if not isinstance(enc, str):
            acc.violation(c2, 'a string', enc, f'{name} of a string is not a string')
            continue
        ok = True
        i = 0
        while i < len(enc):
            ch = enc[i]
            if ch == '%':
                if not (i + 2 < len(enc) and enc[i + 1] in HEX and enc[i + 2] in HEX):
                    ok = False
                    break
                i += 3
                continue
            if ch not in ALLOWED[name]:
                ok = False
                break
            i += 1
        if not ok:
            acc.violation(c2, 'only unreserved/allowed characters and %XX escapes', enc, f'{name} output contains a character that must be escaped (at offset {i})')
        back = None
        if ok:
            try:
                back = percent_decode(enc)
            except ValueError as exc:       # UnicodeDecodeError is a ValueError
                acc.violation(c2, s, enc, f'the output of {name} cannot be percent-decoded: {exc}')
                ok = False
        if ok and back != s:
            acc.violation(c2, s, back, f'percent-decoding the output of {name} does not give the input back')
        obs.append(enc == s)
    return tuple(obs)


def fam_url(arg):
    firsts = arg
    acc = Acc('url')
    for fi in firsts:
        first = URL_CHARS[fi]
        for rest in [''] + URL_CHARS:
            acc.cases += 1
            obs = check_url({'s': first + rest}, acc)
            if obs and not all(obs):
                acc.nontrivial += 1
            acc.outcome(obs)
        acc.sample({'s': first + '/', 'urlEncodeComponent': impl_call(load_impl(), 'urlEncodeComponent', [first + '/']), 'urlEncode': impl_call(load_impl(), 'urlEncode', [first + '/'])})
    if firsts and firsts[0] == 0:
        for s in [''] + URL_EXTRA + URL_SURROGATES:
            acc.cases += 1
            obs = check_url({'s': s}, acc)
            acc.outcome(obs)
        for name in ('urlEncode', 'urlEncodeComponent'):
            for case in bad_calls(name):
                acc.cases += 1
                check_bad_call(case, acc)
    return acc.result()


# ---------------------------------------------------------------------------------------------------------------
# fresh: short histories  r1 = f(args); mutate r1 in place; r2 = f(same args)  for every container-returning function
# ---------------------------------------------------------------------------------------------------------------

MUTATIONS = ['push', 'pop', 'set0', 'direct-append', 'direct-clear']
FRESH_PATTERNS = ['a', ' ', 'a|b', '(a)(b)?', 'x']
# functions of the property's scope (reference result available) and, beyond it, the regex functions that return
# containers (no reference model: the second result must equal what the first one was before it was mutated)
FRESH_REF = ('stringSplit', 'arrayCopy', 'arraySlice', 'arrayNew', 'arrayNewSize', 'objectCopy', 'objectKeys', 'objectNew')
FRESH_FROM_SCRATCH = ('stringSplit', 'regexSplit', 'regexMatchAll', 'regexMatch', 'objectKeys')   # nothing of the result may be shared at any depth


def short_strings():
    out = ['']
    for n in (1, 2):
        out.extend(''.join(t) for t in itertools.product('ab ', repeat=n))
    return out


def fresh_argsets(name):
    """The argument lists (JSON-able; {'regex': pattern} stands for a regular expression) tried for one function."""
    shorts = short_strings()
    arrays = [[], [1.0], [1.0, 'x'], [['x'], None]]
    objects = [{}, {'k1': 1.0}, {'k1': 1.0, 'k2': 'x'}, {'k1': ['x']}]
    if name == 'stringSplit':
        return [[s, sep] for s in shorts for sep in shorts[1:] + [',']]
    if name in ('regexSplit', 'regexMatchAll', 'regexMatch'):
        return [[{'regex': pat}, s] for pat in FRESH_PATTERNS for s in shorts]
    if name == 'arrayCopy':
        return [[a] for a in arrays]
    if name == 'arraySlice':
        return [[a] + rest for a in arrays for rest in ([], [0.0], [1.0], [0.0, 1.0], [0.0, 2.0], [1.0, 1.0], [1.0, 2.0])]
    if name in ('objectCopy', 'objectKeys'):
        return [[o] for o in objects]
    if name == 'arrayNew':
        return [[], [1.0], [1.0, 'x']]
    if name == 'arrayNewSize':
        return [[], [0.0], [2.0], [2.0, 'x']]
    if name == 'objectNew':
        return [[], ['k1', 1.0], ['k1', 1.0, 'k2', 'x']]
    raise HarnessError(name)


FRESH_SIZES = {'stringSplit': 13 * 13, 'regexSplit': 5 * 13, 'regexMatchAll': 5 * 13, 'regexMatch': 5 * 13, 'arrayCopy': 4, 'arraySlice': 4 * 7,
               'objectCopy': 4, 'objectKeys': 4, 'arrayNew': 3, 'arrayNewSize': 4, 'objectNew': 3}


def build_args(spec):
    """Fresh argument objects from the JSON-able description (a private deep copy per call site)."""
    import copy  # pylint: disable=import-outside-toplevel
    return [re.compile(a['regex']) if isinstance(a, dict) and set(a) == {'regex'} else copy.deepcopy(a) for a in spec]


def reachable(value, out=None):
    out = {} if out is None else out
    if isinstance(value, (list, dict)) and id(value) not in out:
        out[id(value)] = value
        for x in (value if isinstance(value, list) else value.values()):
            reachable(x, out)
    return out


class FreshRuntime:
    def __init__(self):
        self.bs = load_impl()
        self.globals = {}
        self.options = {'globals': self.globals}
        self.cache = {}

    def run(self, text):
        script = self.cache.get(text)
        if script is None:
            script = self.cache[text] = self.bs.parse_script(text)
        self.bs.execute_script(script, self.options)


_FRT = []


@impl_guard()
def check_fresh(case, acc):  # pylint: disable=too-many-locals,too-many-branches,too-many-statements
    import copy  # pylint: disable=import-outside-toplevel
    if not _FRT:
        _FRT.append(FreshRuntime())
    frt = _FRT[0]
    name, spec, mut = case['fn'], case['args'], case['mut']
    G = frt.globals
    for k in [k for k in G if k[0] in 'gr' or k in ('mm', 'kk')]:
        del G[k]
    args = build_args(spec)
    for i, a in enumerate(args):
        G[f'g{i}'] = a
    call = f"{name}({', '.join(f'g{i}' for i in range(len(args)))})"
    argpool = {}
    for a in args:
        reachable(a, argpool)
    frt.run('r1 = ' + call)
    acc.evals += 1
    r1 = G.get('r1')
    if name in FRESH_REF:
        rargs = build_args(spec)
        out = rl.call(name, rargs)
        got = sorted(r1) if name == 'objectKeys' and isinstance(r1, list) and all(isinstance(k, str) for k in r1) else r1
        if out.value is not UNSPECIFIED and canon({'args': args, 'r': got}) != canon({'args': rargs, 'r': out.value}):
            acc.violation(case, out.value, r1, 'first result differs from the reference (values, or fresh vs shared with the arguments)')
            return None
    if not isinstance(r1, (list, dict)):
        # a failing or non-matching call: nothing to mutate; the repeated call must still say the same
        frt.run('r2 = ' + call)
        acc.evals += 1
        if canon(G.get('r2')) != canon(r1):
            acc.violation(case, r1, G.get('r2'), 'the repeated call returns something else')
        return ('scalar', rv.rtype(r1))
    snapshot = copy.deepcopy(r1)
    argsnap = canon(args)
    model = copy.deepcopy(r1)
    is_list = isinstance(r1, list)
    G['kk'] = kk = 'zz' if is_list or not r1 else next(iter(r1))
    if mut == 'push':
        frt.run("mm = arrayPush(r1, 'zz')" if is_list else "mm = objectSet(r1, 'zz', 1.0)")
        if is_list:
            model.append('zz')
        else:
            model['zz'] = 1.0
    elif mut == 'pop':
        frt.run('mm = arrayPop(r1)' if is_list else 'mm = objectDelete(r1, kk)')
        if is_list:
            if model:
                model.pop()
        else:
            model.pop(kk, None)
    elif mut == 'set0':
        frt.run("mm = arraySet(r1, 0.0, 'zz')" if is_list else "mm = objectSet(r1, kk, 'zz')")
        if is_list:
            if model:
                model[0] = 'zz'
        else:
            model[kk] = 'zz'
    elif mut == 'direct-append':
        if is_list:
            r1.append('zz')
            model.append('zz')
        else:
            r1['zz'] = 1.0
            model['zz'] = 1.0
    elif mut == 'direct-clear':
        r1.clear()
        model.clear()
    else:
        raise HarnessError(mut)
    mutated = canon(r1) != canon(snapshot)
    if canon(r1) != canon(model):
        acc.violation(case, model, r1, 'the in-place mutation of the first result did not have its documented effect')
        return None
    if name not in FRESH_FROM_SCRATCH and canon(args) != argsnap:
        acc.violation(case, spec, args, 'mutating the result changed the argument it was copied from')
    frt.run('r2 = ' + call)
    acc.evals += 1
    r2 = G.get('r2')
    if r2 is r1:
        acc.violation(case, 'a fresh container', 'the very object the first call returned', 'the repeated call returns the same container object as the first call')
        return ('same', mutated)
    shared = [v for k, v in reachable(r2).items() if k in reachable(r1) and (name in FRESH_FROM_SCRATCH or k not in argpool)]
    if shared:
        acc.violation(case, 'no container shared between the two results', shared[0], 'the two results share a container object (other than an element of the arguments)')
    if canon(r2) != canon(snapshot):
        acc.violation(case, snapshot, r2, 'the repeated call does not return what the first call returned before its result was mutated')
    if canon(r1) != canon(model):
        acc.violation(case, model, r1, 'the first result lost its mutation when the call was repeated')
    return ('list' if is_list else 'object', len(snapshot), mutated)


def fam_fresh(arg):
    name = arg
    acc = Acc('fresh')
    for spec in fresh_argsets(name):
        for mut in MUTATIONS:
            acc.cases += 1
            obs = check_fresh({'fn': name, 'args': spec, 'mut': mut}, acc)
            acc.outcome((name, obs))
            if obs is not None and obs[0] in ('list', 'object') and obs[-1]:
                acc.nontrivial += 1
            if acc.cases % 97 == 3:
                acc.sample({'fn': name, 'args': spec, 'mutation': mut, 'observed': obs})
    return acc.result()


# ---------------------------------------------------------------------------------------------------------------
# callbacks: what the library does with the RESULT of a script callback (comparator sign, predicate truthiness)
# ---------------------------------------------------------------------------------------------------------------

CB_PRELUDE = '''\
function cmpDiff(va, vb):
    return va - vb
endfunction
function cmpDiffRev(va, vb):
    return vb - va
endfunction
function cmpBig(va, vb):
    return (va - vb) * 1e+9
endfunction
function cmpTiny(va, vb):
    return (va - vb) * 0.001
endfunction
function cmpSign(va, vb):
    return systemCompare(va, vb)
endfunction
function itself(vv):
    return vv
endfunction
'''
# comparators: fractional, negative-fractional, huge and tiny results; the reference uses only the SIGN of the result
CB_COMPARATORS = {
    'cmpDiff': lambda a, b: a - b,
    'cmpDiffRev': lambda a, b: b - a,
    'cmpBig': lambda a, b: (a - b) * 1e+9,
    'cmpTiny': lambda a, b: (a - b) * 0.001,
    'cmpSign': rv.compare,
}
CB_SORT_ELEMENTS = [0.1, 0.25, 0.5, 3.1, 3.25, 3.5, -0.5, 1000000.0]      # pairwise differences on both sides of -1 and 1
# predicate results of every truthiness class: the predicate `itself` returns the element
CB_FIND_ELEMENTS = [('0', lambda: 0.0), ("''", lambda: ''), ('[]', list), ('{}', dict), ("'x'", lambda: 'x'), ('0.5', lambda: 0.5),
                    ('null', lambda: None), ('false', lambda: False), ('true', lambda: True), ('[0]', lambda: [0.0])]
CB_STARTS = [None, 0.0, 1.0]
CB_MAXLEN = {'quick': (3, 3), 'thorough': (4, 4)}


class CallbackRuntime:
    def __init__(self):
        self.bs = load_impl()
        self.globals = {}
        self.options = {'globals': self.globals}
        self.bs.execute_script(self.bs.parse_script(CB_PRELUDE), self.options)
        self.cache = {}

    def run(self, text):
        script = self.cache.get(text)
        if script is None:
            script = self.cache[text] = self.bs.parse_script(text)
        self.globals.pop('rr', None)
        self.bs.execute_script(script, self.options)
        return self.globals.get('rr')


_CRT = []


@impl_guard()
def check_callbacks(case, acc):
    if not _CRT:
        _CRT.append(CallbackRuntime())
    crt = _CRT[0]
    if case['kind'] == 'sort':
        arr = [CB_SORT_ELEMENTS[i] for i in case['idx']]
        ref = list(arr)
        crt.globals['ar'] = arr
        out = rl.call('arraySort', [ref, CB_COMPARATORS[case['cmp']]])
        got = crt.run(f"rr = arraySort(ar, {case['cmp']})")
        acc.evals += 1
        if got is not arr:
            acc.violation(case, 'the array itself', got, 'arraySort with a comparator does not return the array it was given')
        elif canon(arr) != canon(out.value):
            acc.violation(dict(case, array=[CB_SORT_ELEMENTS[i] for i in case['idx']]), ref, arr,
                          'arraySort does not order the array by the SIGN of the comparator result (fractional, huge or tiny results)')
        return tuple(arr)
    arr = [CB_FIND_ELEMENTS[i][1]() for i in case['idx']]
    before = canon(arr)
    crt.globals['ar'] = arr
    start = case['start']
    rargs = [arr, (lambda v: v)] + ([] if start is None else [start])
    out = rl.call(case['fn'], rargs)
    got = crt.run(f"rr = {case['fn']}(ar, itself{'' if start is None else ', ' + repr(float(start))})")
    acc.evals += 1
    if canon(got) != canon(out.value):
        acc.violation(dict(case, array=[CB_FIND_ELEMENTS[i][0] for i in case['idx']]), out.value, got,
                      'the match function result is not interpreted by BareScript truthiness (null, false, 0, \'\' and [] are false; everything else, {} included, is true)')
    if canon(arr) != before:
        acc.violation(case, 'array unchanged', arr, 'a search with a match function changed the array')
    return (out.failed, out.value)


def fam_callbacks(arg):
    tier, kind, firsts = arg
    acc = Acc('callbacks')
    maxsort, maxfind = CB_MAXLEN[tier]
    if kind == 'sort':
        n_el = len(CB_SORT_ELEMENTS)
        tuples = [()] if firsts and firsts[0] == 0 else []
        for first in firsts:
            for n in range(0, maxsort):
                tuples.extend((first,) + rest for rest in itertools.product(range(n_el), repeat=n))
        for idx in tuples:
            for cmp_name in CB_COMPARATORS:
                acc.cases += 1
                res = check_callbacks({'kind': 'sort', 'idx': list(idx), 'cmp': cmp_name}, acc)
                acc.outcome(res)
                vals = [CB_SORT_ELEMENTS[i] for i in idx]
                if any(abs(a - b) < 1 and a != b and (a > b) != (cmp_name == 'cmpDiffRev') for a, b in zip(vals, vals[1:])):
                    acc.nontrivial += 1     # an adjacent pair is out of order by less than 1: truncating the result would hide it
        if tuples:
            acc.sample({'sort': [CB_SORT_ELEMENTS[i] for i in tuples[-1]], 'comparators': list(CB_COMPARATORS)})
    else:
        n_el = len(CB_FIND_ELEMENTS)
        tuples = [()] if firsts and firsts[0] == 0 else []
        for first in firsts:
            for n in range(0, maxfind):
                tuples.extend((first,) + rest for rest in itertools.product(range(n_el), repeat=n))
        for idx in tuples:
            for name in ('arrayIndexOf', 'arrayLastIndexOf'):
                for start in CB_STARTS:
                    acc.cases += 1
                    res = check_callbacks({'kind': 'find', 'fn': name, 'idx': list(idx), 'start': start}, acc)
                    acc.outcome((name, res))
                    if res is not None and res[1] is not UNSPECIFIED and res[1] != -1:
                        acc.nontrivial += 1
        if tuples:
            acc.sample({'find_in': [CB_FIND_ELEMENTS[i][0] for i in tuples[-1]], 'predicate': 'itself(vv) returns vv'})
    return acc.result()


# ---------------------------------------------------------------------------------------------------------------
# regexctx: regexEscape of strings in which a metacharacter only matters in CONTEXT
# ---------------------------------------------------------------------------------------------------------------

REGEX_CONTEXT = [
    # quantifiers
    'a{2}', 'a{1,2}', 'a{,2}', 'a{2,}', 'a{2}?', 'a+', 'a*', 'a?', 'a+?', 'a*?', 'a??', 'a{', 'a}',
    # groups, look-around, inline flags, comments, back-references
    '(a)', '(?:a)', '(?i)a', '(?s).', '(?m)^a', '(?x) a', '(?P<n>a)', '(?<n>a)', '(a)\\1', '(?=a)a', '(?!b)a', '(?<=a)b', '(?<!b)a', '(?#c)a',
    # classes, alternation, dot, anchors
    '[^a]', '[a-b]', '[ab]', '[]a]', '[[:alpha:]]', 'a|b', '.', '.*', 'a.b', '^a$', '^a', 'a$', '$^', 'a-b',
    # escapes
    '\\d', '\\w', '\\s', '\\b', '\\.', '\\\\', '\\n', '\\x41', '\\u0041', '\\0', '\\A', '\\Z', '\\',
    # free-spacing characters and lone brackets
    '#a', 'a b', '{', '}', '(', ')', '[', ']',
]
REGEX_CTX_EXTRA = ['\n', 'a\n', '\t', 'A', 'AA', 'aA', 'aab', 'aaaa', 'abab', 'axb', 'a\nb', 'n', 'x41', 'u0041', 'alpha', ':']


def regex_ctx_pool():
    out = ['']
    for n in (1, 2, 3):
        out.extend(''.join(t) for t in itertools.product('abA0 ', repeat=n))
    return out + REGEX_CTX_EXTRA


def regex_ctx_targets(s):
    """The strings the escaped pattern of s is tried on: s itself, every pool string (what the UNESCAPED pattern would
    match is among them: 'aa' for 'a{2}', 'A' for '(?i)a', '0' for '\\d', ...), s with one character deleted, s with one
    character replaced (two ways)."""
    out = [s] + regex_ctx_pool()
    for i, ch in enumerate(s):
        out.append(s[:i] + s[i + 1:])
        out.append(s[:i] + ('y' if ch == 'x' else 'x') + s[i + 1:])
        out.append(s[:i] + ('c' if ch == 'b' else 'b') + s[i + 1:])
    return out


@impl_guard()
def check_regexctx(case, acc):
    bs = load_impl()
    from bare_script.library import SCRIPT_FUNCTIONS as F  # pylint: disable=import-outside-toplevel,import-error
    s = case['s']
    esc = impl_call(bs, 'regexEscape', [s])
    acc.evals += 1
    if not isinstance(esc, str):
        acc.violation(case, 'a string', esc, 'regexEscape of a string is not a string')
        return 0
    rx = impl_call(bs, 'regexNew', ['^' + esc + '$'])
    loose = impl_call(bs, 'regexNew', [esc])
    if rv.rtype(rx) != 'regex' or rv.rtype(loose) != 'regex':
        acc.violation(dict(case, escaped=esc), 'a regex', [rx, loose], 'the escaped text is not a valid regular expression')
        return 0
    n = 0
    for t in ([case['t']] if 't' in case else regex_ctx_targets(s)):
        n += 1
        m = F['regexMatch']([rx, t], None)
        acc.evals += 1
        if (m is not None) != (s == t):
            acc.violation({'s': s, 't': t, 'escaped': esc}, s == t, m is not None, "regexMatch(regexNew('^' + regexEscape(s) + '$'), t) succeeds iff s == t")
    # unanchored: the escaped pattern finds s (and exactly s) inside a longer text
    n += 1
    m = F['regexMatch']([loose, 'xy' + s + 'yx'], None)
    acc.evals += 1
    if not isinstance(m, dict) or m.get('index') != 2 or m.get('groups', {}).get('0') != s:
        acc.violation({'s': s, 'escaped': esc, 'embedded_in': 'xy' + s + 'yx'}, {'index': 2, 'match': s}, m, 'the escaped pattern does not find exactly s inside a longer text')
    return n


def fam_regexctx(arg):
    acc = Acc('regexctx')
    for i in arg:
        s = REGEX_CONTEXT[i]
        check_regexctx({'s': s}, acc)
        acc.cases += len(regex_ctx_targets(s)) + 1
        unescaped = None
        try:
            with warnings.catch_warnings():
                warnings.simplefilter('ignore')
                unescaped = re.compile('^(?:' + s + ')$')
        except re.error:
            pass
        wrong = sum(1 for t in regex_ctx_targets(s) if unescaped is not None and (unescaped.search(t) is not None) != (s == t))
        if wrong:
            acc.nontrivial += 1     # left unescaped, this string would match something else or not match itself
        acc.outcome((s, wrong))
        if i % 9 == 0:
            acc.sample({'s': s, 'escaped': impl_call(load_impl(), 'regexEscape', [s]), 'targets': len(regex_ctx_targets(s)), 'targets_the_unescaped_pattern_gets_wrong': wrong})
    return acc.result()


# ---------------------------------------------------------------------------------------------------------------
# lastfit: searches whose match sits at the last (first) position where it still fits, start index anywhere
# ---------------------------------------------------------------------------------------------------------------

LASTFIT_LEN = {'quick': (6, 5), 'thorough': (7, 6)}     # (max string length over {a,b}, max array length over {1,'x',null})
LASTFIT_VALUES = [('1.0', 1.0), ("'x'", 'x'), ('null', None)]


def lastfit_strings(maxlen, firsts):
    for n in range(1, maxlen + 1):
        for t in itertools.product('ab', repeat=n):
            if 'ab'.index(t[0]) in firsts:
                yield ''.join(t)


def lastfit_string_count(maxlen):
    # per string of length n: every substring (n(n+1)/2) x (n start indices + omitted) x 2 search functions, + 2 x n(n+1)/2 starts/ends-with
    return sum(2 ** n * (n * (n + 1) // 2) * ((n + 1) * 2 + 2) for n in range(1, maxlen + 1))


def lastfit_array_count(maxlen):
    return sum(3 ** n * 3 * (n + 1) * 2 for n in range(1, maxlen + 1))


@impl_guard()
def check_lastfit(case, acc):
    srt = sruntime()
    name = case['fn']
    if case['kind'] == 'string':
        args = [('str', case['s']), ('str', case['t'])] + ([] if case['start'] is None else [num(case['start'])])
        want = rl.call(name, [case['s'], case['t']] + ([] if case['start'] is None else [float(case['start'])]))
        got, text = srt.call(name, args)
    else:
        arr = [LASTFIT_VALUES[i][1] for i in case['idx']]
        srt.globals['la'] = arr
        vtext, value = LASTFIT_VALUES[case['v']]
        text = f"rr = {name}(la, {vtext}{'' if case['start'] is None else ', ' + num(case['start'])[2]})"
        script = srt.cache.get(text)
        if script is None:
            script = srt.cache[text] = srt.bs.parse_script(text)
        srt.globals.pop('rr', None)
        srt.bs.execute_script(script, srt.options)
        got = srt.globals.get('rr')
        want = rl.call(name, [list(arr), value] + ([] if case['start'] is None else [float(case['start'])]))
        if canon(arr) != canon([LASTFIT_VALUES[i][1] for i in case['idx']]):
            acc.violation(case, 'array unchanged', arr, 'a search changed the array')
    acc.evals += 1
    if want.value is UNSPECIFIED:
        acc.unspecified += 1
        return None
    if canon(got) != canon(want.value):
        acc.violation(dict(case, text=text), want.value, got, 'search result differs from the reference (match at the last/first position where it still fits?)')
    return want.value


def fam_lastfit(arg):
    tier, kind, firsts = arg
    acc = Acc('lastfit')
    maxs, maxa = LASTFIT_LEN[tier]
    if kind == 'string':
        for s in lastfit_strings(maxs, firsts):
            n = len(s)
            for i in range(n):
                for k in range(i + 1, n + 1):
                    t = s[i:k]
                    for name in ('stringIndexOf', 'stringLastIndexOf'):
                        for start in [None] + list(range(n)):
                            acc.cases += 1
                            res = check_lastfit({'kind': 'string', 'fn': name, 's': s, 't': t, 'start': start}, acc)
                            acc.outcome((name, res, n))
                            if res is not None and res >= 0 and (res == n - len(t) or res == 0 or res == start):
                                acc.nontrivial += 1     # found at the last fitting position, at position 0, or exactly at the start index
                    for name in ('stringStartsWith', 'stringEndsWith'):
                        acc.cases += 1
                        res = check_lastfit({'kind': 'string', 'fn': name, 's': s, 't': t, 'start': None}, acc)
                        acc.outcome((name, res, n))
                        if res is True:
                            acc.nontrivial += 1
            if len(s) == maxs and s.endswith('ab'):
                acc.sample({'string': s, 'searches': 'every substring, every start index 0..len-1 and omitted'})
    else:
        nv = len(LASTFIT_VALUES)
        for n in range(1, maxa + 1):
            for idx in itertools.product(range(nv), repeat=n):
                if idx[0] not in firsts:
                    continue
                for v in range(nv):
                    for name in ('arrayIndexOf', 'arrayLastIndexOf'):
                        for start in [None] + list(range(n)):
                            acc.cases += 1
                            res = check_lastfit({'kind': 'array', 'fn': name, 'idx': list(idx), 'v': v, 'start': start}, acc)
                            acc.outcome((name, res, n))
                            if res is not None and res >= 0 and (res in (0, n - 1) or res == start):
                                acc.nontrivial += 1
        acc.sample({'arrays': f'every array of length 1..{maxa} over 1, "x", null starting with {[LASTFIT_VALUES[i][0] for i in firsts]}', 'searches': 'each value, every start index and omitted'})
    return acc.result()


# ---------------------------------------------------------------------------------------------------------------

def families(tier):
    b = BOUNDS[tier]
    maxlen = STRLEN[tier]
    npool = len(string_pool(maxlen))
    sshards = []
    expected_strings = 0
    for name in STRING_SIGS:
        nsh = 16 if name == 'stringReplace' else (4 if len(STRING_SIGS[name][0]) == 3 else 1)
        sshards.extend((name, rows, maxlen) for rows in split(list(range(npool)), nsh))
        expected_strings += string_count(name, maxlen)
    sshards.append(('stringNew', None, maxlen))
    expected_strings += len(NEW_VALUES) + npool + 2
    sshards.append(('stringFromCharCode', None, maxlen))
    expected_strings += sum(len(CODES) ** n for n in range(4)) + 2 * len(BADCODES)
    nrx = len(regex_strings())
    nurl = len(URL_CHARS)
    return [
        Family('containers', fam_containers, [(tier, None)],
               f'multi-source BFS to fixpoint from {len(seed_pools())} seed states; array length <= {b["L"]}, object keys within {{k1,k2}}, '
               f'total cells <= {b["T"]}, nesting depth <= {b["D"]}, scalars 1,"x",null, no cycles; alphabet of {len(alphabet(b["L"]))} events '
               f'(16 array* + 8 object* functions)', expected=None,
               note='one shard: the level-synchronous search forks its own workers per BFS level (mc/engine/bfs.py); cases = expanded states x events'),
        Family('strings', fam_strings, sshards,
               f'15 string* functions; every argument tuple over the {npool} strings (length <= {maxlen} over a,b,space; "", A, e-acute, an emoji), indices -2..len+2 and 1.5 as float literals, '
               'null/omitted optional index, plus wrong-typed, missing and surplus arguments', expected=expected_strings),
        Family('regex', fam_regex, split(list(range(nrx)), 64),
               f'every ordered pair (s, t) of the {nrx} strings of length <= 2 over the 32 ASCII punctuation characters + a, 0, space', expected=nrx * nrx + n_wrong('string') + 2),
        Family('url', fam_url, split(list(range(nurl)), 32),
               f'every string of length 1..2 over {nurl} characters (128 ASCII + 6 non-ASCII) + "" + {len(URL_EXTRA)} longer percent cases; both functions',
               expected=nurl * (nurl + 1) + 1 + len(URL_EXTRA) + len(URL_SURROGATES) + 2 * (n_wrong('string') + 2)),
        Family('fresh', fam_fresh, list(FRESH_SIZES),
               'histories r1 = f(args); mutate r1 in place (arrayPush/arrayPop/arraySet or objectSet/objectDelete through the library, append/clear directly); '
               'r2 = f(same args), for the 8 container-returning functions of the property (stringSplit, arrayCopy, arraySlice, arrayNew, arrayNewSize, objectCopy, '
               'objectKeys, objectNew) and regexSplit/regexMatchAll/regexMatch; stringSplit over the 13 strings of length <= 2 over a,b,space x 13 separators',
               expected=sum(FRESH_SIZES.values()) * len(MUTATIONS)),
        Family('callbacks', fam_callbacks,
               [(tier, 'sort', [i]) for i in range(len(CB_SORT_ELEMENTS))] + [(tier, 'find', [i]) for i in range(len(CB_FIND_ELEMENTS))],
               f'arraySort of every array of length <= {CB_MAXLEN[tier][0]} over {len(CB_SORT_ELEMENTS)} non-integral numbers x {len(CB_COMPARATORS)} comparators returning '
               f'fractional / negative / huge / tiny / integer results; arrayIndexOf and arrayLastIndexOf of every array of length <= {CB_MAXLEN[tier][1]} over '
               f'{len(CB_FIND_ELEMENTS)} values of every truthiness class with a match function that returns the element, start omitted / 0.0 / 1.0',
               expected=sum(len(CB_SORT_ELEMENTS) ** n for n in range(CB_MAXLEN[tier][0] + 1)) * len(CB_COMPARATORS)
               + sum(len(CB_FIND_ELEMENTS) ** n for n in range(CB_MAXLEN[tier][1] + 1)) * 2 * len(CB_STARTS)),
        Family('regexctx', fam_regexctx, split(list(range(len(REGEX_CONTEXT))), 8),
               f'{len(REGEX_CONTEXT)} strings in which a metacharacter only matters in context (every construct of the Python/JS regex dialects once); the anchored '
               f'escaped pattern against s, {len(regex_ctx_pool())} short strings over a,b,A,0,space and specials, s with one character deleted or replaced; and unanchored inside a longer text',
               expected=sum(len(regex_ctx_targets(x)) + 1 for x in REGEX_CONTEXT)),
        Family('lastfit', fam_lastfit,
               [(tier, 'string', [i]) for i in range(2)] + [(tier, 'array', [i]) for i in range(len(LASTFIT_VALUES))],
               f'stringIndexOf/stringLastIndexOf/stringStartsWith/stringEndsWith of every string of length 1..{LASTFIT_LEN[tier][0]} over a,b with EVERY one of its substrings and every start '
               f'index 0..len-1 or omitted; arrayIndexOf/arrayLastIndexOf of every array of length 1..{LASTFIT_LEN[tier][1]} over 1,"x",null with each value and every start index or omitted',
               expected=lastfit_string_count(LASTFIT_LEN[tier][0]) + lastfit_array_count(LASTFIT_LEN[tier][1])),
    ]


_CHECKS = {'containers': check_containers, 'strings': check_strings, 'regex': check_regex, 'url': check_url, 'fresh': check_fresh, 'callbacks': check_callbacks, 'regexctx': check_regexctx, 'lastfit': check_lastfit}


def replay(family, case):
    acc = Acc(family)
    _CHECKS[family](case, acc)
    res = acc.result()
    return {'differs': bool(res['nviol'] or res['nknown']), 'violations': res['violations'] + res['known_violations']}
