"""C08 Jump-level models execute by the documented statement semantics (DESIGN 4/C08)."""

import copy
import itertools

from ..common import canon, load_impl
from ..engine.shard import Acc, Family, split
from ..engine.tape import explore
from ..gen import ast, chains, harness
from ..gen import jumpmodels as jm
from ..ref import jumpvm

LEVEL = 'model_checking'
RULE = ('hand-built models: every statement list up to the length bound over the 13-statement alphabet {log a, log b, '
        'x = x + 1, jump A/B, jumpif(cc()) A/B, label A/B (duplicates allowed), return, return x, call ff, jumpif(ff()) A}; every list in '
        'which one position holds one of the 133 function variants (bodies of <= 2 statements with the same label names '
        'inside the function); parsed models of the depth <= 2 nesting chains. Each model is run by the real interpreter '
        'on every tape with at most 3 true conditions (statement horizon 60) and compared with the reference '
        'program-counter machine on result/exception text, log sequence, x, statementCount and the decision sequence; '
        'the model must be deep-equal to a pristine copy afterwards and a second run must be identical. '
        'A state is a (model, tape prefix) node; a model is non-trivial when it contains a jump or a call.')
ASSUMPTIONS = [
    'ref/jumpvm.py is the documented statement semantics (appendix A.6)',
    'maxStatements = 60 bounds non-terminating models; running into it is part of the compared behaviour',
]

HORIZON = 60
BOUND = 3
MAX_TAPE = 8


def check_model(code, case, acc, model=None, presets=None, ref_model=None):
    model = model if model is not None else jm.build(code)
    pristine = copy.deepcopy(model)
    seen = set()

    def run_pair(prefix):
        x = jm.run_impl(model, prefix, HORIZON, presets)
        y = jm.run_ref(ref_model if ref_model is not None else pristine, prefix, HORIZON, presets)
        acc.evals += 1
        d = jm.diff(x, y)
        seen.add((x['result'], tuple(x['logs'])))
        return x['points'], (d, x, y) if d else None

    def on_run(prefix, points, verdict):
        acc.states += 1
        acc.traces += 1
        if verdict is None:
            return True
        d, x, y = verdict
        acc.violation(dict(case, tape=list(prefix)), y, x, 'differs from the reference machine in: ' + d)
        return False

    _, decisions, capped = explore(run_pair, BOUND, MAX_TAPE, on_run, max_runs=2000)
    acc.transitions += decisions
    acc.capped = acc.capped or capped
    if model != pristine:
        acc.violation(case, 'model unchanged by execution', 'model modified', 'execute_script modified the model it executed')
    # repeatability: a second run on the same model object with fresh globals
    a = jm.run_impl(model, [], HORIZON, presets)
    b = jm.run_impl(model, [], HORIZON, presets)
    acc.evals += 2
    if jm.diff(a, b):
        acc.violation(case, a, b, 'two runs of the same model with identical fresh globals differ')
    # ... and a third one that reuses the options object of a previous run, with a fresh (identical) globals object in it
    c = run_reused_options(model, presets)
    acc.evals += 1
    if c is not None and jm.diff(a, c, with_count=False):
        acc.violation(case, a, c, 'a run with identical fresh globals in a REUSED options object differs from the first run')
    for o in itertools.islice(seen, 3):
        acc.outcome(o)
    return len(seen)


def run_reused_options(model, presets):
    """Two runs with the same options object; before the second one the host puts a fresh globals object into it."""
    bs = load_impl()
    from ..common import ImplHang, cpu_watchdog  # pylint: disable=import-outside-toplevel
    from ..engine.tape import Tape  # pylint: disable=import-outside-toplevel
    options = {'maxStatements': HORIZON}
    out = None
    for _ in range(2):
        tape = Tape([])
        logs = []
        glob = {'x': 0}
        if presets:
            glob.update(copy.deepcopy(presets))
        glob['cc'] = lambda args, options, tape=tape: tape.ask('cc', 2) == 1
        options['globals'] = glob
        options['logFn'] = logs.append
        try:
            with cpu_watchdog():
                res = ('ok', canon(bs.execute_script(model, options)))
        except bs.BareScriptRuntimeError as exc:
            res = ('raise', 'BareScriptRuntimeError', str(exc))
        except ImplHang:
            return None
        except Exception as exc:  # pylint: disable=broad-exception-caught
            res = ('raise', type(exc).__name__, str(exc))
        out = {'result': res, 'logs': logs, 'x': canon(glob.get('x')), 'count': options.get('statementCount'), 'points': tape.points}
    return out


def check_plain(case, acc):
    return check_model(case['code'], dict(case, statements=jm.describe(case['code'])), acc)


def fam_plain(arg):
    length, firsts = arg
    acc = Acc('plain')
    for first in firsts:
        for code in jm.lists(length, first):
            acc.cases += 1
            check_plain({'code': code}, acc)
            if any(c in (3, 4, 5, 6, 11, 12) for c in code):
                acc.nontrivial += 1
        acc.sample({'code': jm.describe([first] + [(first * 5 + 3) % jm.NP] * (length - 1))})
    if length == 0:
        acc.cases += 1
        check_plain({'code': []}, acc)
    return acc.result()


def check_fn(case, acc):
    return check_model(case['code'], dict(case, statements=jm.describe(case['code'])), acc)


def fam_fn(arg):
    length, pos, block = arg
    acc = Acc('function')
    for code in jm.lists_with_fn(length, pos, block):
        acc.cases += 1
        check_fn({'code': code}, acc)
        if jm.CALL_FF in code or jm.JUMPIF_FF in code:
            acc.nontrivial += 1
    acc.sample({'code': jm.describe([['fn', block[0]]] + [jm.CALL_FF] * (length - 1))})
    return acc.result()


def parsed_specs():
    for depth in (1, 2):
        for idx in chains.chains(depth):
            levels = chains.chain_levels(idx)
            for spec in chains.specs_for_chain(levels, (0, 3), ('tape',), ('global', 'func')):
                yield spec


def check_parsed(case, acc):
    """A parsed model (structured source lowered by the real parser) through the same oracle."""
    bs = load_impl()
    body = chains.build(case['spec'])
    src = ast.source(body)
    model = bs.parse_script(src)
    prog_case = dict(case, source=src)
    pristine = copy.deepcopy(model)
    seen = set()

    def run_impl(prefix):
        # harness.Program's host functions (cc, pk) - reuse its runner with the parsed model
        return PROG.run_impl(prefix, model)

    class _P(harness.Program):
        pass
    PROG = _P(body)   # noqa: N806
    PROG.model = model

    def run_ref(prefix):
        from ..engine.tape import Tape  # pylint: disable=import-outside-toplevel
        from ..common import canon  # pylint: disable=import-outside-toplevel
        tape = Tape(prefix)
        logs = []
        glob = {}
        host = {'cc': lambda args: tape.ask('cc', 2) == 1, 'pk': lambda args: list(harness.PK[tape.ask('pk', len(harness.PK))])}
        m = jumpvm.Machine(glob, host, logs, limit=harness.HORIZON, lib=jumpvm.lib_basic())
        try:
            res = ('ok', canon(m.run(pristine['statements'], None)))
        except jumpvm.RefRuntimeError as exc:
            msg = str(exc)
            res = ('horizon',) if msg.startswith('Exceeded maximum script statements') else ('raise', 'BareScriptRuntimeError', msg)
        user = {k: canon(v) for k, v in glob.items() if not k.startswith('__bareScript') and k not in PROG.skip_names}
        return {'result': res, 'logs': logs, 'globals': user, 'points': tape.points, 'count': m.count}

    def run_pair(prefix):
        x = run_impl(prefix)
        y = run_ref(prefix)
        acc.evals += 1
        d = harness.diff_obs(x, y)
        if d is None and x['count'] != y['count']:
            d = 'statementCount'
        seen.add((x['result'], tuple(x['logs'])))
        return x['points'], (d, x, y) if d else None

    def on_run(prefix, points, verdict):
        acc.states += 1
        acc.traces += 1
        if verdict is None:
            return True
        d, x, y = verdict
        acc.violation(dict(prog_case, tape=list(prefix)), harness.brief(y), harness.brief(x), 'parsed model differs from the reference machine in: ' + d)
        return False

    _, decisions, capped = explore(run_pair, 2, 10, on_run, max_runs=2000)
    acc.transitions += decisions
    acc.capped = acc.capped or capped
    if model != pristine:
        acc.violation(prog_case, 'model unchanged by execution', 'model modified', 'execute_script modified the parsed model')
    if len(seen) > 1:
        acc.nontrivial += 1
    for o in itertools.islice(seen, 3):
        acc.outcome(o)


def fam_parsed(arg):
    acc = Acc('parsed')
    for spec in arg:
        acc.cases += 1
        check_parsed({'spec': spec}, acc)
    if arg:
        acc.sample({'spec': arg[0]})
    return acc.result()


# ---------------------------------------------------------------- two definitions of one function name

F2_BODIES = [(), (0,), (1,), (2,), (9,), (10,), (0, 10), (2, 10), (7, 3)]
F2_TOKENS = ('F1', 'F2', 'call', 'log', 'retx')


def build_f2(case):
    b1, b2 = F2_BODIES[case['b1']], F2_BODIES[case['b2']]
    sts = []
    for t in case['seq']:
        tok = F2_TOKENS[t]
        if tok == 'F1':
            sts.append({'function': {'name': 'ff', 'statements': [copy.deepcopy(jm.P[i]) for i in b1]}})
        elif tok == 'F2':
            sts.append({'function': {'name': 'ff', 'statements': [copy.deepcopy(jm.P[i]) for i in b2]}})
        elif tok == 'call':
            sts.append(copy.deepcopy(jm.P[jm.CALL_FF]))
        elif tok == 'log':
            sts.append(copy.deepcopy(jm.P[0]))
        else:
            sts.append(copy.deepcopy(jm.P[10]))
    return {'statements': sts}


def check_f2(case, acc):
    model = build_f2(case)
    n = check_model(None, case, acc, model=model)
    # the same model run twice against the SAME globals (a function statement re-binds the name each time)
    from ..engine.tape import Tape  # pylint: disable=import-outside-toplevel
    from ..common import canon, same_result  # pylint: disable=import-outside-toplevel
    bs = load_impl()
    logs_i, logs_r = [], []
    glob_i = {'x': 0, 'cc': lambda args, options: False}
    glob_r = {'x': 0}
    m = jumpvm.Machine(glob_r, {'cc': lambda args: False}, logs_r, limit=HORIZON, lib=jumpvm.lib_basic())
    for rnd, mod in enumerate((model, build_f2(dict(case, b1=case['b2'], b2=case['b1'])))):
        try:
            ri = ('ok', canon(bs.execute_script(mod, {'globals': glob_i, 'logFn': logs_i.append, 'maxStatements': HORIZON})))
        except bs.BareScriptRuntimeError as exc:
            ri = ('raise', str(exc))
        try:
            m.count = 0
            rr = ('ok', canon(m.run(copy.deepcopy(mod)['statements'], None)))
        except jumpvm.RefRuntimeError as exc:
            rr = ('raise', str(exc))
        acc.evals += 1
        acc.states += 1
        acc.transitions += 1
        acc.traces += 1
        if not same_result(ri, rr) or logs_i != logs_r or canon(glob_i.get('x')) != canon(glob_r.get('x')):
            acc.violation(dict(case, round=rnd), {'result': rr, 'logs': logs_r}, {'result': ri, 'logs': logs_i}, 'second model on the same globals: differs from the reference machine')
            break
    return n


def fam_f2(arg):
    acc = Acc('function2')
    for b1, b2 in arg:
        for length in range(2, 5):
            for seq in itertools.product(range(len(F2_TOKENS)), repeat=length):
                if 0 not in seq or 1 not in seq:
                    continue
                acc.cases += 1
                check_f2({'b1': b1, 'b2': b2, 'seq': list(seq)}, acc)
                acc.nontrivial += 1
        acc.sample({'b1': [jm.P_NAMES[i] for i in F2_BODIES[b1]], 'b2': [jm.P_NAMES[i] for i in F2_BODIES[b2]], 'seq': ['F1', 'call', 'F2', 'call']})
    return acc.result()


def f2_count():
    nt = len(F2_TOKENS)
    per = 0
    for length in range(2, 5):
        per += sum(1 for seq in itertools.product(range(nt), repeat=length) if 0 in seq and 1 in seq)
    return per


# ---------------------------------------------------------------- jump conditions of every value type

def cond_pool():
    from . import C01  # pylint: disable=import-outside-toplevel
    return C01.truth_pool()


COND_SHAPES = ('jumpif v', 'jumpif !v', 'jumpif v && 1', 'jumpif v || 0', 'backward jumpif v once', 'jumpif abs(v) - an expression-only built-in is NOT available in a script', 'return max(v, 1) - same')


def build_cond(shape):
    gv = {'variable': 'gv'}
    if shape == 0:
        e = gv
    elif shape == 1:
        e = {'unary': {'op': '!', 'expr': gv}}
    elif shape == 2:
        e = {'binary': {'op': '&&', 'left': gv, 'right': {'number': 1}}}
    elif shape == 3:
        e = {'binary': {'op': '||', 'left': gv, 'right': {'number': 0}}}
    elif shape == 5:
        e = {'function': {'name': 'abs', 'args': [gv]}}
    elif shape == 6:
        return {'statements': [copy.deepcopy(jm.P[0]), {'return': {'expr': {'function': {'name': 'max', 'args': [gv, {'number': 1}]}}}}]}
    else:
        return {'statements': [copy.deepcopy(jm.P[7]), copy.deepcopy(jm.P[2]), copy.deepcopy(jm.P[0]),
                               {'jump': {'label': 'A', 'expr': {'binary': {'op': '&&', 'left': {'binary': {'op': '<', 'left': {'variable': 'x'}, 'right': {'number': 2}}}, 'right': gv}}}},
                               copy.deepcopy(jm.P[10])]}
    return {'statements': [{'jump': {'label': 'A', 'expr': e}}, copy.deepcopy(jm.P[0]), copy.deepcopy(jm.P[7]), copy.deepcopy(jm.P[1]), copy.deepcopy(jm.P[10])]}


def check_cond(case, acc):
    label, value = cond_pool()[case['i']]
    model = build_cond(case['shape'])
    n = check_model(None, dict(case, value=label, shape_name=COND_SHAPES[case['shape']]), acc, model=model, presets={'gv': value})
    acc.nontrivial += 1
    return n


def fam_cond(arg):
    acc = Acc('conditions')
    for i in arg:
        for shape in range(len(COND_SHAPES)):
            acc.cases += 1
            check_cond({'i': i, 'shape': shape}, acc)
        acc.sample({'value': cond_pool()[i][0], 'shapes': list(COND_SHAPES)})
    return acc.result()


# ---------------------------------------------------------------- a function statement inside a function body (schema-valid, hand-built)

def nested_models():
    log = lambda t: {'expr': {'expr': {'function': {'name': 'systemLog', 'args': [{'string': t}]}}}}  # noqa: E731
    call = lambda n: {'expr': {'expr': {'function': {'name': n, 'args': []}}}}  # noqa: E731
    inner = lambda t: {'function': {'name': 'gg', 'statements': [log(t), {'return': {'expr': {'string': t}}}]}}  # noqa: E731
    outer = lambda body: {'function': {'name': 'ff', 'statements': body}}  # noqa: E731
    return [
        ('defined-inside-then-called-globally', [outer([inner('in'), log('ff')]), call('ff'), call('gg')]),
        ('overrides-a-global-of-the-same-name', [inner('global'), outer([inner('in'), call('gg')]), call('gg'), call('ff'), call('gg')]),
        ('called-before-the-outer-ran', [outer([inner('in')]), call('gg')]),
        ('defined-twice-by-two-calls', [outer([inner('in'), {'expr': {'name': 'x', 'expr': jm.X_PLUS_1}}]), call('ff'), call('ff'), call('gg'), {'return': {'expr': {'variable': 'x'}}}]),
        ('parameter-named-like-the-inner-function', [{'function': {'name': 'ff', 'args': ['gg'], 'statements': [inner('in'), log('ff')]}}, {'expr': {'expr': {'function': {'name': 'ff', 'args': [{'number': 1}]}}}}, call('gg')]),
    ]


def check_nested(case, acc):
    name, sts = nested_models()[case['i']]
    n = check_model(None, dict(case, name=name), acc, model={'statements': copy.deepcopy(sts)})
    acc.nontrivial += 1
    return n


def fam_nested(arg):
    acc = Acc('nested_function')
    for i in arg:
        acc.cases += 1
        check_nested({'i': i}, acc)
    acc.sample({'models': [m[0] for m in nested_models()]})
    return acc.result()


# ---------------------------------------------------------------- parameter binding in hand-built function models

REST_PARAMS = (['r'], ['a', 'r'], ['a', 'b', 'r'])
REST_FLAGS = (True, False, None)       # lastArgArray true / explicitly false / absent
REST_NARGS = (0, 1, 2, 3, 4)


def rest_cases():
    return [{'params': p, 'flag': f, 'n1': n1, 'n2': n2} for p in range(len(REST_PARAMS)) for f in range(len(REST_FLAGS))
            for n1 in REST_NARGS for n2 in REST_NARGS]


def build_rest(case):
    params = list(REST_PARAMS[case['params']])
    flag = REST_FLAGS[case['flag']]
    f = {'name': 'ff', 'args': params, 'statements': [{'return': {'expr': {'function': {'name': 'arrayNew', 'args': [{'variable': p} for p in params]}}}}]}
    if flag is not None:
        f['lastArgArray'] = flag
    call = lambda n: {'function': {'name': 'ff', 'args': [{'number': k + 1} for k in range(n)]}}  # noqa: E731
    return {'statements': [{'function': f},
                           {'expr': {'name': 'x', 'expr': {'function': {'name': 'arrayNew', 'args': [call(case['n1']), call(case['n2'])]}}}},
                           {'return': {'expr': {'variable': 'x'}}}]}


def check_rest(case, acc):
    n = check_model(None, case, acc, model=build_rest(case))
    acc.nontrivial += 1
    return n


def fam_rest(arg):
    acc = Acc('restargs')
    for case in arg:
        acc.cases += 1
        check_rest(case, acc)
    if arg:
        acc.sample({'case': arg[0], 'model': build_rest(arg[0])})
    return acc.result()


# ---------------------------------------------------------------- the hard-wired if() inside jump-level models

IF_ARGS = ([], ['c'], ['c', 'a'], ['c', 'a', 'b'], ['c', 'a', 'b', 'a'])
IF_USES = ('statement', 'assignment', 'jump-condition', 'return', 'nested-in-call')


def if_cases():
    return [{'args': a, 'use': u, 'absent_key': k} for a in range(len(IF_ARGS)) for u in IF_USES for k in ((False, True) if a == 0 else (False,))]


def build_if_model(case):
    log = lambda t: {'function': {'name': 'systemLog', 'args': [{'string': t}]}}  # noqa: E731
    arm = {'c': jm.CALL_CC, 'a': log('arm-a'), 'b': log('arm-b')}
    call = {'function': {'name': 'if', 'args': [copy.deepcopy(arm[k]) for k in IF_ARGS[case['args']]]}}
    if case['absent_key']:
        del call['function']['args']
    use = case['use']
    if use == 'statement':
        body = [{'expr': {'expr': call}}]
    elif use == 'assignment':
        body = [{'expr': {'name': 'x', 'expr': call}}]
    elif use == 'jump-condition':
        body = [{'jump': {'label': 'A', 'expr': call}}, {'expr': {'expr': log('not-jumped')}}, {'label': 'A'}]
    elif use == 'return':
        body = [{'function': {'name': 'ff', 'statements': [{'return': {'expr': call}}]}}, {'expr': {'name': 'x', 'expr': {'function': {'name': 'ff', 'args': []}}}}]
    else:
        body = [{'expr': {'name': 'x', 'expr': {'function': {'name': 'arrayNew', 'args': [call, copy.deepcopy(call)]}}}}]
    return {'statements': body + [{'expr': {'expr': log('end')}}, {'return': {'expr': {'variable': 'x'}}}]}


def check_if_model(case, acc):
    n = check_model(None, case, acc, model=build_if_model(case))
    acc.nontrivial += 1
    return n


def fam_if(arg):
    acc = Acc('builtin_if')
    for case in arg:
        acc.cases += 1
        check_if_model(case, acc)
    if arg:
        acc.sample({'case': arg[-1], 'model': build_if_model(arg[-1])})
    return acc.result()


def families(tier):
    load_impl()
    maxlen = 5 if tier == 'quick' else 6
    fnlen = 3 if tier == 'quick' else 4
    plain_shards = [(0, [])]
    for length in range(1, maxlen + 1):
        for firsts in split(list(range(jm.NP)), jm.NP if length >= 4 else 2):
            plain_shards.append((length, firsts))
    nfn = len(jm.FN_BODIES)
    fn_shards = []
    for length in range(1, fnlen + 1):
        for pos in range(length):
            for block in split(list(range(nfn)), 1 if length < 3 else (7 if length == 3 else 19)):
                fn_shards.append((length, pos, block))
    specs = list(parsed_specs())
    nb = len(F2_BODIES)
    pairs = [(a, b) for a in range(nb) for b in range(nb) if a != b]
    npool = len(cond_pool())
    rc = rest_cases()
    ic = if_cases()
    return [
        Family('builtin_if', fam_if, [ic], 'the hard-wired if() with 0..4 argument expressions (and without an args member) as a statement, in an assignment, as a jump condition, in a return and nested in a call: only the selected arm runs, the model is unchanged, a re-run repeats', expected=len(ic)),
        Family('restargs', fam_rest, split(rc, 8), 'a function model with 1..3 parameters and lastArgArray true / false / absent, called twice in one expression with 0..4 arguments each (all pairs): positional binding, missing -> null, surplus ignored, the array parameter collects the rest; the model is unchanged and a re-run repeats',
               expected=len(REST_PARAMS) * len(REST_FLAGS) * len(REST_NARGS) ** 2),
        Family('nested_function', fam_nested, [list(range(len(nested_models())))], 'hand-built models with a function statement inside a function body: it binds a GLOBAL function when executed', expected=len(nested_models())),
        Family('function2', fam_f2, split(pairs, 24), f'two function statements of the same name with different bodies ({nb} bodies, ordered pairs) in every sequence of length 2..4 over {{F1, F2, call, log, return x}} containing both; each also followed by a second model (definitions swapped) on the same globals',
               expected=len(pairs) * f2_count()),
        Family('conditions', fam_cond, [[i] for i in range(npool)], f'a value of each kind ({npool} values of all nine types incl. empty object/array/string, zeros) as jump condition: plain, negated, under && and ||, and in a backward jump', expected=npool * len(COND_SHAPES)),
        Family('plain', fam_plain, plain_shards, f'every statement list of length <= {maxlen} over the 13-statement alphabet; deviation bound {BOUND}; horizon {HORIZON}',
               expected=sum(jm.NP ** k for k in range(maxlen + 1))),
        Family('function', fam_fn, fn_shards, f'every list of length <= {fnlen} with one function variant (133 bodies) at any position, other positions over the alphabet',
               expected=sum(k * nfn * jm.NP ** (k - 1) for k in range(1, fnlen + 1))),
        Family('parsed', fam_parsed, split(specs, 32), 'models parse_script returns for the nesting chains of depth <= 2 (tape style, global and function scope), deviation bound 2',
               expected=len(specs)),
    ]


_CHECKS = {'builtin_if': check_if_model, 'restargs': check_rest, 'nested_function': check_nested, 'plain': check_plain, 'function': check_fn, 'parsed': check_parsed, 'function2': check_f2, 'conditions': check_cond}


def replay(family, case):
    acc = Acc(family)
    _CHECKS[family](case, acc)
    res = acc.result()
    return {'differs': bool(res['nviol'] or res['nknown']), 'violations': res['violations'] + res['known_violations']}
