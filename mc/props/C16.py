"""C16 Datetime construction, arithmetic and ISO text are correct in any time zone (DESIGN 4, C16).

Configurations: the eight time zones of the property (plus three with a negative non-whole-hour offset for the ISO-text families), switched in-process (os.environ['TZ'] + time.tzset()) by every
shard / every replay before anything else happens. Reference: mc/ref/civil.py (integer days-from-civil arithmetic and
time.localtime for the zone's offsets). The datetime module is used here only to build host input values (naive
datetimes with microseconds, dates, aware datetimes) and to read the fields of results for the final comparison.
"""

import datetime
import os
import time

from ..common import HarnessError, load_impl
from ..engine.shard import Acc, Family, split
from ..ref import civil

LEVEL = 'model_checking'
RULE = ('configuration = one of the eight TZ zones (ISO-text families: also America/St_Johns, Pacific/Marquesas, America/Caracas); a state is a distinct (zone, input) pair. Families: datetimeNew over the '
        'grid years x months -30..40 x days (both number spellings) and over B^4 time components on three dates, all seven '
        'getters on every result, compared with integer civil arithmetic; the same through parse_script/execute_script on a '
        'sub-grid; (d+n), (n+d), (d+n)-d, d-(d+n) over instants x millisecond offsets; getters/ISO text of date and aware '
        'host values; datetimeISOFormat/datetimeISOParse on every k-minute step of whole years and every minute of the 48 h '
        'around each DST transition, with five sub-second variants; every edit-distance-1 neighbour and field replacement '
        'of valid ISO texts. Non-trivial: a construction whose components are not already normalised; an arithmetic pair '
        'with n != 0 inside years 1..9999; a round trip in force (instant exists once, whole-minute offset) with a non-zero '
        'UTC offset; a text that must be, or is, rejected.')
ASSUMPTIONS = [
    'mc/ref/civil.py (days-from-civil) is the calendar; it is cross-checked against a naive walking inverse in its selftest',
    'the C library tz database (time.localtime, tm_gmtoff) gives the true offsets of the zones; tzdata is installed',
    'a local time exists once iff exactly one candidate offset (those in force one day before / after) maps back to it',
    'an exception raised by a library function called directly is what the runtime turns into null (runtime.py catches it); '
    'the script-path sub-family and the near-miss family execute the real parse_script/execute_script path as well',
    'local times in a DST gap or fold and instants whose UTC offset has seconds (LMT) carry no round-trip claim (counted unspecified)',
]

ZONES = ['UTC', 'America/New_York', 'Europe/London', 'Asia/Kolkata', 'Asia/Kathmandu', 'Australia/Lord_Howe', 'Pacific/Chatham',
         'Etc/GMT+12']
DST_ZONES = ['America/New_York', 'Europe/London', 'Australia/Lord_Howe', 'Pacific/Chatham']   # two transitions a year, 2023-2025
# "whatever that zone is": none of the eight zones has a NEGATIVE offset with a minutes part, so the families that look at ISO
# text (iso_years, iso_dst, host_values) also run in these: -03:30 / -02:30 (DST), -09:30, and -04:30 (Caracas 2007-12-09..2016-05-01).
EXTRA_ZONES = ['America/St_Johns', 'Pacific/Marquesas', 'America/Caracas']
ISO_EXTRA = {
    'quick': [('America/St_Johns', [2024]), ('Pacific/Marquesas', [2024]), ('America/Caracas', [2010, 2016])],
    'thorough': [('America/St_Johns', [1970, 2023, 2024, 2025, 8999]), ('Pacific/Marquesas', [1970, 2024, 8999]),
                 ('America/Caracas', [2007, 2010, 2016])],
}
# (zone, year, number of offset transitions whose local date falls in that year)
DST_EXTRA = {
    'quick': [('America/St_Johns', 2024, 2), ('America/Caracas', 2016, 1)],
    'thorough': [('America/St_Johns', 2023, 2), ('America/St_Johns', 2024, 2), ('America/St_Johns', 2025, 2),
                 ('America/Caracas', 2007, 1), ('America/Caracas', 2016, 1)],
}
GETTERS = ['datetimeYear', 'datetimeMonth', 'datetimeDay', 'datetimeHour', 'datetimeMinute', 'datetimeSecond', 'datetimeMillisecond']

_STATE = {'zone': None}
_IMPL = {}


def set_zone(zone):
    if _STATE['zone'] != zone or os.environ.get('TZ') != zone:
        os.environ['TZ'] = zone
        time.tzset()
        _STATE['zone'] = zone


def impl():
    if not _IMPL:
        bs = load_impl()
        from bare_script.library import SCRIPT_FUNCTIONS  # pylint: disable=import-outside-toplevel,import-error
        from bare_script.value import value_parse_datetime  # pylint: disable=import-outside-toplevel,import-error
        _IMPL['bs'] = bs
        _IMPL['F'] = SCRIPT_FUNCTIONS
        _IMPL['new'] = SCRIPT_FUNCTIONS['datetimeNew']
        _IMPL['getters'] = [SCRIPT_FUNCTIONS[g] for g in GETTERS]
        _IMPL['format'] = SCRIPT_FUNCTIONS['datetimeISOFormat']
        _IMPL['parse'] = SCRIPT_FUNCTIONS['datetimeISOParse']
        _IMPL['vparse'] = value_parse_datetime
    return _IMPL


def call(func, args):
    """Direct library call the way the runtime makes it: any exception is the null result (and is remembered)."""
    try:
        return func(args, None), None
    except Exception as exc:  # pylint: disable=broad-exception-caught
        return None, f'{type(exc).__name__}: {exc}'


def fields(value):
    """JSON-able observation of a result: 7 fields (microseconds last) of a naive datetime, None, or a description."""
    if value is None:
        return None
    if isinstance(value, datetime.datetime):
        if value.tzinfo is not None:
            return ['aware', value.isoformat()]
        return [value.year, value.month, value.day, value.hour, value.minute, value.second, value.microsecond]
    return ['not-a-datetime', type(value).__name__, repr(value)[:60]]


def us_fields(civ):
    """Reference civil tuple (milliseconds) -> the field list of the equal naive datetime (microseconds)."""
    return None if civ is None else [civ[0], civ[1], civ[2], civ[3], civ[4], civ[5], civ[6] * 1000]


def is_num(value):
    return isinstance(value, (int, float)) and not isinstance(value, bool)


#
# (a)+(b) datetimeNew and the getters, direct calls
#

# Every list is ordered simplest-first (already normalised values, then by distance from the normal range), so that the first
# recorded violation of a family is its smallest.
def _simplest_first(values, low, high):
    return sorted(values, key=lambda v: (max(low - v, v - high, 0), abs(v), v < 0))


YEARS = [2024, 2023, 2000, 1999, 1970, 1900, 1899, 2100, 101, 100, 8999, 9000, 9998, 9999, 10000]
INT_YEARS = [2024, 1900, 100, 9000, 9999]
MONTHS = _simplest_first(range(-30, 41), 1, 12)
DAYS_QUICK = _simplest_first([-10000, -9999, -366, -365] + list(range(-31, 63)) + [365, 366, 9999, 10000], 1, 28)
DAYS_ALL = _simplest_first(range(-10000, 10001), 1, 28)
ALLDAYS = [('UTC', [2024, 2023, 2000, 1999, 1970, 1900, 1899, 2100, 101, 100, 8999, 9000]), ('Pacific/Chatham', [2024, 1900, 9999])]
B_QUICK = _simplest_first([-5000, -1441, -1440, -61, -60, -25, -24, -1, 0, 1, 23, 24, 59, 60, 61, 999, 1000, 1001, 5000], 0, 23)
B_THOROUGH = _simplest_first(set(B_QUICK + [-4999, -1001, -1000, -999, -2, 2, 25, 58, 100, 1439, 1440, 1441, 4999]), 0, 23)
TIME_SPECS = [((2024, 2, 29), 'float'), ((1900, 3, 1), 'int'), ((2023, 12, 31), 'float'), ((2024, 2, 29), 'int'), ((1900, 3, 1), 'float')]
N_TIME_SPECS = {'quick': 2, 'thorough': 5}


def check_new(case, acc):
    """case: zone, sp ('float'|'int'), args [year, month, day, hour, minute, second, millisecond] (ints)."""
    set_zone(case['zone'])
    im = impl()
    nums = case['args']
    exp = civil.normalise(*nums)
    args = [float(x) for x in nums] if case['sp'] == 'float' else list(nums)
    got, err = call(im['new'], args)
    acc.states += 1
    acc.evals += 1
    acc.transitions += 1
    want = us_fields(exp)
    have = fields(got)
    if have != want:
        acc.violation(case, want, have if err is None else [have, err],
                      'datetimeNew result is not the proleptic-Gregorian normalisation of its components' if exp is not None
                      else 'normalised year is outside 1..9999 but the result is not null')
        return exp
    if got is not None:
        parts = []
        for getter in im['getters']:
            part, gerr = call(getter, [got])
            parts.append(part if gerr is None else gerr)
        acc.evals += 7
        acc.transitions += 7
        if parts != list(exp) or not all(is_num(p) for p in parts):
            acc.violation(case, list(exp), parts, 'a component getter does not return the part of the normalised instant')
    acc.traces += 1
    return exp


def _new_case(acc, zone, spelling, nums):
    """One grid case. The comparisons of check_new are made inline first (same calls, same reference, no per-case
    dictionaries); anything but full agreement is handed to check_new, which records the violation - so every recorded
    case is one that check_new (= replay) itself rejects. A disagreement between the two is a harness error."""
    acc.cases += 1
    exp = civil.normalise(*nums)
    if exp is not None:
        im = impl()
        try:
            got = im['new']([float(x) for x in nums] if spelling == 'float' else list(nums), None)
            good = (type(got) is datetime.datetime and got.tzinfo is None and  # pylint: disable=unidiomatic-typecheck
                    (got.year, got.month, got.day, got.hour, got.minute, got.second, got.microsecond) ==
                    (exp[0], exp[1], exp[2], exp[3], exp[4], exp[5], exp[6] * 1000))
            if good:
                arg = [got]
                for i, getter in enumerate(im['getters']):
                    part = getter(arg, None)
                    if part != exp[i] or type(part) not in (int, float):
                        good = False
                        break
        except Exception:  # pylint: disable=broad-exception-caught
            good = False
        if good:
            acc.states += 1
            acc.evals += 8
            acc.transitions += 8
            acc.traces += 1
            if tuple(nums) != exp:
                acc.nontrivial += 1
            return exp
    before = acc.nviol
    check_new({'zone': zone, 'sp': spelling, 'args': nums}, acc)
    if exp is not None and acc.nviol == before:
        raise HarnessError(f'C16: inline comparison and check_new disagree on {zone} {spelling} {nums}')
    acc.nontrivial += 1
    return exp


def fam_new_dates(arg):
    name, zone, spelling, years, months, days = arg
    acc = Acc(name)
    set_zone(zone)
    for year in years:
        for month in months:
            for day in days:
                exp = _new_case(acc, zone, spelling, [year, month, day, 0, 0, 0, 0])
                acc.outcome(exp[:3] if exp else None)
        acc.sample({'zone': zone, 'spelling': spelling, 'datetimeNew': [year, months[0], days[0]],
                    'reference': civil.normalise(year, months[0], days[0])})
    return acc.result()


def fam_new_times(arg):
    zone, spec, hours, pool = arg
    acc = Acc('new_times')
    set_zone(zone)
    (year, month, day), spelling = TIME_SPECS[spec]
    for hour in hours:
        for minute in pool:
            for second in pool:
                for ms in pool:
                    exp = _new_case(acc, zone, spelling, [year, month, day, hour, minute, second, ms])
                acc.outcome(exp[:6] if exp else None)
    acc.sample({'zone': zone, 'spelling': spelling, 'datetimeNew': [year, month, day, hours[0], pool[0], pool[-1], pool[1]],
                'reference': civil.normalise(year, month, day, hours[0], pool[0], pool[-1], pool[1])})
    return acc.result()


#
# (a') the same through the script path: parse_script + execute_script of generated source text
#

S_YEARS = [1900, 2024, 9999]
S_MONTHS = [-30, -1, 0, 1, 12, 13, 40]
S_DAYS = [-10000, -1, 0, 1, 28, 29, 30, 31, 32, 366, 10000]
S_TIMES = [None, (-1, -1, -1, -1), (24, 60, 60, 1000), (23, 59, 59, 999), (-5000, 5000, -5000, 5000)]


def script_source(nums):
    lits = ', '.join(str(n) for n in nums)
    return (f'dt = datetimeNew({lits})\n'
            'return arrayNew(dt, datetimeYear(dt), datetimeMonth(dt), datetimeDay(dt), datetimeHour(dt), '
            'datetimeMinute(dt), datetimeSecond(dt), datetimeMillisecond(dt))\n')


def check_script(case, acc):
    """case: zone, args (3 or 7 ints). Runs the source text through parse_script and execute_script."""
    set_zone(case['zone'])
    bs = impl()['bs']
    nums = case['args']
    exp = civil.normalise(*nums)
    src = script_source(nums)
    acc.states += 1
    acc.evals += 1
    acc.transitions += 9
    try:
        res = bs.execute_script(bs.parse_script(src), {'globals': {}})
    except Exception as exc:  # pylint: disable=broad-exception-caught
        acc.violation(dict(case, source=src), 'a result', f'{type(exc).__name__}: {exc}', 'an exception escaped the script path')
        return exp
    want = [us_fields(exp)] + (list(exp) if exp is not None else [None] * 7)
    have = [fields(res[0])] + list(res[1:]) if isinstance(res, list) and len(res) == 8 else ['not the array', repr(res)[:80]]
    if have != want or (exp is not None and not all(is_num(p) for p in have[1:])):
        acc.violation(dict(case, source=src), want, have, 'script result differs from the civil-arithmetic reference')
    acc.traces += 1
    return exp


def fam_new_script(arg):
    zone, years = arg
    acc = Acc('new_script')
    set_zone(zone)
    for year in years:
        for month in S_MONTHS:
            for day in S_DAYS:
                for tm in S_TIMES:
                    nums = [year, month, day] + (list(tm) if tm else [])
                    acc.cases += 1
                    exp = check_script({'zone': zone, 'args': nums}, acc)
                    if exp is None or tuple(nums + [0] * (7 - len(nums))) != exp:
                        acc.nontrivial += 1
                    acc.outcome(exp)
        acc.sample({'zone': zone, 'source': script_source([year, 14, 31]), 'reference': civil.normalise(year, 14, 31)})
    return acc.result()


#
# (c) datetime + number, datetime - datetime
#

DATES = sorted([(1, 1, 1), (100, 1, 1), (100, 12, 31), (1582, 10, 10), (1752, 9, 5), (1899, 12, 31), (1900, 2, 28), (1900, 3, 1),
         (1969, 12, 31), (1970, 1, 1), (1986, 1, 1), (1999, 12, 31), (2000, 2, 29), (2000, 3, 1), (2001, 9, 9), (2023, 2, 28),
         (2023, 3, 12), (2023, 12, 31), (2024, 1, 1), (2024, 2, 28), (2024, 2, 29), (2024, 3, 1), (2024, 3, 10), (2024, 3, 31),
         (2024, 4, 7), (2024, 9, 29), (2024, 10, 6), (2024, 10, 27), (2024, 11, 3), (2024, 12, 31), (2025, 1, 1), (2037, 12, 31),
         (2038, 1, 19), (2038, 1, 20), (2100, 2, 28), (2100, 3, 1), (2400, 2, 29), (8999, 12, 31), (9000, 1, 1), (9000, 12, 31),
         (9999, 12, 31), (2010, 6, 15)], key=lambda d: (abs(d[0] - 2024), d))     # nearest to the present first
TIMES = [(0, 0, 0, 0), (1, 59, 59, 999), (2, 30, 0, 0), (12, 0, 0, 1), (23, 59, 59, 999)]
_POS = sorted({1, 999, 1000, 86399999, 86400000} | {10 ** k + e for k in range(13) for e in (-1, 0, 1)} - {0})
OFFSETS_MS = [0] + [s * p for p in _POS for s in (1, -1)]        # by magnitude
ARITH_SOURCE = 'return arrayNew(dd + nn, nn + dd, (dd + nn) - dd, dd - (dd + nn))\n'


def instant(idx):
    return DATES[idx // len(TIMES)] + TIMES[idx % len(TIMES)]


def arith_script():
    if 'arith' not in _IMPL:
        _IMPL['arith'] = impl()['bs'].parse_script(ARITH_SOURCE)
    return _IMPL['arith']


def check_arith(case, acc):
    """case: zone, inst (index into DATES x TIMES), n (int), sp ('float'|'int')."""
    set_zone(case['zone'])
    bs = impl()['bs']
    civ = instant(case['inst'])
    n = case['n']
    dd = datetime.datetime(*civ[:6], civ[6] * 1000)
    nn = float(n) if case['sp'] == 'float' else n
    exp = civil.add_ms(civ, n)
    acc.states += 1
    acc.evals += 1
    acc.transitions += 6
    case = dict(case, d=list(civ), source=ARITH_SOURCE)
    try:
        res = bs.execute_script(arith_script(), {'globals': {'dd': dd, 'nn': nn}})
    except Exception as exc:  # pylint: disable=broad-exception-caught
        acc.violation(case, 'a result', f'{type(exc).__name__}: {exc}', 'an exception escaped the script path')
        return 'raise'
    if exp is None:
        acc.unspecified += 1     # A.2: d + n outside years 1..9999 is left open
        return 'outside'
    want = [us_fields(exp), us_fields(exp), n, -n]
    have = ([fields(res[0]), fields(res[1]), res[2], res[3]] if isinstance(res, list) and len(res) == 4
            else ['not the array', repr(res)[:80]])
    if have != want or not (is_num(have[2]) and is_num(have[3])):
        which = ('d + n is not d shifted by n milliseconds' if have[:1] != want[:1] else
                 'n + d differs from d + n' if have[:2] != want[:2] else '(d + n) - d is not n' if have[:3] != want[:3] else
                 'd - (d + n) is not -n')
        acc.violation(case, want, have, which)
    acc.traces += 1
    return 'zero' if n == 0 else 'shift'


def fam_arith(arg):
    zone, insts = arg
    acc = Acc('arith')
    set_zone(zone)
    for idx in insts:
        for n in OFFSETS_MS:
            for spelling in ('float', 'int'):
                acc.cases += 1
                out = check_arith({'zone': zone, 'inst': idx, 'n': n, 'sp': spelling}, acc)
                if out == 'shift':
                    acc.nontrivial += 1
                acc.outcome((out, n > 0))
        acc.sample({'zone': zone, 'd': list(instant(idx)), 'n': OFFSETS_MS[-3], 'd+n': civil.add_ms(instant(idx), OFFSETS_MS[-3])})
    return acc.result()


#
# (b') getters and ISO text of host values that are dates or aware datetimes (value_normalize_datetime)
#

KINDS = ['date', 'aware+00:00', 'aware+05:45', 'aware-09:30']
KIND_OFFSET_S = {'aware+00:00': 0, 'aware+05:45': 20700, 'aware-09:30': -34200}


def check_host(case, acc):
    """case: zone, inst, kind. The value is the date of the instant, or the aware datetime with the instant's fields in
    the kind's fixed offset."""
    set_zone(case['zone'])
    im = impl()
    civ = instant(case['inst'])
    kind = case['kind']
    acc.states += 1
    if kind == 'date':
        value = datetime.date(*civ[:3])
        exp = civ[:3] + (0, 0, 0, 0)
        utc_ms = None
    else:
        off = KIND_OFFSET_S[kind]
        utc_ms = civil.ms_from_civil(civ) - off * 1000
        exp, loc_off = civil.local_of_instant(utc_ms)
        if not (2 <= civ[0] <= 9998 and 2 <= exp[0] <= 9998):
            acc.unspecified += 1   # conversion at the edge of the representable years: nothing stated
            return 'edge'
        value = datetime.datetime(*civ[:6], civ[6] * 1000, tzinfo=datetime.timezone(datetime.timedelta(seconds=off)))
    case = dict(case, value=value.isoformat(), reference_local=list(exp))
    parts = []
    for getter in im['getters']:
        part, gerr = call(getter, [value])
        parts.append(part if gerr is None else gerr)
    acc.evals += 7
    acc.transitions += 7
    if parts != list(exp):
        acc.violation(case, list(exp), parts, 'getters of a date / aware datetime are not the parts of its local civil time')
    # ISO date text
    text, err = call(im['format'], [value, True])
    acc.evals += 1
    acc.transitions += 1
    if civil.iso_read(text) != ('date', tuple(exp[:3])):
        acc.violation(case, f'{exp[0]:04d}-{exp[1]:02d}-{exp[2]:02d}', text if err is None else err, 'ISO date text is not the local date')
    out = 'date'
    if utc_ms is not None:
        out = 'aware-lmt'
        if len(civil.instants_of_local(exp)) != 1:
            out = 'aware-fold'          # the local naive time is ambiguous: which offset the text shows is left open
            acc.unspecified += 1
        elif loc_off % 60 == 0:
            out = 'aware'
            text, err = call(im['format'], [value])
            back, err2 = call(im['parse'], [text]) if isinstance(text, str) else (None, 'format did not return a string')
            acc.evals += 2
            acc.transitions += 2
            cls = civil.iso_classify(text)
            rd = civil.iso_read(text)
            if cls != ('instant', utc_ms) or _offset_of(rd) != loc_off:
                acc.violation(case, civil.iso_text(exp, loc_off), text if err is None else err,
                              'ISO text of an aware datetime does not denote its instant with the local UTC offset')
            elif fields(back) != us_fields(exp):
                acc.violation(case, us_fields(exp), fields(back) if err2 is None else err2, 'parse(format(aware)) is not its local civil time')
        else:
            acc.unspecified += 1
    acc.traces += 1
    return out


def _offset_of(rd):
    if not rd or rd[0] != 'datetime':
        return None
    off = rd[3]
    return 0 if off[0] == 'Z' else (off[1] * 3600 + off[2] * 60) * (-1 if off[0] == '-' else 1)


def fam_host(arg):
    zone, insts = arg
    acc = Acc('host_values')
    set_zone(zone)
    for idx in insts:
        for kind in KINDS:
            acc.cases += 1
            out = check_host({'zone': zone, 'inst': idx, 'kind': kind}, acc)
            if out == 'aware' and civil.local_of_instant(civil.ms_from_civil(instant(idx)) - KIND_OFFSET_S[kind] * 1000)[1] != KIND_OFFSET_S[kind]:
                acc.nontrivial += 1
            acc.outcome((out, kind))
        acc.sample({'zone': zone, 'fields': list(instant(idx)), 'kind': KINDS[2],
                    'local': list(civil.local_of_instant(civil.ms_from_civil(instant(idx)) - 20700000)[0])})
    return acc.result()


#
# (d) ISO format / parse
#

ISO_YEARS_QUICK = [1970, 2024, 2038, 2100, 8999]
ISO_YEARS_THOROUGH = [1900, 1970, 1986, 2000, 2023, 2024, 2025, 2038, 2100, 8999]
DST_YEARS_QUICK = [2024]
DST_YEARS_THOROUGH = [2023, 2024, 2025]
VARIANTS = [(0, 0), (0, 1000), (59, 999000), (59, 999999), (30, 1999)]     # (second, microsecond)
FULL_VARIANT_YEARS = {'quick': [2024], 'thorough': ISO_YEARS_THOROUGH}   # iso_years: all five variants in these years, 0 and 3 in the others
_MEMO = {'key': None, 'inst': None}


def instants_memo(zone, civ6):
    key = (zone, civ6)
    if _MEMO['key'] != key:
        _MEMO['key'] = key
        _MEMO['inst'] = civil.instants_of_local(civ6 + (0,))
    return _MEMO['inst']
FOREIGN = [20700, -34200, 50400, -43200, 3600, -12600]


def check_iso(case, acc):
    """case: zone, civil [Y, M, D, h, mi], var (index into VARIANTS)."""
    set_zone(case['zone'])
    im = impl()
    year, month, day, hour, minute = case['civil']
    second, us = VARIANTS[case['var']]
    ms = us // 1000
    civ = (year, month, day, hour, minute, second, ms)
    dd = datetime.datetime(year, month, day, hour, minute, second, us)
    acc.states += 1
    # date text (no zone involved): once per day
    if case['var'] == 0 and hour == 0 and minute == 0:
        text, err = call(im['format'], [dd, True])
        back, err2 = call(im['parse'], [text]) if isinstance(text, str) else (None, 'format did not return a string')
        acc.evals += 2
        acc.transitions += 2
        if civil.iso_read(text) != ('date', (year, month, day)):
            acc.violation(case, f'{year:04d}-{month:02d}-{day:02d}', text if err is None else err, 'ISO date text is not the date of d')
        elif fields(back) != [year, month, day, 0, 0, 0, 0]:
            acc.violation(case, [year, month, day, 0, 0, 0, 0], fields(back) if err2 is None else err2,
                          'parsing the ISO date text does not give local midnight of that date')
    text, err = call(im['format'], [dd])
    back, err2 = call(im['parse'], [text]) if isinstance(text, str) else (None, 'format did not return a string')
    acc.evals += 2
    acc.transitions += 2
    inst = instants_memo(case['zone'], civ[:6])
    if len(inst) != 1:
        kind = 'gap' if not inst else 'fold'
        acc.unspecified += 1
        acc.count(kind)
        if fields(back) == us_fields(civ):
            acc.count(kind + '_roundtrip_held_anyway')
        return kind
    utc_ms, off = inst[0]
    utc_ms += ms
    if off % 60:
        acc.unspecified += 1
        acc.count('offset_with_seconds')
        return 'lmt'
    rd = civil.iso_read(text)
    if rd is None or rd[0] != 'datetime':
        acc.violation(dict(case, d=dd.isoformat()), civil.iso_text(civ, off), text if err is None else err,
                      'datetimeISOFormat result is not an ISO datetime text with offset')
        return 'bad'
    text_ms = int((rd[2] + '000')[:3]) if rd[2] else 0
    if rd[1] != civ[:6] or text_ms != ms:
        acc.violation(dict(case, d=dd.isoformat()), civil.iso_text(civ, off), text,
                      'ISO text does not show the local fields of d truncated to the millisecond')
    elif _offset_of(rd) != off:
        acc.violation(dict(case, d=dd.isoformat()), civil.iso_text(civ, off), text,
                      'offset in the ISO text is not the UTC offset of the zone at that local time')
    if fields(back) != us_fields(civ):
        acc.violation(dict(case, d=dd.isoformat(), text=text), us_fields(civ), fields(back) if err2 is None else err2,
                      'datetimeISOParse(datetimeISOFormat(d)) differs from d to the millisecond')
    if case['var'] == 0:
        # the same instant written in UTC (+500 ms) and in a foreign offset (+123.456 ms) parses to d's local time
        key = civil.days_from_civil(year, month, day) * 1440 + hour * 60 + minute
        foff = FOREIGN[key % len(FOREIGN)]
        texts = [(civil.iso_text(civil.civil_from_ms(utc_ms), 0, '.5')[:-6] + 'Z', 500),
                 (civil.iso_text(civil.civil_from_ms(utc_ms + foff * 1000), foff, '.123456'), 123)]
        for tx, add in texts:
            got, err3 = call(im['parse'], [tx])
            acc.evals += 1
            acc.transitions += 1
            want = us_fields(civ[:6] + (add,))
            if fields(got) != want:
                acc.violation(dict(case, text=tx), want, fields(got) if err3 is None else err3,
                              'an ISO text with another offset does not parse to the local time of the same instant')
    acc.traces += 1
    return 'utc' if off == 0 else 'offset'


def _iso_minute(acc, zone, daynum, minute_of_day, variants=(0, 1, 2, 3, 4)):
    year, month, day = civil.civil_from_days(daynum)
    out = None
    for var in variants:
        acc.cases += 1
        out = check_iso({'zone': zone, 'civil': [year, month, day, minute_of_day // 60, minute_of_day % 60], 'var': var}, acc)
        if out == 'offset':
            acc.nontrivial += 1
    return out


def fam_iso_years(arg):
    zone, year, months, step, variants = arg
    acc = Acc('iso_years')
    set_zone(zone)
    for month in months:
        first = civil.days_from_civil(year, month, 1)
        for daynum in range(first, first + civil.days_in_month(year, month)):
            outs = []
            for minute_of_day in range(0, 1440, step):
                outs.append(_iso_minute(acc, zone, daynum, minute_of_day, variants))
            acc.outcome(tuple(outs))
        acc.sample({'zone': zone, 'local': [year, month, 1, 12, 0, 0], 'reference_text': _ref_text((year, month, 1, 12, 0, 0, 0))})
    return acc.result()


def _ref_text(civ):
    inst = civil.instants_of_local(civ)
    return civil.iso_text(civ, inst[0][1]) if len(inst) == 1 and inst[0][1] % 60 == 0 else None


def transitions(year):
    """UTC-offset changes of the process zone whose local date falls in `year`: [(first second with the new offset, old, new)]."""
    start = civil.days_from_civil(year, 1, 1) * 86400 - 86400
    end = civil.days_from_civil(year + 1, 1, 1) * 86400 + 86400
    out = []
    prev_t, prev_off = start, time.localtime(start).tm_gmtoff
    for t in range(start + 3600, end + 1, 3600):
        off = time.localtime(t).tm_gmtoff
        if off != prev_off:
            lo, hi = prev_t, t            # offset(lo) == prev_off, offset(hi) == off
            while hi - lo > 1:
                mid = (lo + hi) // 2
                if time.localtime(mid).tm_gmtoff == prev_off:
                    lo = mid
                else:
                    hi = mid
            if civil.civil_from_ms((hi + prev_off) * 1000)[0] == year:
                out.append((hi, prev_off, off))
        prev_t, prev_off = t, off
    return out


def fam_iso_dst(arg):
    zone, year, step = arg
    acc = Acc('iso_dst')
    set_zone(zone)
    for t, old, new in transitions(year):
        centre = (t + old) // 60              # local wall-clock minute (old offset) at which the offset changes
        acc.count('transitions')
        outs = []
        for m in range(centre - 1440, centre + 1440):
            if m % step == 0:
                continue                      # already a state of iso_years
            outs.append(_iso_minute(acc, zone, m // 1440, m % 1440))
        acc.outcome(tuple(outs))
        acc.sample({'zone': zone, 'transition_utc_s': t, 'offset_before_s': old, 'offset_after_s': new,
                    'local_wall_clock': list(civil.civil_from_ms(centre * 60000))})
    return acc.result()


#
# (e) near-miss ISO texts
#

BASES = ['2024-02-29T12:34:56.789+05:45', '2023-12-31T23:59:59Z', '2024-03-10T02:30:00-05:00', '2024-02-29', '2023-11-30']
ALPHA = list('01369-:TZ+. zta')


def neighbours(base):
    out = []
    for i in range(len(base)):
        out.append(base[:i] + base[i + 1:])
    for i, ch in enumerate(base):
        for a in ALPHA:
            if a != ch:
                out.append(base[:i] + a + base[i + 1:])
    for i in range(len(base) + 1):
        for a in ALPHA:
            out.append(base[:i] + a + base[i:])
    return out


def n_neighbours(base):
    return len(base) + (len(base) * len(ALPHA) - sum(1 for ch in base if ch in ALPHA)) + (len(base) + 1) * len(ALPHA)


def _field_texts():
    out = []
    for year in ('2023', '2024'):
        for month in range(0, 14):
            for day in ('00', '01', '28', '29', '30', '31', '32'):
                out.append(f'{year}-{month:02d}-{day}')
                out.append(f'{year}-{month:02d}-{day}T00:00:00Z')
    dt = '2024-02-29T12:34:56.789+05:45'
    for hh in ('00', '23', '24', '25', '99'):
        out.append(dt[:11] + hh + dt[13:])
    out.append('2024-02-29T24:00:00Z')
    for mm in ('59', '60', '99'):
        out.append(dt[:14] + mm + dt[16:])
    for ss in ('59', '60', '61', '99'):
        out.append(dt[:17] + ss + dt[19:])
    for frac in ('', '.', '.7', '.78', '.7890', '.789012', '.7890123', ',789', '.78a'):
        out.append(dt[:19] + frac + dt[23:])
    for off in ('+00:00', '-00:00', '+14:00', '-12:00', '+23:59', '-23:59', '+24:00', '-24:00', '-99:99', '+05:60', '+5:45', '+0545',
                '+05', '', 'z', ' Z', 'Z', 'UTC', '+05:45:00'):
        out.append(dt[:23] + off)
    for sep in (' ', 't', '', '_'):
        out.append(dt[:10] + sep + dt[11:])
    for yy in ('0000', '0001', '9999', '10000', '024', '-2024', '+2024', '02024'):
        out.append(yy + dt[4:])
        out.append(yy + '-02-28')
    out.extend(['', 'T', 'null', '2024', '2024-02', '20240229', '2024-02-29T12:34', '2024-02-29T12:34:56', '2024-W09-4', '2024-060',
                '0001-01-01T00:00:00+14:00', '9999-12-31T23:59:59-12:00', '0001-01-01T00:00:00Z', '9999-12-31T23:59:59Z',
                ' 2024-02-29', '2024-02-29 ', '2024-02-29\n', '2024-02-29T12:34:56Z\n', '२०२४-०२-२९', '2024-02-29T12:34:56.789+05:45Z'])
    return out


FIELD_TEXTS = _field_texts()
N_FIELD_TEXTS = 2 * 14 * 7 * 2 + 5 + 1 + 3 + 4 + 9 + 19 + 4 + 8 * 2 + 20


def near_texts(group):
    return FIELD_TEXTS if group == len(BASES) else neighbours(BASES[group])


def _script_literal_ok(text):
    return "'" not in text and '\\' not in text and '\n' not in text and '\r' not in text


def check_near(case, acc):
    """case: zone, text."""
    set_zone(case['zone'])
    im = impl()
    bs = im['bs']
    text = case['text']
    cls = civil.iso_classify(text)
    obs = []
    # layer 1: the value function (documented: a datetime value or None if parsing fails)
    try:
        obs.append(fields(im['vparse'](text)))
    except Exception as exc:  # pylint: disable=broad-exception-caught
        obs.append(f'raised {type(exc).__name__}: {exc}')
    # layer 2: the library function called directly
    try:
        obs.append(fields(im['parse']([text], None)))
    except Exception as exc:  # pylint: disable=broad-exception-caught
        obs.append(f'raised {type(exc).__name__}: {exc}')
    # layer 3: the script path (text handed over in a global; and as a string literal where it can be written as one)
    runs = [('return datetimeISOParse(tx)\n', {'globals': {'tx': text}})]
    if _script_literal_ok(text):
        runs.append((f"return datetimeISOParse('{text}')\n", {'globals': {}}))
    for src, options in runs:
        try:
            obs.append(fields(bs.execute_script(bs.parse_script(src), options)))
        except Exception as exc:  # pylint: disable=broad-exception-caught
            obs.append(f'raised {type(exc).__name__}: {exc}')
    acc.evals += len(obs)
    acc.transitions += len(obs)
    case = dict(case, reference=list(cls[:1]))
    for layer, got in zip(('value_parse_datetime', 'datetimeISOParse called directly', 'script path (global)', 'script path (literal)'), obs):
        if isinstance(got, str) or (isinstance(got, list) and got and isinstance(got[0], str)):
            acc.violation(dict(case, layer=layer), 'null or a datetime', got, 'parsing a text fails instead of giving null')
            return 'fails'
    if any(o != obs[0] for o in obs):
        acc.violation(case, [obs[0]] * len(obs), obs, 'the layers of datetimeISOParse disagree on the same text')
    got = obs[0]
    out = 'null' if got is None else 'datetime'
    if cls[0] == 'null':
        if got is not None:
            acc.violation(case, None, got, 'a text that is not a date/time of the calendar does not parse to null')
    elif cls[0] == 'date':
        if got != us_fields(cls[1]):
            acc.violation(case, us_fields(cls[1]), got, 'a valid ISO date text does not parse to local midnight of that date')
    elif cls[0] == 'instant':
        local, _ = civil.local_of_instant(cls[1])
        utc = civil.civil_from_ms(cls[1])
        if 2 <= local[0] <= 9998 and 2 <= utc[0] <= 9998:
            if got != us_fields(local):
                acc.violation(case, us_fields(local), got, 'a valid ISO datetime text does not parse to the local time of its instant')
        else:
            acc.unspecified += 1
    else:
        acc.unspecified += 1          # other shapes, hour 24, second 60, offset out of range: null or a datetime, not documented which
        if cls[0] == 'open' and got is not None:
            acc.count('accepted: ' + cls[1])
    acc.traces += 1
    return (cls[0], out)


def fam_near(arg):
    zone, group = arg
    acc = Acc('near_miss')
    set_zone(zone)
    seen = set()
    texts = near_texts(group)
    for text in texts:
        acc.cases += 1
        if text in seen:
            acc.count('duplicate_texts')
            continue
        seen.add(text)
        acc.states += 1
        out = check_near({'zone': zone, 'text': text}, acc)
        if out == 'fails' or out[0] == 'null' or out[1] == 'null':
            acc.nontrivial += 1
        acc.outcome(out)
    acc.sample({'zone': zone, 'text': texts[len(texts) // 2], 'reference': list(civil.iso_classify(texts[len(texts) // 2])[:1])})
    return acc.result()


#
# Families
#

def families(tier):
    quick = tier == 'quick'
    fams = []
    # (a) dates grid: all zones, both spellings
    iyears = INT_YEARS if quick else YEARS
    shards = [('new_dates', z, sp, ys, MONTHS, DAYS_QUICK) for z in ZONES for sp, yy in (('float', YEARS), ('int', iyears))
              for ys in split(yy, 3 if len(yy) > 5 else 1)]
    fams.append(Family('new_dates', fam_new_dates, shards,
                       f'{len(ZONES)} zones x (float spelling: years {YEARS}; int spelling: years {iyears}) x months -30..40 x '
                       f'{len(DAYS_QUICK)} days (-10000, -9999, -366, -365, -31..62, 365, 366, 9999, 10000); 7 getters on every result',
                       expected=len(ZONES) * (len(YEARS) + len(iyears)) * len(MONTHS) * len(DAYS_QUICK)))
    if not quick:
        shards = [('new_alldays', z, 'float', [y], ms, DAYS_ALL) for z, ys in ALLDAYS for y in ys for ms in split(MONTHS, 8)]
        fams.append(Family('new_alldays', fam_new_dates, shards,
                           f'(zone, years) {ALLDAYS} x months -30..40 x every day -10000..10000 (float spelling)',
                           expected=sum(len(ys) for _, ys in ALLDAYS) * len(MONTHS) * len(DAYS_ALL),
                           note='civil arithmetic of datetimeNew does not read the zone; the all-days sweep is run in two zones only'))
    pool = B_QUICK if quick else B_THOROUGH
    nspec = N_TIME_SPECS[tier]
    shards = [(z, spec, hs, pool) for z in ZONES for spec in range(nspec) for hs in split(pool, 2 if quick else 4)]
    fams.append(Family('new_times', fam_new_times, shards,
                       f'{len(ZONES)} zones x dates/spellings {TIME_SPECS[:nspec]} x (hour, minute, second, millisecond) in B^4, B = {pool}',
                       expected=len(ZONES) * nspec * len(pool) ** 4))
    syears = S_YEARS if quick else S_YEARS + [100, 2023, 9000]
    shards = [(z, ys) for z in ZONES for ys in split(syears, 3 if quick else 6)]
    fams.append(Family('new_script', fam_new_script, shards,
                       f'{len(ZONES)} zones x source text "dt = datetimeNew(...)" + 7 getters through parse_script/execute_script: years '
                       f'{syears} x months {S_MONTHS} x days {S_DAYS} x time tails {S_TIMES}',
                       expected=len(ZONES) * len(syears) * len(S_MONTHS) * len(S_DAYS) * len(S_TIMES)))
    # (c)
    ninst = len(DATES) * len(TIMES)
    shards = [(z, ix) for z in ZONES for ix in split(list(range(ninst)), 4)]
    fams.append(Family('arith', fam_arith, shards,
                       f'{len(ZONES)} zones x {ninst} instants ({len(DATES)} dates x {len(TIMES)} times) x {len(OFFSETS_MS)} offsets n '
                       '(0, +-{1, 999, 1000, 86399999, 86400000, 10^k, 10^k+-1 for k <= 12}) x float/int spelling, through execute_script',
                       expected=len(ZONES) * ninst * len(OFFSETS_MS) * 2))
    hzones = ZONES + EXTRA_ZONES
    shards = [(z, ix) for z in hzones for ix in split(list(range(ninst)), 2)]
    fams.append(Family('host_values', fam_host, shards,
                       f'{len(ZONES)} zones + {EXTRA_ZONES} x {ninst} instants x kinds {KINDS}: getters, ISO date text, ISO text '
                       '(local fields, sign/hh/mm of the offset) and round trip',
                       expected=len(hzones) * ninst * len(KINDS)))
    # (d)
    years = ISO_YEARS_QUICK if quick else ISO_YEARS_THOROUGH
    step = 30 if quick else 15
    full = FULL_VARIANT_YEARS[tier]
    zone_years = [(z, y) for z in ZONES for y in years] + [(z, y) for z, ys in ISO_EXTRA[tier] for y in ys]
    full = sorted(set(full) | ({y for _, ys in ISO_EXTRA[tier] for y in ys} if not quick else set()))
    shards = [(z, y, ms, step, (0, 1, 2, 3, 4) if y in full else (0, 3)) for z, y in zone_years
              for ms in split(list(range(1, 13)), 4 if y in full else 2)]
    nvar = sum((366 if civil.is_leap(y) else 365) * (len(VARIANTS) if y in full else 2) for _, y in zone_years)
    fams.append(Family('iso_years', fam_iso_years, shards,
                       f'({len(ZONES)} zones x years {years} + extra (zone, years) {ISO_EXTRA[tier]}) x every {step}-minute local '
                       f'wall-clock step x sub-second variants (second, microsecond) {VARIANTS} (all five in {full}, the first and '
                       'the fourth elsewhere); variant 0 also parses the instant written in UTC and in a foreign offset',
                       expected=nvar * (1440 // step)))
    dyears = DST_YEARS_QUICK if quick else DST_YEARS_THOROUGH
    dst_specs = [(z, y, 2) for z in DST_ZONES for y in dyears] + DST_EXTRA[tier]
    shards = [(z, y, step) for z, y, _ in dst_specs]
    fams.append(Family('iso_dst', fam_iso_dst, shards,
                       f'zones {DST_ZONES} x the two offset transitions of {dyears} + extra (zone, year, transitions) {DST_EXTRA[tier]} x '
                       f'every minute of the 48 h around the transition that is not already on the {step}-minute grid x the same '
                       'variants (the other four zones have no transition)',
                       expected=sum(n for _, _, n in dst_specs) * (2880 - 2880 // step) * len(VARIANTS)))
    # (e)
    shards = [(z, g) for z in ZONES for g in range(len(BASES) + 1)]
    fams.append(Family('near_miss', fam_near, shards,
                       f'{len(ZONES)} zones x (every deletion, replacement and insertion of one character from {"".join(ALPHA)!r} in the '
                       f'valid texts {BASES} + {N_FIELD_TEXTS} field replacements / other shapes); value_parse_datetime, '
                       'datetimeISOParse directly and through parse_script/execute_script',
                       expected=len(ZONES) * (sum(n_neighbours(b) for b in BASES) + N_FIELD_TEXTS)))
    return fams


_CHECKS = {'new_dates': check_new, 'new_alldays': check_new, 'new_times': check_new, 'new_script': check_script, 'arith': check_arith,
           'host_values': check_host, 'iso_years': check_iso, 'iso_dst': check_iso, 'near_miss': check_near}


def replay(family, case):
    acc = Acc(family)
    _CHECKS[family](case, acc)
    res = acc.result()
    return {'differs': bool(res['nviol'] or res['nknown']), 'violations': res['violations'] + res['known_violations'],
            'zone': os.environ.get('TZ')}
